(* Extraction of the executable model, projections and monitors.
   ExtrOcamlBasic only; nat, N, Z, positive stay the extracted inductive types. *)
From Coq Require Import Extraction ExtrOcamlBasic.
From Verif Require Import Sx Dispatch.
Extraction Language OCaml.
Extraction "extracted.ml" run proj spec.
