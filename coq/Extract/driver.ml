(* Line-protocol driver around the extracted model.
   stdin : PROP \t CASE \t OBS      (sx text: s<hex> atoms, i<int>, parentheses, space-separated)
   stdout: MODEL \t PROJ \t VERDICT *)
module E = Extracted
open! Stdlib

let rec pos_of_int n = if n = 1 then E.XH else if n land 1 = 0 then E.XO (pos_of_int (n lsr 1)) else E.XI (pos_of_int (n lsr 1))
let n_of_int n = if n = 0 then E.N0 else E.Npos (pos_of_int n)
let z_of_int n = if n = 0 then E.Z0 else if n > 0 then E.Zpos (pos_of_int n) else E.Zneg (pos_of_int (-n))
let rec int_of_pos = function E.XH -> 1 | E.XO p -> 2 * int_of_pos p | E.XI p -> 2 * int_of_pos p + 1
let int_of_n = function E.N0 -> 0 | E.Npos p -> int_of_pos p
let int_of_z = function E.Z0 -> 0 | E.Zpos p -> int_of_pos p | E.Zneg p -> - (int_of_pos p)

(* arbitrary-size decimal <-> Z through the extracted arithmetic *)
let z_of_string (t : string) : E.z =
  let neg = String.length t > 0 && t.[0] = '-' in
  let start = if neg || (String.length t > 0 && t.[0] = '+') then 1 else 0 in
  let ten = z_of_int 10 in
  let acc = ref E.Z0 in
  for i = start to String.length t - 1 do
    acc := E.Z.add (E.Z.mul !acc ten) (z_of_int (Char.code t.[i] - 48))
  done;
  if neg then E.Z.opp !acc else !acc

let string_of_z (z : E.z) : string =
  let small z = match z with E.Z0 -> Some 0 | E.Zpos p -> (try Some (int_of_pos p) with _ -> None) | E.Zneg _ -> None in
  let ten = z_of_int 10 in
  let rec digits z acc =
    match z with
    | E.Z0 -> acc
    | _ -> let d = (match small (E.Z.modulo z ten) with Some d -> d | None -> 0) in
      digits (E.Z.div z ten) (String.make 1 (Char.chr (48 + d)) ^ acc) in
  match z with
  | E.Z0 -> "0"
  | E.Zpos _ -> digits z ""
  | E.Zneg p -> "-" ^ digits (E.Zpos p) ""

let hexval c = match c with
  | '0'..'9' -> Char.code c - 48 | 'a'..'f' -> Char.code c - 87 | 'A'..'F' -> Char.code c - 55
  | _ -> failwith "bad hex"

let str_of_hex (h : string) =
  let n = String.length h / 2 in
  let rec go i acc = if i < 0 then acc else
      go (i - 1) (n_of_int (hexval h.[2*i] * 16 + hexval h.[2*i+1]) :: acc) in
  go (n - 1) []

let parse (line : string) : E.sx =
  let toks = String.split_on_char ' ' line in
  let rec items toks acc = match toks with
    | [] -> (List.rev acc, [])
    | ")" :: rest -> (List.rev acc, rest)
    | "(" :: rest -> let (l, rest') = items rest [] in items rest' (E.L l :: acc)
    | "" :: rest -> items rest acc
    | t :: rest ->
      let v = match t.[0] with
        | 's' -> E.A (str_of_hex (String.sub t 1 (String.length t - 1)))
        | 'i' -> E.I (z_of_string (String.sub t 1 (String.length t - 1)))
        | _ -> failwith ("bad token " ^ t) in
      items rest (v :: acc) in
  match items toks [] with
  | ([x], []) -> x
  | _ -> failwith "expected exactly one tree"

let buf = Buffer.create 65536
let rec print (x : E.sx) = match x with
  | E.A s -> Buffer.add_char buf 's'; List.iter (fun c -> Buffer.add_string buf (Printf.sprintf "%02x" (int_of_n c))) s
  | E.I z -> Buffer.add_char buf 'i'; Buffer.add_string buf (string_of_z z)
  | E.L l -> Buffer.add_char buf '(';
    List.iter (fun y -> Buffer.add_char buf ' '; print y) l; Buffer.add_string buf " )"

let show x = Buffer.clear buf; print x; Buffer.contents buf

let () =
  try
    while true do
      let line = input_line stdin in
      match String.split_on_char '\t' line with
      | [p; c; o] ->
        let px = parse p and cx = parse c and ox = parse o in
        let prop = (match px with E.A s -> s | _ -> []) in
        let m = E.run cx in
        let pj = E.proj cx ox in
        let v = E.spec prop cx pj in
        print_string (show m); print_char '\t'; print_string (show pj); print_char '\t'; print_string (show v); print_newline ()
      | _ -> print_endline "ERR\tERR\tERR"
    done
  with End_of_file -> ()
