(* Property monitors over cache histories: a small reference bookkeeping of what the origin
   sent and when, against which the implementation's observable decisions are judged.
   These are the executable forms of the history-level statements of C07-C10. *)
From Coq Require Import String.
From Coq Require Import List NArith ZArith Bool.
From Verif Require Import GoStr GoNum GoHeader Sx Sha1 Tables Route Forward Serve Wire Range Meta Fresh Key Cache SpecC01 SpecC10 SpecC15 Monitors.
Import ListNotations.
Open Scope Z_scope.

(* ---- reading lifetimes by the RFC grammar, independently of the code's parser ---- *)
Definition members (h : hdrs) (name : str) : list str :=
  flat_map (fun v => map spec_trim (split v [44%N])) (hvalues h name).

Definition member_int (name : str) (m : str) : option Z :=
  match split2 m [61%N] with
  | [n; v] => if str_eqb (to_lower (spec_trim n)) name then
                let v' := spec_trim v in
                if nonempty v' && forallb is_digit v' then parse_int v' else None
              else None
  | _ => None
  end.

Definition directive_int (h : hdrs) (name : str) : option Z :=
  match flat_map (fun m => match member_int name m with Some v => [v] | None => [] end) (members h (bytes "cache-control")) with
  | v :: _ => Some v
  | [] => None
  end.

Record sent := mkSent { se_status : Z; se_hdrs : hdrs; se_body : str; se_at : Z }.

(* explicit lifetime of a stored response: s-maxage, else max-age, else Expires - stored time;
   capped by force_revalidate; None when the response names none (a don't-care) *)
Definition spec_lifetime (expires : list (str * Z)) (force : Z) (e : sent) : option Z :=
  let base :=
      if (cacheable_err_lo <=? se_status e) && (se_status e <=? cacheable_err_hi) then Some 60 else
      match directive_int (se_hdrs e) (bytes "s-maxage") with
      | Some v => Some v
      | None => match directive_int (se_hdrs e) (bytes "max-age") with
                | Some v => Some v
                | None => let x := hget (se_hdrs e) (bytes "expires") in
                          if nonempty x then
                            match find (fun p => str_eqb (fst p) x) expires with
                            | Some (_, t) => Some (t - se_at e)
                            | None => Some 0
                            end
                          else None
                end
      end in
  match base with
  | Some l => Some (if (0 <? force) && (force <? l) then force else l)
  | None => if 0 <? force then Some force else None
  end.

Definition res_key (q : req) : str :=
  (if str_eqb (q_method q) (bytes "HEAD") then [72%N] else [71%N]) ++ [10%N] ++ q_host q ++ [10%N] ++ q_uri q ++ [10%N]
  ++ join (hvalues (q_hdrs q) (bytes "Accept-Encoding")) [0%N] ++ [10%N]
  ++ join (hvalues (q_hdrs q) (bytes "Authorization")) [0%N] ++ [10%N]
  ++ join (hvalues (q_hdrs q) (bytes "Origin")) [0%N].

Fixpoint store_get (s : list (str * sent)) (k : str) : option sent :=
  match s with
  | [] => None
  | (k', e) :: s' => if str_eqb k' k then Some e else store_get s' k
  end.
Definition store_put (s : list (str * sent)) (k : str) (e : sent) := (k, e) :: filter (fun p => negb (str_eqb (fst p) k)) s.

(* replay the scripted origin over the observed deliveries: what it answered, in order *)
Fixpoint exchanges (sc : script) (log : list sx) : script * list behaviour :=
  match log with
  | [] => (sc, [])
  | d :: log' =>
    let '(sc', b) := script_pop sc (url_host (dl_url d)) in
    let '(sc'', bs) := exchanges sc' log' in
    (sc'', origin_answer (mkDlv (dl_url d) (dl_host d) (dl_method d) (dl_hdrs d) (dl_body d)) b :: bs)
  end.

Definition last_resp (bs : list behaviour) : option resp :=
  match rev bs with
  | BResp r :: _ => Some r
  | _ => None
  end.

Definition must_not_cache_spec (rule_strips_auth : bool) (q : req) (r : resp) : bool :=
  match header_verdict (hvalues (rs_hdrs r) (bytes "cache-control")) with Forbid => true | _ => false end
  || (nonempty (hget (q_hdrs q) (bytes "authorization")) && negb rule_strips_auth)
  || negb (str_eqb (q_method q) (bytes "GET") || str_eqb (q_method q) (bytes "HEAD")).

Definition weak_eq (a b : str) : bool :=
  let strip s := if has_prefix s (bytes "W/") then skipn 2 s else s in
  str_eqb (strip a) (strip b).

Record wst := mkW { w_now : Z; w_script : script; w_store : list (str * sent); w_disk : list sx; w_forbidden : list str;
                    w_unsure : list str (* keys whose entry a cache-forbidding 304 may or may not have ended *) }.

Definition cobs_status (o : sx) : Z := sx_int (sx_nth 1 (sx_nth 0 o)).
Definition cobs_kind (o : sx) : str := sx_str (sx_nth 0 (sx_nth 0 o)).
Definition cobs_hdrs (o : sx) : hdrs := dec_enc_hdrs (sx_nth 2 (sx_nth 0 o)).
Definition cobs_body (o : sx) : str := sx_str (sx_nth 3 (sx_nth 0 o)).
Definition cobs_log (o : sx) : list sx := sx_list (sx_nth 1 o).
Definition cobs_disk (o : sx) : list sx := sx_list (sx_nth 2 o).

Definition is_storable_status (s : Z) : bool := (s =? 200) || ((cacheable_err_lo <=? s) && (s <=? cacheable_err_hi)) || is_redirect s.

(* headers a hit may legitimately differ in from the fill *)
Definition replay_exempt (rule : option rule) (k : str) : bool :=
  let lk := to_lower k in
  existsb (str_eqb lk) [bytes "age"; bytes "richie-edge-cache"; bytes "date"; bytes "content-length"; bytes "transfer-encoding"; bytes "connection"]
  || match rule with
     | Some r => existsb (fun kv => str_eqb (to_lower (fst kv)) lk) (r_resp_hdrs r)
     | None => false
     end.

Definition hdr_multi_or_delims (h : hdrs) : bool :=
  existsb (fun kv => has_any (fst kv) (58%N :: meta_delims)
                     || existsb (fun v => has_any v meta_delims) (snd kv)) h.

(* ---- C18: where a redirect walk must end, read off the scripted origins alone ---- *)
Inductive walk_end := WFinal (r : resp) | WLoop | WUnreachable | WUnclear.

Definition script_first (sc : script) (h : str) : option behaviour :=
  match find (fun p => str_eqb (fst p) h) sc with
  | Some (_, b :: _) => Some b
  | _ => None
  end.

Fixpoint spec_follow (fuel : nat) (sc : script) (u : url) (visited : list str) : walk_end :=
  match fuel with
  | O => WLoop
  | S f =>
    match script_first sc (u_host u) with
    | Some (BResp r) =>
      if is_redirect (rs_status r) then
        let loc := parse_url (hget (rs_hdrs r) (bytes "location")) in
        if nonempty (u_scheme loc) then
          if str_in visited (url_string loc) then WLoop else spec_follow f sc loc (url_string loc :: visited)
        else if has_prefix (u_path loc) [47%N] then
          let nxt := mkUrl (u_scheme u) (u_host u) (u_path loc) (u_query loc) (u_force loc) in
          if str_in visited (url_string nxt) then WLoop else spec_follow f sc nxt (url_string nxt :: visited)
        else WUnclear   (* relative references: the property text does not fix the base *)
      else WFinal r
    | Some BErr => WUnreachable
    | None => WUnreachable
    end
  end.

(* one request of a history judged for property p; returns the verdict and the updated bookkeeping *)
(* the client's validator with the configured suffix removed; None when the suffix is required and missing *)
Definition spec_client_etag (sfx : option str) (inm : str) : option str :=
  match sfx with
  | None => Some inm
  | Some tok =>
    if has_suffix inm (tok ++ [34%N]) then Some (firstn (length inm - length tok - 1) inm ++ [34%N])
    else if has_suffix inm tok then Some (firstn (length inm - length tok) inm)
    else None
  end.

(* is an entry for this request present in a disk snapshot? (located by the entry name) *)
Definition entry_on_disk (rule : option rule) (q : req) (snapshot : list sx) : bool :=
  match rule with
  | Some r =>
    let q1 := set_hdrs q (preprocess_headers (q_hdrs q) (r_req_hdrs r)) in
    let names := map (fs_name sha1_hex) (keys_from_request (q_method q1) (q_host q1) (key_uri r q1) (q_hdrs q1)) in
    existsb (fun f => existsb (str_eqb (sx_str (sx_nth 0 f))) names) snapshot
  | None => false
  end.

Definition judge (p : str) (sfx : option str) (rules : list rule) (expires : list (str * Z)) (w : wst) (q : req) (o : sx) : sx * wst :=
  let rule := match fst (rules_match rules (req_scheme_of q) (drop_port (q_host q)) (q_uri q) (q_method q)) with
              | Some (_, r, _) => Some r | None => None end in
  let force := match rule with Some r => r_force_reval r | None => 0 end in
  let strips_auth := match rule with
                     | Some r => existsb (fun kv => str_eqb (fst kv) (bytes "authorization") && match snd kv with None => true | _ => false end) (r_req_hdrs r)
                     | None => false end in
  let '(sc', bs) := exchanges (w_script w) (cobs_log o) in
  let lr := last_resp bs in
  let key := res_key q in
  let ent := store_get (w_store w) key in
  let now := w_now w in
  let on_disk := entry_on_disk rule q (w_disk w) in
  let from_cache := match cobs_log o with [] => str_eqb (cobs_kind o) (bytes "origin") | _ => false end in
  let plain := negb (nonempty (hget (q_hdrs q) (bytes "range"))) && negb (nonempty (hget (q_hdrs q) (bytes "if-none-match")))
               && negb (nonempty (hget (q_hdrs q) (bytes "if-modified-since"))) && negb (nonempty (hget (q_hdrs q) (bytes "authorization"))) in
  let is_get := str_eqb (q_method q) (bytes "GET") in
  let age := match ent with Some e => now - se_at e | None => 0 end in
  let life := match ent with Some e => spec_lifetime expires force e | None => None end in
  let v08 :=
      if from_cache && negb (cobs_status o =? 304) then
        match ent with
        | None => verdict false "a response was served from the cache although the origin never sent one for this resource"
        | Some e => match life with
                    | Some l => if age <? l then v_ok else verdict false "served from the cache without revalidation although the entry's explicit lifetime had passed"
                    | None => v_ok
                    end
        end
      else match cobs_log o, ent, life with
           | _ :: _, Some e, Some l =>
             (* the origin was asked and failed (error status or no answer), and the client was given the stored
                representation instead: allowed only inside lifetime + the stale allowances that response granted
                (the most generous reading: counted from the end of the lifetime) *)
             let opt0 (x : option Z) := match x with Some v => v | None => 0 end in
             let allow := Z.max (opt0 (directive_int (se_hdrs e) (bytes "stale-if-error"))) (opt0 (directive_int (se_hdrs e) (bytes "stale-while-revalidate"))) in
             let origin_failed := match lr with
                                  | Some r => (400 <=? rs_status r) && negb (str_eqb (rs_body r) (se_body e))
                                  | None => true
                                  end in
             let served_stored := is_get && plain && (cobs_status o =? se_status e) && str_eqb (cobs_body o) (se_body e)
                                  && nonempty (se_body e) && (se_status e =? 200) in
             if origin_failed && served_stored && (l + allow <=? age) && negb (existsb (str_eqb key) (w_unsure w))
             then verdict false "after a failed revalidation the stored response was served although its lifetime and every stale allowance it granted had passed"
             else
             if (age <? l) && on_disk && plain && negb (must_not_cache_spec strips_auth q (mkResp (se_status e) (se_hdrs e) (se_body e)))
                && (se_status e =? 200) && nonempty (se_body e)
             then verdict false "the origin was contacted although the stored entry was still fresh" else v_ok
           | _, _, _ => v_ok
           end in
  let v07 :=
      if from_cache && is_get && plain then
        match ent with
        | Some e =>
          let kf := (if hdr_multi_or_delims (se_hdrs e) then "F6-delimiters" else "")%string in
          if negb (cobs_status o =? se_status e) then verdict false "a hit replays a different status than was stored"
          else if negb (str_eqb (cobs_body o) (se_body e)) then verdict false "a hit replays a different body than was stored"
          else if negb (forallb (fun kv => replay_exempt rule (fst kv)
                                           || ((cacheable_err_lo <=? se_status e) && (se_status e <=? cacheable_err_hi) && str_eqb (to_lower (fst kv)) (bytes "cache-control"))
                                           || (str_eqb (to_lower (fst kv)) (bytes "etag") && strs_eqb (hvalues (cobs_hdrs o) (fst kv)) (map (add_etag_suffix sfx) (firstn 1 (snd kv))))
                                           || strs_eqb (hvalues (cobs_hdrs o) (fst kv)) (snd kv)) (se_hdrs e))
          then verdict_kf false "a hit replays different header values than were stored" kf
          else if negb (forallb (fun kv => replay_exempt rule (fst kv) || hhas (se_hdrs e) (fst kv)
                                           || str_eqb (to_lower (fst kv)) (bytes "content-type")) (cobs_hdrs o))
          then verdict false "a hit carries a header the origin never sent" else v_ok
        | None => v_ok
        end
      else v_ok in
  let v10 :=
      match lr with
      | Some r =>
        if must_not_cache_spec strips_auth q r && nonempty (rs_body r)
           && existsb (fun f => str_eqb (sx_str (sx_nth 2 f)) (rs_body r)) (cobs_disk o)
        then verdict false "a response that must not be cached was written to the cache"
        else v_ok
      | None => v_ok
      end in
  (* a must-not-cache answer may carry a marker header (X-Session): its value must not reach the disk either *)
  let v10c :=
      match lr with
      | Some r =>
        let marks := hvalues (rs_hdrs r) (bytes "X-Session") in
        if must_not_cache_spec strips_auth q r
           && existsb (fun mk => nonempty mk && existsb (fun f => contains (sx_str (sx_nth 1 f)) mk) (cobs_disk o)) marks
        then verdict false "header fields of a response that must not be cached were written to the cache"
        else v_ok
      | None => v_ok
      end in
  let v10d := if from_cache && existsb (fun mk => nonempty mk && existsb (fun kv => existsb (fun v => str_eqb v mk) (snd kv)) (cobs_hdrs o)) (w_forbidden w)
              then verdict false "header fields of a response that must not be cached were served to a later request" else v_ok in
  let v10b := if from_cache && existsb (str_eqb (cobs_body o)) (w_forbidden w) && nonempty (cobs_body o)
              then verdict false "a response that must not be cached was served to a later request" else v_ok in
  let v09 :=
      let inm := hget (q_hdrs q) (bytes "if-none-match") in
      let ims := hget (q_hdrs q) (bytes "if-modified-since") in
      if (cobs_status o =? 304) && str_eqb (cobs_kind o) (bytes "origin") then
        if negb (nonempty inm) && negb (nonempty ims) then verdict false "304 to a client that sent no validator"
        else match lr with
             | Some r => if rs_status r =? 304 then v_ok   (* the origin itself said so *)
                         else verdict false "304 to the client although the origin answered otherwise"
             | None =>
               match ent with
               | Some e => if (nonempty inm && match spec_client_etag sfx inm with
                                                | Some v => weak_eq v (hget (se_hdrs e) (bytes "etag"))
                                                | None => false end)
                              || (negb (nonempty inm) && str_eqb ims (hget (se_hdrs e) (bytes "last-modified")))
                           then v_ok else verdict false "304 although the client's validator does not match the stored representation"
               | None => verdict false "304 from the cache for a resource the origin never sent"
               end
             end
      else
        match lr with
        | Some r =>
          if (rs_status r =? 200) && is_get && plain && str_eqb (cobs_kind o) (bytes "origin") && (cobs_status o =? 200)
             && negb (str_eqb (cobs_body o) (rs_body r)) && negb (sx_bool (sx_nth 4 (sx_nth 0 o)))
          then verdict false "the client did not receive the representation the origin just sent"
          else if (rs_status r =? 304) && is_get && plain && (cobs_status o =? 200) then
            match ent with
            | Some e => if str_eqb (cobs_body o) (se_body e) then v_ok
                        else verdict false "after a 304 the client did not receive the stored representation"
            | None => v_ok
            end
          else v_ok
        | None => v_ok
        end in
  let v09b :=
      match cobs_log o, ent with
      | d :: _, Some e =>
        if on_disk && plain && (se_status e =? 200) then
          let et := hget (se_hdrs e) (bytes "etag") in
          let lm := hget (se_hdrs e) (bytes "last-modified") in
          if nonempty et then
            (if str_eqb (hget (dl_hdrs d) (bytes "if-none-match")) et then v_ok
             else verdict false "revalidation did not send the stored ETag to the origin")
          else if nonempty lm then
            (if str_eqb (hget (dl_hdrs d) (bytes "if-modified-since")) lm then v_ok
             else verdict false "revalidation did not send the stored Last-Modified to the origin")
          else v_ok
        else v_ok
      | _, _ => v_ok
      end in
  (* bookkeeping: what the origin has vouched for, and when *)
  let store' :=
      match lr with
      | Some r =>
        if (rs_status r =? 304) then
          match ent with
          | Some e =>
            (* a 304 whose fields forbid caching (no-store ...): whether the stored representation lives on,
               unmerged, or is dropped is not decided by the property - the key becomes "unsure" below *)
            if must_not_cache_spec strips_auth q (mkResp (se_status e) (merge_revalidated (se_hdrs e) (rs_hdrs r)) (se_body e))
            then w_store w
            else store_put (w_store w) key
                           (mkSent (se_status e) (merge_revalidated (se_hdrs e) (rs_hdrs r)) (se_body e) now)
          | None => w_store w
          end
        else if (400 <=? rs_status r) && match ent with Some _ => true | None => false end
                && str_eqb (hget (cobs_hdrs o) (bytes "Richie-Edge-Cache")) (bytes "stale")
        then w_store w   (* stale-if-error: the error answer was not stored, the stale representation stays *)
        else if is_storable_status (rs_status r) && negb (must_not_cache_spec strips_auth q r)
        then store_put (w_store w) key (mkSent (rs_status r) (rs_hdrs r) (rs_body r) now)
        else w_store w
      | None => w_store w
      end in
  let unsure' :=
      match lr with
      | Some r =>
        if (rs_status r =? 304) then
          match ent with
          | Some e => if must_not_cache_spec strips_auth q (mkResp (se_status e) (merge_revalidated (se_hdrs e) (rs_hdrs r)) (se_body e))
                      then key :: w_unsure w else w_unsure w
          | None => w_unsure w
          end
        else if is_storable_status (rs_status r) && negb (must_not_cache_spec strips_auth q r)
        then filter (fun k => negb (str_eqb k key)) (w_unsure w)
        else w_unsure w
      | None => w_unsure w
      end in
  let sure := negb (existsb (str_eqb key) (w_unsure w)) in
  (* a body is forbidden in the cache from the moment a must-not-cache exchange produced it until
     a cacheable exchange produces the same bytes legitimately *)
  let forbidden' := match lr with
                    | Some r => if nonempty (rs_body r) then
                                  if must_not_cache_spec strips_auth q r then rs_body r :: hvalues (rs_hdrs r) (bytes "X-Session") ++ w_forbidden w
                                  else filter (fun b => negb (str_eqb b (rs_body r))) (w_forbidden w)
                                else if must_not_cache_spec strips_auth q r then hvalues (rs_hdrs r) (bytes "X-Session") ++ w_forbidden w
                                else w_forbidden w
                    | None => w_forbidden w
                    end in
  let v05 :=
      let kind := cobs_kind o in
      let st := cobs_status o in
      let aborted := sx_bool (sx_nth 4 (sx_nth 0 o)) in
      if str_eqb kind (bytes "recovered") then verdict false "an empty 200: a panic in the handler was swallowed"
      else if str_eqb kind (bytes "bare") || str_eqb kind (bytes "error-json") then
        if st <? 400 then verdict false "rrrouter's own answer is not an error status"
        else match lr with
             | Some r => if plain && negb (st =? 407) then verdict false "rrrouter answered by itself although the origin had responded" else v_ok
             | None => v_ok
             end
      else if str_eqb kind (bytes "origin") then
        match lr, cobs_log o with
        | Some r, _ :: _ =>
          if negb plain then v_ok else
          let declared := parse_int (hget (rs_hdrs r) (bytes "content-length")) in
          let origin_lies := match declared with Some n => negb (n =? Z.of_nat (length (rs_body r))) | None => false end in
          let bodyless := str_eqb (q_method q) (bytes "HEAD") || (rs_status r =? 204) || (rs_status r =? 304) in
          (* a 304 to rrrouter's own conditional request (the client sent no validator): the stored response is
             what the client must get, whole *)
          if (rs_status r =? 304) then
            match ent with
            | Some e =>
              if existsb (str_eqb key) (w_unsure w) then v_ok
              else if negb (st =? se_status e) then verdict false "after the origin confirmed the stored response (304) the client did not receive its status"
              else if aborted then verdict false "the response was cut short of its declared length"
              else if negb (str_eqb (q_method q) (bytes "HEAD")) && negb (str_eqb (cobs_body o) (se_body e))
              then verdict false "after the origin confirmed the stored response (304) the client did not receive its full body"
              else v_ok
            | None => v_ok
            end
          else
          if negb (st =? rs_status r) then verdict false "the client did not receive the origin's status"
          else if aborted && negb origin_lies then verdict false "the response was cut short of its declared length"
          else if negb bodyless && negb origin_lies && negb (str_eqb (cobs_body o) (rs_body r)) then verdict false "the client did not receive the origin's full body"
          else if negb (forallb (fun kv => replay_exempt rule (fst kv)
                                           || (str_eqb (to_lower (fst kv)) (bytes "etag") && strs_eqb (hvalues (cobs_hdrs o) (fst kv)) (map (add_etag_suffix sfx) (firstn 1 (snd kv))))
                                           || strs_eqb (hvalues (cobs_hdrs o) (fst kv)) (map (fun v => trim v [32%N; 9%N]) (snd kv))) (rs_hdrs r))
          then verdict false "an origin header was changed or lost"
          else if negb (forallb (fun kv => replay_exempt rule (fst kv) || hhas (rs_hdrs r) (fst kv) || str_eqb (to_lower (fst kv)) (bytes "content-type")) (cobs_hdrs o))
          then verdict false "the response carries a header neither the origin sent nor rrrouter documents"
          else v_ok
        | _, _ =>
          (* answered without the origin (a hit, possibly with a Range header): still one whole response *)
          if aborted then verdict false "a response served without the origin was cut short of its declared length" else v_ok
        end
      else v_ok in
  let v15 :=
      let rng := hget (q_hdrs q) (bytes "range") in
      let cached_rule := match rule with Some r => nonempty (r_cache r) | None => false end in
      if nonempty rng && cached_rule && is_get && str_eqb (cobs_kind o) (bytes "origin") then
        let filled_by := match lr with
                         | Some r => if rs_status r =? 200 then Some (rs_body r, nonempty (hget (rs_hdrs r) (bytes "content-length"))) else None
                         | None => match ent with
                                   | Some e => if se_status e =? 200 then Some (se_body e, nonempty (hget (se_hdrs e) (bytes "content-length"))) else None
                                   | None => None
                                   end
                         end in
        match filled_by with
        | None => v_ok
        | Some (res, has_cl) =>
          let n := Z.of_nat (length res) in
          let spec_r := spec_parse_range rng in
          let is_empty := n =? 0 in
          let kf := kf_C15 spec_r n in
          if existsb (fun d => hhas (dl_hdrs d) (bytes "range")) (cobs_log o)
          then verdict false "the origin was asked for a range instead of the whole resource"
          else if sx_bool (sx_nth 4 (sx_nth 0 o)) then verdict_kf false "the response to a Range request was cut short of its declared length" kf
          else
            let a := mkAnswer (cobs_status o) (parse_int (sx_str (sx_nth 5 (sx_nth 0 o))))
                              (parse_cr_value (hget (cobs_hdrs o) (bytes "content-range"))) (cobs_body o) in
            match spec_r with
            | Some r => if answer_ok r res a then v_ok
                        else verdict_kf false "answer to a single byte range is neither the exact 206, nor the complete 200, nor a justified 416" kf
            | None =>
              if (cobs_status o =? 200) && str_eqb (cobs_body o) res then v_ok
              else if cobs_status o =? 206 then
                match an_cr a, an_cl a with
                | Some (f, l, n'), Some cl =>
                  if (0 <=? f) && (f <=? l) && (l <? n) && (n' =? n) && (cl =? l - f + 1) && str_eqb (cobs_body o) (slice res f l) then v_ok
                  else verdict_kf false "206 for a malformed Range is not self-consistent" kf
                | _, _ => verdict_kf false "206 without Content-Range/Content-Length" kf
                end
              else if cobs_status o =? 416 then v_ok
              else verdict_kf false "malformed Range answered with neither the complete 200, a consistent 206 nor 416" kf
            end
        end
      else if nonempty rng && cached_rule && is_get && negb (str_eqb (cobs_kind o) (bytes "origin")) && negb (cobs_status o =? 416)
              && negb ((400 <=? cobs_status o) && match lr with Some r => negb (rs_status r =? 200) | None => true end)
      then verdict_kf false "a Range request on a cached resource was answered with a bare error"
                      ""%string
      else v_ok in
  let v18 :=
      match fst (rules_match rules (req_scheme_of q) (drop_port (q_host q)) (q_uri q) (q_method q)) with
      | Some (_, r, t) =>
        if negb (r_restart r) || negb is_get then v_ok else
        let start := parse_url (out_url t (q_query q)) in
        let kind := cobs_kind o in
        if str_eqb kind (bytes "no-response") || str_eqb kind (bytes "recovered")
        then verdict false "a redirect walk did not end in a response"
        else if Nat.ltb 12 (length (cobs_log o)) then verdict false "more than a bounded number of hops were followed"
        else
          match spec_follow 14 (w_script w) start [url_string start] with
          | WFinal fr =>
            if str_eqb kind (bytes "origin") && (cobs_status o =? rs_status fr) && str_eqb (cobs_body o) (rs_body fr) then v_ok
            else verdict false "the client did not receive the final non-redirect response of the chain"
          | WLoop => if (400 <=? cobs_status o) && negb (str_eqb kind (bytes "origin")) then v_ok
                     else verdict false "a redirect loop did not end in an error response"
          | WUnreachable => if 400 <=? cobs_status o then v_ok else verdict false "an unreachable hop did not end in an error response"
          | WUnclear => v_ok
          end
      | None => v_ok
      end in
  (* C11 end to end: the answer must have been generated for this request's own destination.
     (Scripts are static in these histories, so the destination's current answer is the reference.) *)
  let v11 :=
      match fst (rules_match rules (req_scheme_of q) (drop_port (q_host q)) (q_uri q) (q_method q)) with
      | Some (_, r, t) =>
        if negb is_get || negb plain || negb (nonempty (r_cache r)) then v_ok else
        let start := parse_url (out_url t (q_query q)) in
        let expected := if r_restart r then spec_follow 14 (w_script w) start [url_string start]
                        else match script_first (w_script w) (u_host start) with
                             | Some (BResp fr) => WFinal fr
                             | _ => WUnclear
                             end in
        let cached_hosts := map (fun r' => url_host (r_dest r')) (filter (fun r' => nonempty (r_cache r')) rules) in
        let kf := ""%string in   (* F11 is repaired (fix: 15c2c84): nothing is excused *)
        match expected with
        | WFinal fr =>
          (* an origin that names the requested URL in its answer: the URL this request maps to, query included *)
          let varies := existsb (fun v => contains (to_lower v) (bytes "origin")) (hvalues (rs_hdrs fr) (bytes "Vary")) in
          let fr_body := if str_eqb (rs_body fr) s_echo_url then echo_body (out_url t (q_query q))
                         else if str_eqb (rs_body fr) s_echo_origin then
                           (* a resource that varies by Origin and says so: each Origin its own; one that does not say so
                              may be shared - whatever was served is accepted *)
                           (if varies then echo_origin_body (hget (q_hdrs q) (bytes "Origin")) else cobs_body o)
                         else rs_body fr in
          if str_eqb (cobs_kind o) (bytes "origin") && (cobs_status o =? 200) && (rs_status fr =? 200)
             && negb (str_eqb (cobs_body o) fr_body)
          then verdict_kf false "the client received a response that was generated for a different resource" kf
          else v_ok
        | _ => v_ok
        end
      | None => v_ok
      end in
  (* C01 over a sequence of requests on one server: each is routed on its own merits *)
  let v01 :=
      let choice := proxy_choice rules (cobs_log o) in
      if str_eqb (cobs_kind o) (bytes "recovered") || str_eqb (cobs_kind o) (bytes "bare") then v_ok
      else if negb (choice_ok rules (req_scheme_of q) (q_host q) (q_uri q) (q_method q) choice)
      then verdict false "the request was not served by the first matching enabled rule"
      else match choice with
           | None => if (cobs_status o =? 404) || (cobs_status o =? 407) then v_ok
                     else verdict false "no proxy rule served the request but the answer is not 404"
           | Some _ => if (cobs_status o =? 404) && str_eqb (cobs_kind o) (bytes "error-json")
                       then verdict false "a proxy rule was contacted but the client got rrrouter's 404" else v_ok
           end in
  let v_done := if str_eqb (cobs_kind o) (bytes "no-response")
                then verdict false "the request never completed (unbounded internal recursion against the origin)" else v_ok in
  let v := if str_eqb p (bytes "C08") then first_fail [v_done; if sure then v08 else v_ok]
           else if str_eqb p (bytes "C07") then v07
           else if str_eqb p (bytes "C10") then first_fail [v10; v10b; v10c; v10d]
           else if str_eqb p (bytes "C09") then first_fail [v09; if sure then v09b else v_ok]
           else if str_eqb p (bytes "C05") then first_fail [v_done; v05]
           else if str_eqb p (bytes "C15") then v15
           else if str_eqb p (bytes "C18") then v18
           else if str_eqb p (bytes "C01") then v01
           else if str_eqb p (bytes "C02") then c02_check rules q (cobs_log o)
           else if str_eqb p (bytes "C03") then c03_check rules q (cobs_log o)
           else if str_eqb p (bytes "C11") then v11
           else v_ok in
  (v, mkW now sc' store' (cobs_disk o) forbidden' unsure').

Fixpoint walk (p : str) (sfx : option str) (rules : list rule) (expires : list (str * Z)) (w : wst) (ops : list sx) (obs : list sx) (i : nat) : sx :=
  match ops with
  | [] => v_ok
  | op :: rest =>
    let kind := sx_str (sx_nth 0 op) in
    if str_eqb kind (bytes "req") then
      match obs with
      | o :: obs' =>
        let '(v, w') := judge p sfx rules expires w (dec_req (sx_nth 1 op)) o in
        if sx_bool (sx_nth 0 v) then walk p sfx rules expires w' rest obs' (S i) else at_request v i
      | [] => v_ok
      end
    else if str_eqb kind (bytes "adv") then
      walk p sfx rules expires (mkW (w_now w + sx_int (sx_nth 1 op)) (w_script w) (w_store w) (w_disk w) (w_forbidden w) (w_unsure w)) rest obs i
    else if str_eqb kind (bytes "script") then
      walk p sfx rules expires (mkW (w_now w) (replace_script (w_script w) (dec_script (sx_nth 1 op))) (w_store w) (w_disk w) (w_forbidden w) (w_unsure w)) rest obs i
    else walk p sfx rules expires w rest obs i
  end.

Definition mon_hist (p : str) (x o : sx) : sx :=
  let c := dec_mcfg x in
  walk p (mc_suffix c) (mc_rules c) (mc_expires c) (mkW (sx_int (sx_nth 5 x)) [] [] [] [] []) (sx_list (sx_nth 6 x)) (sx_list o) 0.
