(* The size limiter of caching/disk.go: the bookkeeping of runSizeLimiter (op switch, purge
   bookkeeping), purgeableItemNames, readFiles, readStorableAccessTimes and the atimes log.
   Sizes are accounted in whole KiB in uint32 fields, as the code has them. Definitions only. *)
From Coq Require Import String.
From Coq Require Import List NArith ZArith Bool.
From Verif Require Import GoStr GoNum GoHeader Tables.
Import ListNotations.
Open Scope Z_scope.

Definition u32 (z : Z) : Z := z mod 4294967296.
Definition kib_of (bytes : Z) : Z := u32 (bytes / 1024).
Definition item_bytes (kib : Z) : Z := u32 (kib * 1024).      (* int64(sizeKilobytes * 1024), the product in uint32 *)

Record lim := mkLim {
  l_size : Z;                           (* sizeBytes: the estimate *)
  l_with : list (str * (Z * Z));        (* withAccessTime: name -> (access time, KiB) *)
  l_without : list (str * Z);           (* withoutAccessTime: name -> KiB *)
  l_storable : list (str * (Z * Z));    (* storableAccessedItems: name -> (unix time, KiB) *)
  l_log : list (str * Z * Z);           (* the atimes file: lines name|time|KiB, oldest first *)
  l_max : Z
}.

Fixpoint aput {V} (m : list (str * V)) (k : str) (v : V) : list (str * V) :=
  match m with
  | [] => [(k, v)]
  | (k', v') :: m' => if str_eqb k' k then (k, v) :: m' else (k', v') :: aput m' k v
  end.
Fixpoint aget {V} (m : list (str * V)) (k : str) : option V :=
  match m with
  | [] => None
  | (k', v') :: m' => if str_eqb k' k then Some v' else aget m' k
  end.
Definition adel {V} (m : list (str * V)) (k : str) : list (str * V) :=
  filter (fun p => negb (str_eqb (fst p) k)) m.

Inductive lop :=
| LAdd (n : str) (bytes t : Z)        (* a fill completed at time t *)
| LAccess (n : str) (bytes t : Z)     (* a hit at time t *)
| LFlush
| LTick.

(* purgeableItemNames; the order of the items without access time is Go's map order, taken here
   as the order of the association list; among equal access times the sort is not stable *)
Fixpoint take_until_bytes {K} (items : list (K * Z)) (found want : Z) : list K * Z :=
  match items with
  | [] => ([], found)
  | (k, kib) :: rest =>
    let found' := found + item_bytes kib in
    if want <=? found' then ([k], found')
    else let '(ks, f) := take_until_bytes rest found' want in (k :: ks, f)
  end.

Fixpoint insert_by_time (x : str * (Z * Z)) (l : list (str * (Z * Z))) : list (str * (Z * Z)) :=
  match l with
  | [] => [x]
  | y :: l' => if fst (snd x) <? fst (snd y) then x :: l
               else if (fst (snd x) =? fst (snd y)) && str_leb (fst x) (fst y) then x :: l
               else y :: insert_by_time x l'
  end.
Definition sort_by_time (l : list (str * (Z * Z))) : list (str * (Z * Z)) := fold_right insert_by_time [] l.

Definition purgeable (l : lim) (excess : Z) : list str * list str :=
  let want := if max_purge_bytes <? excess then max_purge_bytes else excess in
  let '(wo, found) := take_until_bytes (l_without l) 0 want in
  if want <=? found then (wo, [])
  else
    let '(wi, _) := take_until_bytes (map (fun p => (fst p, snd (snd p))) (sort_by_time (l_with l))) found want in
    (map fst (l_without l), wi).

(* the bookkeeping after the files were removed *)
Definition removed (l : lim) (wo wi : list str) : lim :=
  let l1 := fold_left (fun l n =>
              let kib := match aget (l_with l) n with Some (_, k) => k | None => 0 end in
              mkLim (l_size l - item_bytes kib) (adel (l_with l) n) (l_without l) (l_storable l) (l_log l) (l_max l)) wi l in
  fold_left (fun l n =>
              let kib := match aget (l_without l) n with Some k => k | None => 0 end in
              mkLim (l_size l - item_bytes kib) (l_with l) (adel (l_without l) n) (l_storable l) (l_log l) (l_max l)) wo l1.

Definition tick (l : lim) : lim * list str :=
  if l_max l <? l_size l then
    let '(wo, wi) := purgeable l (l_size l - l_max l) in
    (removed l wo wi, wo ++ wi)
  else (l, []).

Definition lstep (l : lim) (o : lop) : lim * list str :=
  match o with
  | LAdd n bytes t =>
    let kib := kib_of bytes in
    (mkLim (l_size l + item_bytes kib) (aput (l_with l) n (u32 t, kib)) (l_without l) (aput (l_storable l) n (t, kib)) (l_log l) (l_max l), [])
  | LAccess n bytes t =>
    let kib := kib_of bytes in
    (mkLim (l_size l) (aput (l_with l) n (u32 t, kib)) (adel (l_without l) n) (aput (l_storable l) n (t, kib)) (l_log l) (l_max l), [])
  | LFlush =>
    (mkLim (l_size l) (l_with l) (l_without l) [] (l_log l ++ map (fun p => (fst p, fst (snd p), snd (snd p))) (l_storable l)) (l_max l), [])
  | LTick => tick l
  end.

(* a restart: readFiles (every entry file, exact total; the atimes log is skipped) then
   readStorableAccessTimes, of which only the names found on disk are taken over, at the size found *)
Definition restart (log : list (str * Z * Z)) (files : list (str * Z)) (max : Z) : lim :=
  let without := map (fun f => (fst f, kib_of (snd f))) files in
  let total := fold_left (fun acc f => acc + snd f) files 0 in
  let logged := fold_left (fun m ln => match ln with (n, t, kib) => aput m n (u32 t, u32 kib) end) log [] in
  let with_at := flat_map (fun p => match aget without (fst p) with
                                    | Some kib => [(fst p, (fst (snd p), kib))]
                                    | None => []
                                    end) logged in
  mkLim total with_at (fold_left (fun m p => adel m (fst p)) with_at without) [] log max.

Definition lim_init (max : Z) : lim := mkLim 0 [] [] [] [] max.

(* ---- histories: the limiter together with the files in its directory ---- *)
Inductive hop :=
| HAdd (n : str) (bytes t : Z)     (* a fill of n; refused by GetWriter when the entry is on disk *)
| HAccess (n : str) (t : Z)        (* a hit on n, if it is on disk; its size is the file's *)
| HFlush
| HTick
| HRestart
| HExtDel (n : str)                (* the file disappears behind the limiter's back *)
| HReplace (n : str) (bytes : Z).  (* a revalidation stores a new body: the limiter is not told *)

Definition hstate := (lim * list (str * Z))%type.

Definition hstep (s : hstate) (o : hop) : hstate * list str :=
  let '(l, files) := s in
  match o with
  | HAdd n sz t =>
    match aget files n with
    | Some _ => (s, [])
    | None => ((fst (lstep l (LAdd n sz t)), aput files n sz), [])
    end
  | HAccess n t =>
    match aget files n with
    | None => (s, [])
    | Some sz => ((fst (lstep l (LAccess n sz t)), files), [])
    end
  | HFlush => ((fst (lstep l LFlush), files), [])
  | HTick =>
    let '(l', purged) := lstep l LTick in
    ((l', fold_left (fun f n => adel f n) purged files), purged)
  | HRestart => ((restart (l_log l) files (l_max l), files), [])
  | HExtDel n => ((l, adel files n), [])
  | HReplace n sz =>
    match aget files n with
    | None => (s, [])
    | Some _ => ((l, aput files n sz), [])
    end
  end.

Definition hinit (files : list (str * Z)) (max : Z) : hstate := (restart [] files max, files).
