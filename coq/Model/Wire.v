(* Glue between the harness's tree language and the model types: decoders,
   encoders and the projections applied to both sides before comparison. *)
From Coq Require Import String.
From Coq Require Import List NArith ZArith Bool.
From Verif Require Import GoStr GoNum GoHeader Sx Sha1 Tables Route Forward Serve Meta Fresh Key Cache.
Import ListNotations.
Open Scope N_scope.

Definition s_original : str := bytes "original"%string.
Definition s_destination : str := bytes "destination"%string.

Definition dec_hostmode (s : str) : hostmode :=
  match s with
  | [] => HDefault
  | _ => if str_eqb s s_original then HOriginal
         else if str_eqb s s_destination then HDestination
         else HOverride s
  end.

Definition dec_pair_opt (x : sx) : str * option str :=
  (sx_str (sx_nth 0 x), sx_opt_str (sx_nth 1 x)).
Definition dec_pair (x : sx) : str * str := (sx_str (sx_nth 0 x), sx_str (sx_nth 1 x)).

Fixpoint dec_rule (fuel : nat) (x : sx) : rule :=
  let f n := sx_nth n x in
  mkRule (sx_bool (f 0%nat)) (sx_str (f 1%nat)) (sx_str (f 2%nat)) (sx_str (f 3%nat)) (sx_str (f 4%nat))
         (sx_bool (f 5%nat)) (to_strs (f 6%nat))
         (if Z.eqb (sx_int (f 7%nat)) 2 then RCopy else RProxy)
         (dec_hostmode (sx_str (f 8%nat))) (sx_bool (f 9%nat)) (sx_str (f 10%nat)) (sx_int (f 11%nat))
         (* NewRules: request header names are trimmed and lower-cased, response header names and values trimmed *)
         (map (fun x => let p := dec_pair_opt x in (to_lower (trim_space (fst p)), snd p)) (sx_list (f 12%nat)))
         (map (fun x => let p := dec_pair x in (trim_space (fst p), trim_space (snd p))) (sx_list (f 13%nat)))
         (sx_bool (f 14%nat))
         (match fuel, f 15%nat with
          | S fuel', L [r] => Some (dec_rule fuel' r)
          | _, _ => None
          end).

(* raw wire headers (name, value) in order -> http.Header *)
Definition hdrs_of_pairs (l : list (str * str)) : hdrs :=
  fold_left (fun h kv => hadd h (fst kv) (snd kv)) l [].

Definition dec_hdrs (x : sx) : hdrs := hdrs_of_pairs (map dec_pair (sx_list x)).

Definition dec_req (x : sx) : req :=
  let f n := sx_nth n x in
  mkReq (sx_str (f 0%nat)) (sx_str (f 1%nat)) (sx_bool (f 2%nat)) (sx_str (f 3%nat)) (sx_str (f 4%nat))
        (sx_str (f 5%nat)) (dec_hdrs (f 6%nat)) (sx_str (f 7%nat)) (sx_str (f 8%nat)) (sx_str (f 9%nat))
        (to_strs (f 11%nat)).

Definition dec_behaviour (x : sx) : behaviour :=
  match x with
  | L [] => BErr
  | _ => BResp (mkResp (sx_int (sx_nth 0 x)) (dec_hdrs (sx_nth 1 x)) (sx_str (sx_nth 2 x)))
  end.

Definition dec_script (x : sx) : script :=
  map (fun e => (sx_str (sx_nth 0 e), map dec_behaviour (sx_list (sx_nth 1 e)))) (sx_list x).

Definition dec_cfg (x : sx) : cfg :=
  mkCfg (match sx_nth 0 x with L [l] => Some (to_strs l) | _ => None end)
        (Z.to_nat (sx_int (sx_nth 1 x))).

Definition enc_hdrs (h : hdrs) : sx :=
  L (map (fun kv => L [A (fst kv); of_strs (snd kv)]) (sort_hdrs h)).

Definition enc_kind (k : ckind) : sx :=
  A (match k with
     | KOrigin => bytes "origin"%string
     | KErrorJson => bytes "error-json"%string
     | KBare => bytes "bare"%string
     | KRecovered => bytes "recovered"%string
     | KCrash => bytes "crash"%string
     | KUnmodelled => bytes "unmodelled"%string
     end).

(* headers the client side of the comparison ignores: added or rewritten by Go's
   net/http server, not by rrrouter *)
Definition client_ignored : list str :=
  map bytes ["Date"; "Content-Length"; "Transfer-Encoding"; "Connection"]%string.
(* framing headers of a forwarded request are Go's business, not rrrouter's *)
Definition dlv_ignored : list str :=
  map bytes ["Content-Length"; "Transfer-Encoding"]%string.

Definition drop_keys (h : hdrs) (ks : list str) : hdrs :=
  filter (fun kv => negb (str_in ks (fst kv))) h.

Definition enc_client (c : client) : sx :=
  match cl_kind c with
  | KOrigin => L [enc_kind KOrigin; I (cl_status c); enc_hdrs (drop_keys (cl_hdrs c) client_ignored); A (cl_body c); of_bool (cl_aborted c);
                  A (if Z.eqb (cl_status c) 206 then hget (cl_hdrs c) (bytes "Content-Length"%string) else [])]
  | k => L [enc_kind k; I (cl_status c); L []; A []; of_bool false; A []]
  end.

Definition enc_dlv (d : dlv) : sx :=
  L [A (d_url d); A (d_host d); A (d_method d); enc_hdrs (drop_keys (d_hdrs d) dlv_ignored); A (d_body d)].

Definition enc_serve (o : serve_out) : sx :=
  L [enc_client (so_client o); L (map enc_dlv (so_log o))].

(* a HEAD response carries no body on the wire (Go's server drops it) *)
Definition s_HEAD : str := bytes "HEAD"%string.
Definition blank_head_body (m : str) (c : client) : client :=
  if str_eqb m s_HEAD then mkClient (cl_kind c) (cl_status c) (cl_hdrs c) [] (cl_aborted c) else c.

(* ---- the "route" family ---- *)
(* case = L [A "route"; cfg; L rules; req; script] *)
Definition route_case (x : sx) :=
  (dec_cfg (sx_nth 1 x), map (dec_rule 4) (sx_list (sx_nth 2 x)), dec_req (sx_nth 3 x), dec_script (sx_nth 4 x)).

Definition run_route (x : sx) : sx :=
  let '(c, rs, q, sc) := route_case x in
  let o := serve_nocache 6 c rs q sc in
  enc_serve (mkServeOut (blank_head_body (q_method q) (so_client o)) (so_log o)).

(* raw implementation observation -> the same projection.
   raw = L [ L [A kind; I status; L [L [A k; L vs]...]; A body];  L [ L [A url; A host; A method; hdrs; A body] ...] ] *)
Definition dec_enc_hdrs (x : sx) : hdrs :=
  map (fun e => (sx_str (sx_nth 0 e), to_strs (sx_nth 1 e))) (sx_list x).

Definition proj_client (x : sx) : sx :=
  let kind := sx_str (sx_nth 0 x) in
  if str_eqb kind (bytes "origin"%string) then
    L [A kind; sx_nth 1 x; enc_hdrs (drop_keys (dec_enc_hdrs (sx_nth 2 x)) client_ignored); sx_nth 3 x; of_bool (sx_bool (sx_nth 4 x));
       (* the declared length of a partial response is rrrouter's own doing: keep it *)
       A (if Z.eqb (sx_int (sx_nth 1 x)) 206 then hget (dec_enc_hdrs (sx_nth 2 x)) (bytes "Content-Length"%string) else [])]
  else L [A kind; sx_nth 1 x; L []; A []; of_bool false; A []].

Definition proj_dlv (x : sx) : sx :=
  L [sx_nth 0 x; sx_nth 1 x; sx_nth 2 x; enc_hdrs (drop_keys (dec_enc_hdrs (sx_nth 3 x)) dlv_ignored); sx_nth 4 x].

Definition proj_route (x : sx) : sx :=
  L [proj_client (sx_nth 0 x); L (map proj_dlv (sx_list (sx_nth 1 x)))].

(* ---- the "copy" family: one request run without the copy rules and under several copy-side scripts ---- *)
(* case = L [A "copy"; cfg; L rules; req; script; L [script...]] ; observation = L [obs...] *)
Definition run_route_with (c : cfg) (rs : list rule) (q : req) (sc : script) : sx :=
  let o := serve_nocache 6 c rs q sc in
  enc_serve (mkServeOut (blank_head_body (q_method q) (so_client o)) (so_log o)).

Definition run_copy (x : sx) : sx :=
  let '(c, rs, q, sc) := route_case x in
  let variants := map dec_script (sx_list (sx_nth 5 x)) in
  L (run_route_with c (filter is_proxy rs) q sc
     :: map (fun v => run_route_with c rs q (v ++ sc)) variants).

Definition proj_copy (x : sx) : sx := L (map proj_route (sx_list x)).

(* ---- the "cache" family: a history of requests, clock advances and origin changes against
   one server with an on-disk cache ---- *)
(* case = L [A "cache"; cfg; L rules; L caches; optsuffix; I base; L ops; L expires] *)
Definition dec_mcfg (x : sx) : mcfg :=
  mkMcfg (dec_cfg (sx_nth 1 x)) (map (dec_rule 4) (sx_list (sx_nth 2 x))) (to_strs (sx_nth 3 x))
         (sx_opt_str (sx_nth 4 x))
         (map (fun e => (sx_str (sx_nth 0 e), sx_int (sx_nth 1 e))) (sx_list (sx_nth 7 x)))
         sha1_hex.

Definition enc_disk (d : disk) : sx :=
  L (map (fun p => L [A (fst p); A (ce_meta (snd p)); A (ce_body (snd p))])
         (sort_hdrs (map (fun p => (fst p, snd p)) d))).

Definition replace_script (sc : script) (upd : script) : script :=
  upd ++ filter (fun p => negb (existsb (fun u => str_eqb (fst u) (fst p)) upd)) sc.

Fixpoint run_ops (c : mcfg) (st : mstate) (ops : list sx) : list sx :=
  match ops with
  | [] => []
  | op :: rest =>
    let kind := sx_str (sx_nth 0 op) in
    if str_eqb kind (bytes "req"%string) then
      let q := dec_req (sx_nth 1 op) in
      let o := caching_func 16 c st q None [] None false [q_host q ++ q_uri q] [] in
      L [enc_client (blank_head_body (q_method q) (cf_client o)); L (map enc_dlv (cf_log o)); enc_disk (ms_disk (cf_state o))]
        :: run_ops c (cf_state o) rest
    else if str_eqb kind (bytes "adv"%string) then
      run_ops c (mkState (ms_disk st) (ms_script st) (ms_now st + sx_int (sx_nth 1 op))%Z) rest
    else if str_eqb kind (bytes "script"%string) then
      run_ops c (mkState (ms_disk st) (replace_script (ms_script st) (dec_script (sx_nth 1 op))) (ms_now st)) rest
    else run_ops c st rest
  end.

Definition run_cache (x : sx) : sx :=
  L (run_ops (dec_mcfg x) (mkState [] [] (sx_int (sx_nth 5 x))) (sx_list (sx_nth 6 x))).

Definition proj_cache (x : sx) : sx :=
  L (map (fun o => L [proj_client (sx_nth 0 o); L (map proj_dlv (sx_list (sx_nth 1 o))); sx_nth 2 o]) (sx_list x)).
