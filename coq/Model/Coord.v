(* C12/C13: concurrent requests for one cacheable resource, at the grain of the harness's
   schedules: a request arrives, the origin answers a fetch (a new version, 304, an error status,
   a failed connection, a body cut short), the clock advances, a slow client goes on reading.
   Between two actions the server runs to quiescence. Definitions only.

   The lock on the key is held from the moment a request becomes the writer until its fetch is
   answered (the storage writer's release on Close/Delete, or the handler's cache.Finish); every
   later release by that request is without effect (lock owners). *)
From Coq Require Import String.
From Coq Require Import List NArith ZArith Bool.
From Verif Require Import GoStr GoNum GoHeader Sx Tables.
Import ListNotations.
Open Scope Z_scope.

Inductive answer := ANew | A304 | A500 | AFail | ACut.

Inductive caction :=
| CArrive (i : nat)
| CAnswer (k : nat) (a : answer)
| CResume (i : nat)
| CAdv (dt : Z)
| CLeave (i : nat).     (* client i goes away (closes its connection) *)

(* what a client ends with: status, version served (0: none), whole body, cache status *)
Inductive cstatus := KMiss | KHit | KRevalidated | KStale | KPass | KNone.
Record outcome := mkOut { o_status : Z; o_ver : Z; o_whole : bool; o_cache : cstatus }.

Record cstate := mkCo {
  co_entry : option (Z * Z);          (* version on disk, time it was stored or last revalidated *)
  co_now : Z;
  co_active : option (nat * nat * bool * Z);   (* the fetch in flight: ordinal, owner, conditional, time it started *)
  co_waiters : list nat;               (* requests waiting for the key, in order of arrival *)
  co_nfetch : nat;                     (* fetches started so far *)
  co_version : Z;                      (* versions the origin has produced *)
  co_done : list (nat * outcome);
  co_maxin : nat                       (* most fetches ever in flight at once *)
}.

Definition co_init : cstate := mkCo None 0 None [] 0 0 [] 0.

Definition fresh (maxage : Z) (s : cstate) : bool :=
  match co_entry s with Some (_, t) => co_now s - t <? maxage | None => false end.

Definition finish (s : cstate) (i : nat) (o : outcome) : cstate :=
  mkCo (co_entry s) (co_now s) (co_active s) (co_waiters s) (co_nfetch s) (co_version s) (co_done s ++ [(i, o)]) (co_maxin s).

(* the request looks the resource up: served from the cache, or it takes the key and starts a
   fetch, or it waits for the holder *)
Definition lookup (maxage : Z) (swr : bool) (s : cstate) (i : nat) : cstate :=
  match co_entry s with
  | Some (v, _) =>
    if fresh maxage s then finish s i (mkOut 200 v true KHit)
    else match co_active s with
         | None => mkCo (co_entry s) (co_now s) (Some (co_nfetch s, i, true, co_now s)) (co_waiters s) (S (co_nfetch s)) (co_version s) (co_done s) (Nat.max (co_maxin s) 1)
         | Some _ => if swr then finish s i (mkOut 200 v true KStale)
                     else mkCo (co_entry s) (co_now s) (co_active s) (co_waiters s ++ [i]) (co_nfetch s) (co_version s) (co_done s) (co_maxin s)
         end
  | None =>
    match co_active s with
    | None => mkCo None (co_now s) (Some (co_nfetch s, i, false, co_now s)) (co_waiters s) (S (co_nfetch s)) (co_version s) (co_done s) (Nat.max (co_maxin s) 1)
    | Some _ => mkCo None (co_now s) (co_active s) (co_waiters s ++ [i]) (co_nfetch s) (co_version s) (co_done s) (co_maxin s)
    end
  end.

(* the key is released: the waiters look again, in turn *)
Definition wake (maxage : Z) (swr : bool) (s : cstate) : cstate :=
  let ws := co_waiters s in
  fold_left (lookup maxage swr)
            ws (mkCo (co_entry s) (co_now s) (co_active s) [] (co_nfetch s) (co_version s) (co_done s) (co_maxin s)).

(* the outcome recorded for a client that went away before it was answered: not compared (nobody is there to see it) *)
Definition gone : outcome := mkOut (-1) 0 true KNone.
Definition is_done (s : cstate) (i : nat) : bool := existsb (fun p => Nat.eqb (fst p) i) (co_done s).
Definition without (i : nat) (ws : list nat) : list nat := filter (fun w => negb (Nat.eqb w i)) ws.

Definition cstep (maxage : Z) (swr : bool) (s : cstate) (a : caction) : cstate :=
  match a with
  | CLeave i =>
    (* a client that was already answered: nothing. The client of the request whose fetch is in flight: the fetch is
       cancelled with the request, the key is released and the waiters look again. A client that waits: it waits no more
       (woken later, its request fails at once and passes the key on). *)
    if is_done s i then s else
    match co_active s with
    | Some (k, j, cond, t0) =>
      if Nat.eqb j i
      then wake maxage swr (finish (mkCo (co_entry s) (co_now s) None (co_waiters s) (co_nfetch s) (co_version s) (co_done s) (co_maxin s)) i gone)
      else finish (mkCo (co_entry s) (co_now s) (co_active s) (without i (co_waiters s)) (co_nfetch s) (co_version s) (co_done s) (co_maxin s)) i gone
    | None => finish (mkCo (co_entry s) (co_now s) (co_active s) (without i (co_waiters s)) (co_nfetch s) (co_version s) (co_done s) (co_maxin s)) i gone
    end
  | CArrive i => lookup maxage swr s i
  | CResume _ => s
  | CAdv dt => mkCo (co_entry s) (co_now s + dt) (co_active s) (co_waiters s) (co_nfetch s) (co_version s) (co_done s) (co_maxin s)
  | CAnswer k how =>
    match co_active s with
    | Some (k', i, cond, t0) =>
      if negb (Nat.eqb k k') then s else
      let released e ver out :=
          wake maxage swr (finish (mkCo e (co_now s) None (co_waiters s) (co_nfetch s) ver (co_done s) (co_maxin s)) i out) in
      let as_new :=
          let v := co_version s + 1 in
          (* a fill is stamped with the time its writer was created (the harness's clock injection), a
             revalidation that stored a new body with the time it was closed (Revalidated) *)
          released (Some (v, if cond then co_now s else t0)) v (mkOut 200 v true (if cond then KRevalidated else KMiss)) in
      match how with
      | ANew => as_new
      | A304 =>
        if cond then
          match co_entry s with
          | Some (v, _) => released (Some (v, co_now s)) (co_version s) (mkOut 200 v true KRevalidated)
          | None => as_new
          end
        else as_new
      | A500 => released (co_entry s) (co_version s) (mkOut 500 0 true KPass)
      | AFail => released (co_entry s) (co_version s) (mkOut 502 0 true KNone)
      | ACut => released (if cond then co_entry s else None) (co_version s + 1) (mkOut 200 0 false (if cond then KRevalidated else KMiss))   (* a revalidation that fails keeps the old entry *)
      end
    | None => s
    end
  end.

Definition crun (maxage : Z) (swr : bool) (s : cstate) (acts : list caction) : cstate :=
  fold_left (cstep maxage swr) acts s.

(* the end of a schedule: every fetch still open is answered with a new version, oldest first *)
Fixpoint drain (fuel : nat) (maxage : Z) (swr : bool) (s : cstate) : cstate :=
  match fuel with
  | O => s
  | S f =>
    match co_active s with
    | Some (k, _, _, _) => drain f maxage swr (cstep maxage swr s (CAnswer k ANew))
    | None => s
    end
  end.

(* ---------- the "coord" family ---------- *)
(* case = L [A "coord"; I maxage; swr; big; L [L [A kind; I i; A arg; I dt] ...]] *)
Definition dec_answer (s : str) : answer :=
  if str_eqb s (bytes "304") then A304 else if str_eqb s (bytes "500") then A500
  else if str_eqb s (bytes "fail") then AFail else if str_eqb s (bytes "cut") then ACut else ANew.

Definition dec_caction (x : sx) : option caction :=
  let kind := sx_str (sx_nth 0 x) in
  let i := Z.to_nat (sx_int (sx_nth 1 x)) in
  if str_eqb kind (bytes "arrive") then Some (CArrive i)
  else if str_eqb kind (bytes "answer") then
    (* "slow": the origin sends the head and half of the body and stands still - nothing is decided yet, the fetch
       stays in flight and its writer keeps the key; "finish": the rest arrives, the fetch ends as a new version *)
    (if str_eqb (sx_str (sx_nth 2 x)) (bytes "slow") then Some (CResume i)
     else Some (CAnswer i (dec_answer (sx_str (sx_nth 2 x)))))
  else if str_eqb kind (bytes "resume") then Some (CResume i)
  else if str_eqb kind (bytes "adv") then Some (CAdv (sx_int (sx_nth 3 x)))
  else if str_eqb kind (bytes "leave") then Some (CLeave i)
  else None.

Fixpoint dec_cactions (l : list sx) : list caction :=
  match l with
  | [] => []
  | x :: r => match dec_caction x with Some a => a :: dec_cactions r | None => dec_cactions r end
  end.

Definition cache_name (k : cstatus) : str :=
  match k with
  | KMiss => bytes "miss" | KHit => bytes "hit" | KRevalidated => bytes "revalidated"
  | KStale => bytes "stale" | KPass => bytes "pass" | KNone => []
  end.

Definition ver_name (v : Z) : str := if v =? 0 then [] else bytes "v" ++ format_int v.

(* an outcome as one string, so that outcomes can be compared as a multiset (sorted): which of
   several woken waiters takes the key is the scheduler's choice *)
Definition outcome_key (status : Z) (ver : str) (whole : bool) (cache : str) : str :=
  format_int status ++ bytes "|" ++ ver ++ bytes "|" ++ (if whole then bytes "whole" else bytes "cut") ++ bytes "|" ++ cache.

Definition enc_outcome (o : outcome) : str :=
  outcome_key (o_status o) (ver_name (o_ver o)) (o_whole o) (cache_name (o_cache o)).

Definition run_coord (x : sx) : sx :=
  (* the lifetime in force: the origin's max-age, capped by the rule's force_revalidate when that is set and smaller *)
  let force := sx_int (sx_nth 7 x) in
  let maxage := if (0 <? force) && (force <? sx_int (sx_nth 1 x)) then force else sx_int (sx_nth 1 x) in
  let swr := sx_bool (sx_nth 2 x) in
  let s1 := drain 64 maxage swr (crun maxage swr co_init (dec_cactions (sx_list (sx_nth 4 x)))) in
  (* one more plain request; the fetch it may start is answered at once *)
  let n := (length (co_done s1) + length (co_waiters s1) + 100)%nat in
  let s2 := drain 8 maxage swr (lookup maxage swr s1 n) in
  let final := match find (fun p => Nat.eqb (fst p) n) (co_done s2) with
               | Some (_, o) => A (outcome_key (o_status o) (ver_name (o_ver o)) (o_whole o) (bytes "*"))
               | None => A (bytes "pending")
               end in
  (* with a chunked origin (no Content-Length) the client of a fetch the origin cut cannot see the cut:
     rrrouter ends the response normally, empty (finding F39) *)
  let nocl := sx_bool (sx_nth 5 x) in
  let view o := if nocl && negb (o_whole o) then mkOut (o_status o) (o_ver o) true (o_cache o) else o in
  L [of_strs (sort_strs (map (fun p => enc_outcome (view (snd p))) (filter (fun p => negb (o_status (snd p) =? -1)) (co_done s1))));
     of_nat (co_nfetch s2); of_nat (co_maxin s2); I 0; final; of_bool true].

(* observation = L [snapshot per action ...; last snapshot; final]
   snapshot = L [I fetches; I in flight; I max in flight; I locked keys; L [L [I i; A "done"; I status; A version; whole; A cache] ...]]
   final = L [A "done"; I status; A version; whole; fast] *)
Definition client_key (c : sx) : str :=
  if str_eqb (sx_str (sx_nth 1 c)) (bytes "done")
  then outcome_key (sx_int (sx_nth 2 c)) (sx_str (sx_nth 3 c)) (sx_bool (sx_nth 4 c)) (sx_str (sx_nth 5 c))
  else sx_str (sx_nth 1 c).

(* a client that went away (a "leave" action names it) and was not answered before shows as an error on its side: it is
   not compared *)
Definition left_unanswered (x : sx) (c : sx) : bool :=
  str_eqb (sx_str (sx_nth 1 c)) (bytes "error")
  && existsb (fun a => str_eqb (sx_str (sx_nth 0 a)) (bytes "leave") && Z.eqb (sx_int (sx_nth 1 a)) (sx_int (sx_nth 0 c))) (sx_list (sx_nth 4 x)).

Definition proj_coord (x o : sx) : sx :=
  let l := sx_list o in
  let final := last l (L []) in
  let snap := last (removelast l) (L []) in
  L [of_strs (sort_strs (map client_key (filter (fun c => negb (left_unanswered x c)) (sx_list (sx_nth 4 snap)))));
     sx_nth 0 snap; sx_nth 2 snap; sx_nth 3 snap;
     (if str_eqb (sx_str (sx_nth 0 final)) (bytes "done")
      then A (outcome_key (sx_int (sx_nth 1 final)) (sx_str (sx_nth 2 final)) (sx_bool (sx_nth 3 final)) (bytes "*"))
      else A (bytes "pending"));
     of_bool (sx_bool (sx_nth 4 final))].

(* ---------- monitors (on the projected observation) ---------- *)
From Verif Require Import Monitors.

Definition count_cut_answers (acts : list sx) : nat :=
  length (filter (fun a => str_eqb (sx_str (sx_nth 0 a)) (bytes "answer") && str_eqb (sx_str (sx_nth 2 a)) (bytes "cut")) acts).

Definition key_field (k : str) (n : nat) : str := nth n (split k (bytes "|")) [].

(* C12: never two fetches for the resource at once; everyone gets a complete, correct response
   (the one client whose own fetch was cut by the origin excepted); nothing is left locked *)
Definition mon_C12 (x o : sx) : sx :=
  let outs := to_strs (sx_nth 0 o) in
  if (1 <? sx_int (sx_nth 2 o))%Z then verdict false "two origin fetches for one resource were in flight at once"
  else if existsb (fun k => str_eqb k (bytes "pending")) outs then verdict false "a request was never answered"
  else if Nat.ltb (count_cut_answers (sx_list (sx_nth 4 x))) (length (filter (fun k => str_eqb (key_field k 2) (bytes "cut")) outs))
  then verdict false "a client other than the one whose fetch the origin cut received an incomplete response"
  else if existsb (fun k => str_eqb (key_field k 0) (bytes "200") && str_eqb (key_field k 2) (bytes "whole") && negb (nonempty (key_field k 1))) outs
  then (* known: the client of a fetch a chunked origin cut gets an empty, well-formed 200 *)
       if sx_bool (sx_nth 5 x)
          && Nat.leb (length (filter (fun k => str_eqb (key_field k 0) (bytes "200") && str_eqb (key_field k 2) (bytes "whole") && negb (nonempty (key_field k 1))) outs))
                     (count_cut_answers (sx_list (sx_nth 4 x)))
       then verdict_kf false "a 200 response did not carry a version of the resource" "F39-chunked-cut"
       else verdict false "a 200 response did not carry a version of the resource"
  else if negb (Z.eqb (sx_int (sx_nth 3 o)) 0) then verdict false "the key was left locked"
  else if Nat.ltb (length (filter (fun a => str_eqb (sx_str (sx_nth 0 a)) (bytes "arrive") && str_eqb (sx_str (sx_nth 2 a)) (bytes "cond")) (sx_list (sx_nth 4 x))))
                  (length (filter (fun k => str_eqb (key_field k 0) (bytes "304")) outs))
  then verdict false "a request that sent no validator was answered 304 (not served at all)"
  else v_ok.

(* C13: after any failure the key is neither wedged nor poisoned: a later plain request is answered
   promptly with a complete current version *)
Definition mon_C13 (x o : sx) : sx :=
  let fin := sx_str (sx_nth 4 o) in
  if str_eqb fin (bytes "pending") then verdict false "after the schedule a plain request for the resource is not answered (key wedged)"
  else if negb (str_eqb (key_field fin 0) (bytes "200") && str_eqb (key_field fin 2) (bytes "whole") && nonempty (key_field fin 1))
  then verdict false "after the schedule a plain request does not get a complete version (key poisoned)"
  else if negb (sx_bool (sx_nth 5 o)) then verdict false "after the schedule a plain request took more than 10 s"
  else if negb (Z.eqb (sx_int (sx_nth 3 o)) 0) then verdict false "the key was left locked"
  else mon_C12 x o.
