(* util/compress.go GetRecompression, acceptsEncodingFromString, fallbackCompressionWithDefault;
   proxy/proxy.go canTransform. Definitions only. *)
From Coq Require Import String.
From Coq Require Import List NArith ZArith Bool.
From Verif Require Import GoStr.
Import ListNotations.

Inductive ctype := CNone | CGzip | CBrotli.
Inductive accepts := AOther | AGzip | ABrotli | ABroken.

Definition s_semicolon : str := [59%N].
Definition s_br : str := bytes "br".
Definition s_gzip : str := bytes "gzip".
Definition s_identity : str := bytes "identity".
Definition s_app_json : str := bytes "application/json".
Definition s_text_slash : str := bytes "text/".
Definition s_no_transform : str := bytes "no-transform".

Definition accepts_of (s : str) : accepts :=
  if contains s s_semicolon then ABroken
  else if contains s s_br then ABrotli
  else if contains s s_gzip then AGzip
  else AOther.

Definition fallback (ce ct : str) (def : ctype) : ctype * ctype :=
  if (str_eqb ce [] || str_eqb ce s_identity) && (str_eqb ct s_app_json || has_prefix ct s_text_slash)
  then (def, CNone) else (CNone, CNone).

(* (Add, Remove) *)
Definition get_recompression (ae ce ct : str) : ctype * ctype :=
  match accepts_of ae with
  | ABrotli => if str_eqb ce s_br then (CNone, CNone)
               else if str_eqb ce s_gzip then (CBrotli, CGzip)
               else fallback ce ct CBrotli
  | AGzip => if str_eqb ce s_gzip then (CNone, CNone)
             else if str_eqb ce s_br then (CNone, CNone)
             else fallback ce ct CGzip
  | ABroken => if str_eqb ce s_gzip then (CNone, CGzip) else (CNone, CNone)
  | AOther => fallback ce ct CNone
  end.

Definition can_transform (cc : str) : bool :=
  match cc with [] => true | _ => negb (contains (to_lower cc) s_no_transform) end.

Definition enc_name (c : ctype) : str := match c with CGzip => s_gzip | CBrotli => s_br | CNone => [] end.
