(* Configuration documents: yamlconfig.Convert's clean-up, encoding/json's decoding into
   proxy.rulesConfig / caching.cacheConfig as far as those struct types use it, proxy.NewRules /
   NewRule validation, caching.ParseStorageConfigs, and the reload step of
   cmd/richie-request-router configReloader with cache.SetStorageConfigs. Definitions only.
   YAML and JSON *text* parsing are Go libraries: the harness hands over the trees they produce. *)
From Coq Require Import String.
From Coq Require Import List NArith ZArith Bool.
From Verif Require Import GoStr GoNum GoHeader Sx Tables Route.
Import ListNotations.
Open Scope Z_scope.

(* a JSON value as encoding/json sees it; numbers are pre-classified: an integer literal that
   fits int64, or any other number literal *)
Inductive jv :=
| JNull
| JBool (b : bool)
| JInt (n : Z)
| JFloat (lit : str)
| JStr (s : str)
| JArr (l : list jv)
| JObj (l : list (str * jv)).

(* the tree yaml.v2 produces, with scalars other than bool/int/string/null and all map keys
   already printed by fmt.Sprintf("%v") - printing is Go's *)
Inductive yv :=
| YNull
| YBool (b : bool)
| YInt (n : Z)
| YStr (s : str)
| YOther (printed : str)
| YSeq (l : list yv)
| YMap (l : list (str * yv)).       (* keys printed; in the order json.Marshal will emit them (sorted) *)

(* yamlconfig.cleanupMapValue followed by json.Marshal / json.Unmarshal of the result *)
Fixpoint cleanup (fuel : nat) (v : yv) : jv :=
  match fuel with
  | O => JNull
  | S f =>
    match v with
    | YNull => JNull
    | YBool b => JBool b
    | YInt n => JInt n
    | YStr s => JStr s
    | YOther p => JStr p
    | YSeq l => JArr (map (cleanup f) l)
    | YMap l => JObj (map (fun kv => (fst kv, cleanup f (snd kv))) l)
    end
  end.

(* ---------- encoding/json into the struct types ---------- *)
Inductive res (A : Type) := Ok (a : A) | Err.
Arguments Ok {A} a.
Arguments Err {A}.

Definition bind {A B} (r : res A) (f : A -> res B) : res B := match r with Ok a => f a | Err => Err end.

Fixpoint map_res {A B} (f : A -> res B) (l : list A) : res (list B) :=
  match l with
  | [] => Ok []
  | x :: l' => bind (f x) (fun y => bind (map_res f l') (fun ys => Ok (y :: ys)))
  end.

(* The value a struct field ends up with: object keys are taken in order, a key addresses the
   field whose name it equals exactly or case-insensitively (ASCII), a later key overrides an
   earlier one, and null leaves a string/bool/int field as it is but resets a pointer, slice or
   map field. [nullable] says which. *)
Fixpoint field_value (nullable : bool) (obj : list (str * jv)) (name : str) (cur : jv) : jv :=
  match obj with
  | [] => cur
  | (k, v) :: rest =>
    if str_eqb (to_lower k) name then
      match v with
      | JNull => field_value nullable rest name (if nullable then JNull else cur)
      | _ => field_value nullable rest name v
      end
    else field_value nullable rest name cur
  end.

Definition get_string (obj : list (str * jv)) (name : string) : res str :=
  match field_value false obj (bytes name) JNull with
  | JNull => Ok []
  | JStr s => Ok s
  | _ => Err
  end.
Definition get_bool (obj : list (str * jv)) (name : string) : res bool :=
  match field_value false obj (bytes name) JNull with
  | JNull => Ok false
  | JBool b => Ok b
  | _ => Err
  end.
Definition get_int (obj : list (str * jv)) (name : string) : res Z :=
  match field_value false obj (bytes name) JNull with
  | JNull => Ok 0
  | JInt n => Ok n
  | _ => Err
  end.
Definition get_opt_bool (obj : list (str * jv)) (name : string) : res (option bool) :=
  match field_value true obj (bytes name) JNull with
  | JNull => Ok None
  | JBool b => Ok (Some b)
  | _ => Err
  end.
Definition get_opt_string (obj : list (str * jv)) (name : string) : res (option str) :=
  match field_value true obj (bytes name) JNull with
  | JNull => Ok None
  | JStr s => Ok (Some s)
  | _ => Err
  end.
Definition get_strings (obj : list (str * jv)) (name : string) : res (list str) :=
  match field_value true obj (bytes name) JNull with
  | JNull => Ok []
  | JArr l => map_res (fun v => match v with JStr s => Ok s | JNull => Ok [] | _ => Err end) l
  | _ => Err
  end.
(* map[string]string: null values become "" *)
Definition get_string_map (obj : list (str * jv)) (name : string) : res (list (str * str)) :=
  match field_value true obj (bytes name) JNull with
  | JNull => Ok []
  | JObj l => map_res (fun kv => match snd kv with JStr s => Ok (fst kv, s) | JNull => Ok (fst kv, []) | _ => Err end) l
  | _ => Err
  end.
(* map[string]interface{}: anything goes *)
Definition get_any_map (obj : list (str * jv)) (name : string) : res (list (str * jv)) :=
  match field_value true obj (bytes name) JNull with
  | JNull => Ok []
  | JObj l => Ok l
  | _ => Err
  end.

Inductive rule_src := mkSrc {
  s_enabled : option bool;
  s_methods : list str;
  s_scheme : str; s_host : str; s_path : str; s_dest : str;
  s_internal : bool;
  s_type : option str;
  s_hosthdr : str;
  s_recomp : bool;
  s_cache : str;
  s_force : Z;
  s_reqh : list (str * jv);
  s_resph : list (str * str);
  s_restart : bool;
  s_retry : option rule_src
}.

Definition zero_src : rule_src := mkSrc None [] [] [] [] [] false None [] false [] 0 [] [] false None.

Fixpoint decode_src (fuel : nat) (v : jv) : res rule_src :=
  match fuel with
  | O => Err
  | S f =>
    match v with
    | JNull => Ok zero_src
    | JObj o =>
      bind (get_opt_bool o "enabled") (fun enabled =>
      bind (get_strings o "methods") (fun methods =>
      bind (get_string o "scheme") (fun scheme =>
      bind (get_string o "host") (fun host =>
      bind (get_string o "path") (fun path =>
      bind (get_string o "destination") (fun dest =>
      bind (get_bool o "internal") (fun internal =>
      bind (get_opt_string o "type") (fun ty =>
      bind (get_string o "hostheader") (fun hh =>
      bind (get_bool o "recompression") (fun recomp =>
      bind (get_string o "cache") (fun cache =>
      bind (get_int o "force_revalidate") (fun force =>
      bind (get_any_map o "request_headers") (fun reqh =>
      bind (get_string_map o "response_headers") (fun resph =>
      bind (get_bool o "restart_on_redirect") (fun restart =>
      bind (match field_value true o (bytes "retry_rule") JNull with
            | JNull => Ok None
            | JObj o' => bind (decode_src f (JObj o')) (fun r => Ok (Some r))
            | _ => Err
            end) (fun retry =>
      Ok (mkSrc enabled methods scheme host path dest internal ty hh recomp cache force reqh resph restart retry)))))))))))))))))
    | _ => Err
    end
  end.

Definition decode_rules_config (v : jv) : res (list rule_src) :=
  match v with
  | JNull => Ok []
  | JObj o =>
    match field_value true o (bytes "rules") JNull with
    | JNull => Ok []
    | JArr l => map_res (decode_src 8) l
    | _ => Err
    end
  | _ => Err
  end.

(* ---------- proxy.NewRules / NewRule ---------- *)
Definition known_method (m : str) : bool := existsb (str_eqb m) known_methods.

Fixpoint count_byte (c : N) (s : str) : nat :=
  match s with [] => O | x :: s' => (if N.eqb x c then 1 else 0) + count_byte c s' end.

Definition wildcard_ok (path : str) : bool :=
  match count_byte 42 path with
  | O => true
  | S O => match rev path with 42%N :: _ => true | _ => false end
  | _ => false
  end.

Definition hostmode_of (s : str) : hostmode :=
  if str_eqb s [] then HDefault
  else if str_eqb s (bytes "original") then HOriginal
  else if str_eqb s (bytes "destination") then HDestination
  else HOverride s.

Definition req_headers_of (m : list (str * jv)) : list (str * option str) :=
  flat_map (fun kv => match snd kv with
                      | JNull => [(to_lower (trim_space (fst kv)), None)]
                      | JStr s => [(to_lower (trim_space (fst kv)), Some s)]
                      | _ => []
                      end) m.

Fixpoint new_rule (fuel : nat) (dest_ok : str -> bool) (s : rule_src) : res rule :=
  match fuel with
  | O => Err
  | S f =>
    if str_eqb (s_path s) [] || str_eqb (s_dest s) [] then Err else
    if negb (forallb known_method (s_methods s)) then Err else
    bind (match s_type s with
          | None => Ok RProxy
          | Some t => if str_eqb t (bytes "proxy") then Ok RProxy else if str_eqb t (bytes "copy_traffic") then Ok RCopy else Err
          end) (fun ty =>
    bind (match s_retry s with
          | None => Ok None
          | Some rr => bind (new_rule f dest_ok rr) (fun r => Ok (Some r))
          end) (fun retry =>
    if negb (wildcard_ok (to_lower (s_path s))) then Err else
    if negb (dest_ok (s_dest s)) then Err else
    Ok (mkRule (match s_enabled s with Some b => b | None => true end)
               (s_scheme s) (s_host s) (s_path s) (s_dest s) (s_internal s) (s_methods s) ty
               (hostmode_of (s_hosthdr s)) (s_recomp s) (s_cache s)
               (if 0 <? s_force s then s_force s else 0)
               (req_headers_of (s_reqh s))
               (map (fun kv => (trim_space (fst kv), trim_space (snd kv))) (s_resph s))
               (s_restart s) retry)))
  end.

Definition new_rules (dest_ok : str -> bool) (srcs : list rule_src) : res (list rule) :=
  map_res (new_rule 8 dest_ok) srcs.

(* proxy.ParseRules on the tree the struct decoder is given *)
Definition parse_rules (dest_ok : str -> bool) (v : jv) : res (list rule) :=
  bind (decode_rules_config v) (fun srcs =>
  match srcs with
  | [] => Err
  | _ => new_rules dest_ok srcs
  end).

(* ---------- caching.ParseStorageConfigs ---------- *)
Record storage_cfg := mkStorage { sc_id : str; sc_path : str; sc_size : Z }.

Definition decode_storage (v : jv) : res (str * str * str) :=
  match v with
  | JNull => Ok ([], [], [])
  | JObj o =>
    bind (get_string o "size") (fun size =>
    bind (get_string o "path") (fun path =>
    bind (get_string o "id") (fun id => Ok (size, path, id))))
  | _ => Err
  end.

Definition decode_cache_config (v : jv) : res (list (str * str * str)) :=
  match v with
  | JNull => Ok []
  | JObj o =>
    match field_value true o (bytes "caches") JNull with
    | JNull => Ok []
    | JArr l => map_res decode_storage l
    | _ => Err
    end
  | _ => Err
  end.

(* size_of: datasize.ByteSize.UnmarshalText, a library (None = rejected) *)
Fixpoint collect_storages (size_of : str -> option Z) (l : list (str * str * str)) (acc : list storage_cfg) : res (list storage_cfg) :=
  match l with
  | [] => Ok acc
  | (size, path, id) :: rest =>
    if str_eqb path [] || str_eqb id [] then collect_storages size_of rest acc
    else if existsb (fun c => str_eqb (sc_path c) path || str_eqb (sc_id c) id) acc then Err
    else match size_of size with
         | Some n => collect_storages size_of rest (acc ++ [mkStorage id path n])
         | None => collect_storages size_of rest acc
         end
  end.

Definition parse_storages (size_of : str -> option Z) (v : jv) : res (list storage_cfg) :=
  bind (decode_cache_config v) (fun l => collect_storages size_of l []).

(* ---------- the reload step ---------- *)
Record rstate := mkRState {
  rs_rules : list rule;
  rs_caches : list storage_cfg;
  rs_sum : str
}.

(* what a fetch of the mapping produces: nothing (fetch error), or the text's checksum with the
   tree the struct decoders see (None: neither YAML nor JSON) *)
Record fetched := mkFetched { f_sum : str; f_tree : option jv }.

(* cache.SetStorageConfigs: the storages of the new configuration, existing ones updated in place
   (their directory content and accounting are kept) *)
Definition set_storages (old new : list storage_cfg) : list storage_cfg := new.

Definition reload (dest_ok : str -> bool) (size_of : str -> option Z) (st : rstate) (f : option fetched) : rstate :=
  match f with
  | None => st
  | Some d =>
    if str_eqb (f_sum d) (rs_sum st) then st else
    match f_tree d with
    | None => st
    | Some v =>
      match parse_rules dest_ok v, parse_storages size_of v with
      | Ok rules, Ok caches => mkRState rules (set_storages (rs_caches st) caches) (f_sum d)
      | _, _ => st
      end
    end
  end.

Definition start (dest_ok : str -> bool) (size_of : str -> option Z) (d : fetched) : option rstate :=
  match f_tree d with
  | None => None
  | Some v =>
    match parse_rules dest_ok v, parse_storages size_of v with
    | Ok rules, Ok caches => Some (mkRState rules caches (f_sum d))
    | _, _ => None
    end
  end.
