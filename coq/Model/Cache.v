(* The sequential cache machine: server/server.go cachingFunc, caching/caching.go cache.Get,
   cachingResponseWriter, caching/disk.go storage.Get and storageWriter (WriteHeader, Write,
   Close, Delete, ChangeKey), util/http.go RedirectedURL. One request at a time: key locks
   are always free, so every miss or stale entry makes the request the writer.
   Definitions only; the model follows the code as it is. *)
From Coq Require Import String.
From Coq Require Import List NArith ZArith Bool.
From Verif Require Import GoStr GoNum GoHeader Tables Route Forward Serve Range Recompress Meta Fresh Key.
Import ListNotations.
Open Scope Z_scope.

(* ---------------- URLs as records ---------------- *)

Record url := mkUrl { u_scheme : str; u_host : str; u_path : str; u_query : str; u_force : bool }.

Definition s_slashslash : str := [47%N; 47%N].

Definition parse_pathq (s : str) : str * str * bool :=
  let nofrag := fst (cut_at s 35%N) in
  match cut_at nofrag 63%N with
  | (p, Some q) => (p, q, match q with [] => true | _ => false end)
  | (p, None) => (p, [], false)
  end.

Definition strip_userinfo (auth : str) : str :=
  match last_index_byte auth 64%N with Some i => skipn (S i) auth | None => auth end.

(* url.Parse for the forms the machine meets: scheme://authority/path?query, //authority/path,
   /path?query, path?query, "" *)
Definition parse_url (s : str) : url :=
  match index s s_css with
  | Some i =>
    let rest := skipn (i + 3) s in
    let auth := take_until rest [47%N; 63%N; 35%N] in
    let '(p, q, f) := parse_pathq (skipn (length auth) rest) in
    mkUrl (firstn i s) (strip_userinfo auth) p q f
  | None =>
    if has_prefix s s_slashslash then
      let rest := skipn 2 s in
      let auth := take_until rest [47%N; 63%N; 35%N] in
      let '(p, q, f) := parse_pathq (skipn (length auth) rest) in
      mkUrl [] (strip_userinfo auth) p q f
    else let '(p, q, f) := parse_pathq s in mkUrl [] [] p q f
  end.

Definition url_string (u : url) : str :=
  (if nonempty (u_scheme u) then u_scheme u ++ [58%N] else [])
  ++ (if (nonempty (u_scheme u) || nonempty (u_host u)) && (nonempty (u_host u) || nonempty (u_path u))
      then s_slashslash ++ u_host u else [])
  ++ (if nonempty (u_path u) && nonempty (u_host u) && negb (has_prefix (u_path u) [47%N]) then [47%N] else [])
  ++ u_path u
  ++ (if u_force u || nonempty (u_query u) then 63%N :: u_query u else []).

Definition url_request_uri (u : url) : str :=
  (match u_path u with [] => [47%N] | p => p end)
  ++ (if u_force u || nonempty (u_query u) then 63%N :: u_query u else []).

Definition url_eqb (a b : url) : bool :=
  str_eqb (u_scheme a) (u_scheme b) && str_eqb (u_host a) (u_host b) && str_eqb (u_path a) (u_path b)
  && str_eqb (u_query a) (u_query b) && Bool.eqb (u_force a) (u_force b).

(* util.RedirectedURL(orig request, requested URL, Location), then Scheme := requested URL's *)
Definition redirected_url (r_url : url) (r_host : str) (requested : url) (redir : url) : url :=
  let res :=
    if nonempty (u_scheme redir) then redir else
    let host := if nonempty (u_host requested) then u_host requested else r_host in
    if has_prefix (u_path redir) [47%N] then mkUrl (u_scheme r_url) host (u_path redir) (u_query redir) (u_force redir)
    else
      let segs := filter nonempty (split (u_path r_url) [47%N]) in
      let newpath := if Nat.ltb 1 (length segs)
                     then [47%N] ++ join (removelast segs) [47%N] ++ u_path redir
                     else [47%N] ++ u_path redir in
      mkUrl (u_scheme r_url) host newpath (u_query redir) (u_force redir) in
  mkUrl (u_scheme requested) (u_host res) (u_path res) (u_query res) (u_force res).

(* ---------------- machine state ---------------- *)

Record centry := mkEntry { ce_meta : str; ce_body : str }.
Definition disk := list (str * centry).

Fixpoint disk_get (d : disk) (n : str) : option centry :=
  match d with
  | [] => None
  | (n', e) :: d' => if str_eqb n' n then Some e else disk_get d' n
  end.
Definition disk_find (d : disk) (n : str) : option centry :=
  match find (fun p => str_eqb (fst p) n) d with Some (_, e) => Some e | None => None end.
Definition disk_del (d : disk) (n : str) : disk := filter (fun p => negb (str_eqb (fst p) n)) d.
Definition disk_put (d : disk) (n : str) (e : centry) : disk := (n, e) :: disk_del d n.

Record mstate := mkState { ms_disk : disk; ms_script : script; ms_now : Z }.

Record mcfg := mkMcfg {
  mc_cfg : cfg;
  mc_rules : list rule;
  mc_caches : list str;            (* configured storage ids *)
  mc_suffix : option str;          (* ETAG_SUFFIX *)
  mc_expires : list (str * Z);     (* Expires values time.Parse accepts -> unix seconds (oracle) *)
  mc_hash : str -> str             (* hex SHA-1 *)
}.

(* responses of the scripted origin carry a framing flag: chunked = no Content-Length known *)
Record oresp := mkOresp { or_resp : resp; or_chunked : bool }.

(* ---------------- storage.Get ---------------- *)

Definition s_content_length : str := bytes "content-length".

Record found := mkFound { f_key : key; f_meta : meta; f_body : str }.

(* first key with a decodable, size-consistent entry; undecodable or inconsistent entries
   are deleted on the way *)
Fixpoint storage_get (H : str -> str) (d : disk) (keys : list key) : disk * option found :=
  match keys with
  | [] => (d, None)
  | k :: ks =>
    let n := fs_name H k in
    match disk_get d n with
    | None => storage_get H d ks
    | Some e =>
      match decode_meta (ce_meta e) with
      | None => storage_get H (disk_del d n) ks
      | Some m =>
        (* the Content-Length comparison is dead code (err != nil && contentLength > 0) *)
        if nonempty (hget (m_resph m) s_content_length) then (d, Some (mkFound k m (ce_body e)))
        else if negb (Z.of_nat (length (ce_body e)) =? m_size m) then storage_get H (disk_del d n) ks
        else (d, Some (mkFound k m (ce_body e)))
      end
    end
  end.

Definition not_found_preferred (keys : list key) (dflt : key) : key :=
  match find k_opaque keys with
  | Some k => k
  | None => hd dflt keys
  end.

(* ---------------- cache.Get (sequential) ---------------- *)

Inductive get_result :=
| GFound (f : found) (age : Z) (stale : bool)
| GClient304 (f : found) (age : Z)
| GWriter (k : key)                         (* NotFoundWriter *)
| GRevalWriter (f : found) (age : Z).       (* RevalidatingWriter *)

Definition expires_unix (c : mcfg) (v : str) : Z :=
  match find (fun p => str_eqb (fst p) v) (mc_expires c) with
  | Some (_, t) => t
  | None => -62135596800   (* both layouts fail: the zero time *)
  end.

Definition s_inm : str := bytes "if-none-match".
Definition s_ims : str := bytes "if-modified-since".
Definition s_etag : str := bytes "etag".
Definition s_last_modified : str := bytes "last-modified".
Definition s_expires : str := bytes "expires".

(* the client-validator comparison of cache.Get *)
Definition client_304 (c : mcfg) (k : key) (m : meta) : bool :=
  let etag := hget (k_orig k) s_inm in
  if nonempty etag then
    match mc_suffix c with
    | Some tok =>
      if has_suffix etag tok || has_suffix etag (tok ++ s_quote) then
        let ce := normalize_etag etag in
        let has_q := has_suffix ce s_quote in
        (* strings.LastIndex(clientEtag, token): position of the last occurrence *)
        match index (rev ce) (rev tok) with
        | Some j =>
          let idx := (length ce - j - length tok)%nat in
          let ce' := firstn idx ce ++ (if has_q then s_quote else []) in
          str_eqb ce' (normalize_etag (hget (m_resph m) s_etag))
        | None => false   (* the code would slice with -1 and panic; unreachable after the suffix test unless W/ trimming removed it *)
        end
      else false
    | None => str_eqb (normalize_etag etag) (normalize_etag (hget (m_resph m) s_etag))
    end
  else
    let ims := hget (k_orig k) s_ims in
    if nonempty ims then str_eqb (hget (m_resph m) s_last_modified) ims else false.

Definition cache_get (c : mcfg) (d : disk) (now : Z) (force : Z) (skip : bool) (keys : list key) (dflt : key)
  : disk * get_result :=
  match storage_get (mc_hash c) d keys with
  | (d', None) => (d', GWriter (not_found_preferred keys dflt))
  | (d', Some f) =>
    let m := f_meta f in
    let from_reval := negb (m_revalidated m =? 0) in
    let age := if from_reval then now - m_revalidated m else now - m_created m in
    let should0 := if force =? 0 then false else force <=? age in
    let skip' := skip in
    let dirs := get_directives (m_resph m) in
    let should1 := if should0 then true
                   else match d_smaxage dirs with
                        | Some s => s <=? age
                        | None => match d_maxage dirs with Some a => a <=? age | None => false end
                        end in
    let expires := hget (m_resph m) s_expires in
    let no_age := match d_smaxage dirs, d_maxage dirs with None, None => true | _, _ => false end in
    let should2 := if negb should1 && nonempty expires && no_age
                   then expires_unix c expires <=? now else should1 in
    if negb should2 && client_304 c (f_key f) m then (d', GClient304 f age)
    else
      let stale := should2 in
      let should3 := if should2 && skip' then false else should2 in
      if should3 then (d', GRevalWriter f age) else (d', GFound f age stale)
  end.

(* ---------------- what the Go server does with a body and a declared length ---------------- *)

Definition s_HEADm : str := bytes "HEAD".

(* body as received by the client, and whether the response was cut short *)
Definition wire_body (method : str) (status : Z) (h : hdrs) (body : str) : str * bool :=
  if str_eqb method s_HEADm || (status =? 304) || (status =? 204) then ([], false)
  else match parse_int (hget h s_content_length) with
       | Some n => if Z.of_nat (length body) =? n then (body, false)
                   else if Z.of_nat (length body) <? n then (body, true)
                   else ([], true)     (* a chunk exceeding the declared length is refused whole *)
       | None => (body, false)
       end.

(* Go's response writer silently skips header names that are not tokens *)
Definition wire_hdrs (h : hdrs) : hdrs :=
  map (fun kv => (fst kv, map (fun v => trim v [32%N; 9%N]) (snd kv)))   (* the client's parser trims optional white space *)
      (filter (fun kv => nonempty (fst kv) && forallb is_token_byte (fst kv)) h).

Definition mk_client (method : str) (status : Z) (h : hdrs) (body : str) : client :=
  let '(b, cut) := wire_body method status h body in mkClient KOrigin status (wire_hdrs h) b cut.

(* suffixETag / the etag line of requestHandler *)
Definition suffix_etag (c : mcfg) (h : hdrs) : hdrs :=
  let e := hget h s_etag in
  if nonempty e then hset h s_etag (add_etag_suffix (mc_suffix c) e) else h.

Definition s_age : str := bytes "Age".
Definition s_content_range : str := bytes "content-range".
Definition s_range : str := bytes "range".
Definition s_authorization : str := bytes "authorization".

(* ---------------- storageWriter ---------------- *)

(* what storageWriter.WriteHeader keeps of the client-facing header map *)
Definition stored_headers (c : mcfg) (status : Z) (h : hdrs) : hdrs :=
  let h1 := if (cacheable_err_lo <=? status) && (status <=? cacheable_err_hi)
            then hset h s_cache_control (bytes "s-maxage=60, max-age=60") else h in
  let h2 := deny_headers h1 [hdr_cache_status] in
  let e := hget h2 s_etag in
  if nonempty e then hset h2 s_etag (strip_etag_suffix (mc_suffix c) e) else h2.

Definition is_cacheable_status (s : Z) : bool :=
  (s =? 200) || ((cacheable_err_lo <=? s) && (s <=? cacheable_err_hi)) || is_redirect s.

Definition content_length_from_range (s : str) : str :=
  match split s [47%N] with
  | [_; n] => match atoi n with Some v => if v <? 0 then [] else n | None => [] end
  | _ => []
  end.

(* the Close-time sanity check *)
Definition zero_size_rejected (k : key) (size : Z) (status : Z) : bool :=
  negb (str_eqb (k_method k) s_HEADm) && (size =? 0) && negb (status =? 204)
  && negb ((cacheable_err_lo <=? status) && (status <=? cacheable_err_hi)) && negb (is_redirect status).

(* 304 merge of storageWriter.Close *)
Definition merge_revalidated (old : hdrs) (fresh : hdrs) : hdrs :=
  fold_left (fun h kv =>
               let h' := if nonempty (hget h (fst kv)) then hdel h (fst kv) else h in
               fold_left (fun h v => hadd h (fst kv) v) (snd kv) h') fresh old.

(* mark the entry at name n as revalidated now (optionally merging 304 headers);
   None = Close failed and the entry was deleted *)
Definition close_revalidated (c : mcfg) (d : disk) (n : str) (k : key) (now : Z) (fresh : option hdrs) : disk * bool :=
  match disk_get d n with
  | None => (d, false)                      (* reopen fails; Delete of a missing file is harmless *)
  | Some e =>
    match decode_meta (ce_meta e) with
    | None => (disk_del d n, false)
    | Some m =>
      let rh := match fresh with Some f => merge_revalidated (m_resph m) f | None => m_resph m end in
      let m' := mkMeta (m_host m) (m_path m) (m_reqh m) rh (m_status m) (m_redirect m) (m_created m) now (m_size m) in
      let size := Z.of_nat (length (ce_body e)) in
      if negb (size =? m_size m) then (disk_del d n, false)
      else if zero_size_rejected k size (m_status m) then (disk_del d n, false)
      else (disk_put d n (mkEntry (encode_meta m') (ce_body e)), true)
    end
  end.

(* ---------------- cachingFunc ---------------- *)

(* cf_always: the always-include header map as this call leaves it. The Go code passes the map by
   pointer, so what a nested call adds is seen by its caller afterwards. *)
Record cf_out := mkCf { cf_state : mstate; cf_client : client; cf_log : list dlv; cf_always : hdrs }.

Definition bare (s : Z) : client := mkClient KBare s [] [] false.

Definition with_status (always : hdrs) (s : str) : hdrs := hset always hdr_cache_status s.
Definition add_resp_headers (always : hdrs) (r : rule) : hdrs :=
  fold_left (fun h kv => hset h (fst kv) (snd kv)) (r_resp_hdrs r) always.

Definition req_with (q : req) (host : str) (u : url) (h : hdrs) (body : str) : req :=
  mkReq (q_method q) host (q_tls q) (url_request_uri u) (u_query u) (url_string u) h body
        (q_remote_ip q) (q_uuid q) (q_badhosts q).

Definition set_hdrs (q : req) (h : hdrs) : req :=
  mkReq (q_method q) (q_host q) (q_tls q) (q_uri q) (q_query q) (q_url q) h (q_body q)
        (q_remote_ip q) (q_uuid q) (q_badhosts q).

(* the request KeysFromRequest sees: rule.OverrideOnRequest on a clone *)
Definition key_uri (r : rule) (q : req) : str :=
  let u := parse_url (q_url q) in
  let u' := match attempt_match r (u_scheme u) (u_host u) (url_request_uri u) with
            | Some dest =>
              (* the destination is asked with the client's query, also when the rule's destination has no $1 (fix F45) *)
              let d := parse_url dest in mkUrl (u_scheme d) (u_host d) (u_path d) (u_query u) (u_force d)
            | None => u
            end in
  (* the host of the destination / redirect target is part of the keyed request-target *)
  u_host u' ++ url_request_uri u'.

Definition s_uncacheable := bytes "uncacheable".
Definition s_hit := bytes "hit".
Definition s_stale := bytes "stale".
Definition s_miss := bytes "miss".
Definition s_revalidated := bytes "revalidated".

(* serve a Found entry to the client (the Found branch without restart_on_redirect) *)
Definition serve_found (c : mcfg) (q : req) (always : hdrs) (f : found) (age : Z) (stale : bool) : client * hdrs :=
  let m := f_meta f in
  let st := hget always hdr_cache_status in
  let always1 := if nonempty st then (if str_eqb st s_pass then with_status always s_hit else always)
                 else with_status always (if stale then s_stale else s_hit) in
  let always2 := hset always1 s_age (format_int age) in
  let rr := get_range (hget (q_hdrs q) s_range) in
  match rr with
  | Some _ =>
    (* the stored size is the resource length; no 206 announced = the whole entry is sent *)
    let '(st', hs, rr') :=
        if m_status m =? 200 then set_ranged_headers rr (m_size m) 200 else (m_status m, None, rr) in
    if (m_status m =? 200) && (400 <=? st') then (bare st', always2) else
    let always3 := match hs with
                   | Some (cl, cr) => hset (hset always2 s_content_length cl) s_content_range cr
                   | None => always2
                   end in
    let h := suffix_etag c (clear_and_copy (m_resph m) always3) in
    match rr', st' =? 206 with
    | Some r, true =>
      match send_slice (f_body f) (rr_start r (m_size m)) (rr_size r (m_size m)) with
      | Some b => (mk_client (q_method q) st' h b, always3)
      | None => (mk_client (q_method q) st' h [], always3)
      end
    | _, _ => (mk_client (q_method q) st' h (take (f_body f) 0 (m_size m)), always3)
    end
  | None =>
    let h := suffix_etag c (clear_and_copy (m_resph m) always2) in
    (mk_client (q_method q) (m_status m) h (take (f_body f) 0 (m_size m)), always2)
  end.

Definition s_no_cl : str := [].

(* mayFollow: the URLs followed for one client request (host ++ request-URI), at most 10 *)
Definition max_redirect_hops : nat := 10.
Definition follow_key (u : url) : str := u_host u ++ url_request_uri u.
Definition may_follow (seen : list str) (u : url) : bool :=
  negb (str_in seen (follow_key u)) && Nat.leb (length seen) max_redirect_hops.
Definition loop_detected : client := mkClient KErrorJson 508 [] [] false.

Fixpoint caching_func (fuel : nat) (c : mcfg) (st : mstate) (q : req) (override_url : option str)
         (always : hdrs) (frf : option rule) (skip_reval : bool) (seen : list str) (log : list dlv) : cf_out :=
  match fuel with
  | O => mkCf st (mkClient KUnmodelled 0 [] [] false) log always
  | S fuel' =>
  (* GetRoutingFlavors *)
  let host := drop_port (q_host q) in
  let scheme := req_scheme (q_tls q) (hget (q_hdrs q) (bytes "X-Forwarded-Proto")) in
  let '(pm, _) := rules_match (mc_rules c) scheme host (q_uri q) (q_method q) in
  let rf0 := if str_in (q_badhosts q) host then None
             else match pm with Some (_, r, _) => Some r | None => None end in
  let q1 := match rf0 with Some r => set_hdrs q (preprocess_headers (q_hdrs q) (r_req_hdrs r)) | None => q end in
  let should_skip :=
      nonempty (hget (q_hdrs q1) s_authorization) &&
      negb (match rf0 with
            | Some r => existsb (fun kv => str_eqb (fst kv) s_authorization && match snd kv with None => true | Some _ => false end) (r_req_hdrs r)
            | None => false
            end) in
  let rf := match rf0 with
            | Some r => if nonempty (r_cache r) then rf0 else match frf with Some _ => frf | None => rf0 end
            | None => match frf with Some _ => frf | None => None end
            end in
  let cache_id := match rf with Some r => r_cache r | None => [] end in
  let cached := nonempty cache_id && str_in (mc_caches c) cache_id
                && (str_eqb (q_method q) s_GET || str_eqb (q_method q) s_HEADm) in
  if negb cached then
    (* ---- no cache for this request ---- *)
    let out := route_request 6 (mc_cfg c) (mc_rules c) q1 (q_body q1) override_url rf (ms_script st) log in
    let st1 := mkState (ms_disk st) (rt_script out) (ms_now st) in
    match rt_res out with
    | inr e => mkCf st1 (write_error e) (rt_log out) always
    | inl ok =>
      let restart := match rf with Some r => r_restart r | None => false end in
      match ro_redirect ok with
      | Some loc =>
        if restart then
          let red := parse_url loc in
          if url_eqb red (parse_url (q_url q1)) then mkCf st1 (mkClient KErrorJson 508 [] [] false) (rt_log out) always
          else
            let ru := redirected_url (parse_url (q_url q1)) (q_host q1) (parse_url (ro_url ok)) red in
            let rr := req_with q1 (u_host ru) ru (q_hdrs q1) [] in
            if negb (may_follow seen ru) then mkCf st1 loop_detected (rt_log out) always else
            caching_func fuel' c st1 rr None always rf false (follow_key ru :: seen) (rt_log out)
        else
          let always' := with_status (add_resp_headers always (ro_rule ok)) s_pass in
          mkCf st1 (mk_client (q_method q) (rs_status (ro_resp ok)) (suffix_etag c (clear_and_copy (rs_hdrs (ro_resp ok)) always')) (rs_body (ro_resp ok))) (rt_log out) always'
      | None =>
        let always' := with_status (add_resp_headers always (ro_rule ok)) s_pass in
        mkCf st1 (mk_client (q_method q) (rs_status (ro_resp ok)) (suffix_etag c (clear_and_copy (rs_hdrs (ro_resp ok)) always')) (rs_body (ro_resp ok))) (rt_log out) always'
      end
    end
  else
  match rf with
  | None => mkCf st (mkClient KUnmodelled 0 [] [] false) log always
  | Some rule =>
    let keys := keys_from_request (q_method q1) (q_host q1) (key_uri rule q1) (q_hdrs q1) in
    let dflt := mkKey [] [] [] false [] [] in
    let '(d1, gr) := cache_get c (ms_disk st) (ms_now st) (r_force_reval rule) skip_reval keys dflt in
    let st1 := mkState d1 (ms_script st) (ms_now st) in
    let always_rf := add_resp_headers always rule in
    match gr with
    | GClient304 f age =>
      let al := with_status always s_hit in
      let h := suffix_etag c (clear_and_copy (allow_headers (m_resph (f_meta f)) allowed_in_304) al) in
      mkCf st1 (mk_client (q_method q) 304 h []) log al
    | GFound f age stale =>
      if r_restart rule && is_redirect (m_status (f_meta f)) then
        let loc := parse_url (m_redirect (f_meta f)) in
        let ru := redirected_url (parse_url (q_url q1)) (q_host q1) (parse_url (q_url q1)) loc in
        (* requestWithRedirect: rr.URL = RedirectedURL(rr, rr.URL, location) without the scheme override *)
        let ru' := if nonempty (u_scheme loc) then loc else mkUrl (u_scheme (parse_url (q_url q1))) (u_host ru) (u_path ru) (u_query ru) (u_force ru) in
        let rr := req_with q1 (u_host ru') ru' (q_hdrs q1) [] in
        if negb (may_follow seen ru') then mkCf st1 loop_detected log always_rf else
        (* the nested call gets a fresh map: this level's map is left as it is *)
        let inner := caching_func fuel' c st1 rr (Some (url_string ru')) [] (Some rule) false (follow_key ru' :: seen) log in
        mkCf (cf_state inner) (cf_client inner) (cf_log inner) always_rf
      else let '(cl, al) := serve_found c q1 always_rf f age stale in mkCf st1 cl log al
    | GWriter _ | GRevalWriter _ _ =>
      let '(k, reval, old_meta, age) :=
          match gr with
          | GRevalWriter f a => (f_key f, true, Some (f_meta f), a)
          | GWriter k0 => (k0, false, None, 0)
          | _ => (dflt, false, None, 0)
          end in
      let name := fs_name (mc_hash c) k in
      let rr := get_range (hget (q_hdrs q1) s_range) in
      let h1 := hdel (q_hdrs q1) s_range in
      let '(client_vh, _, client_vv) := revalidate_headers h1 in
      let '(h2, used) :=
          match old_meta with
          | Some m => let '(ch, _, v) := revalidate_headers (m_resph m) in
                      if nonempty v then (hset h1 ch v, ch) else (h1, [])
          | None => (hdel (hdel h1 s_inm) s_ims, [])
          end in
      let q2 := set_hdrs q1 h2 in
      let out := route_request 6 (mc_cfg c) (mc_rules c) q2 (q_body q2) override_url (Some rule) (ms_script st) log in
      let st2 := mkState d1 (rt_script out) (ms_now st) in
      match rt_res out with
      | inr e => mkCf st2 (write_error e) (rt_log out) always_rf
      | inl ok =>
        let rp := ro_resp ok in
        let rule_f := ro_rule ok in
        let always1 := add_resp_headers always_rf rule_f in
        (* Response.ContentLength: the declared length, -1 when the origin sent none (chunked) *)
        let resp_cl := match atoi (hget (rs_hdrs rp) s_content_length) with Some v => v | None => -1 end in
        let dirs := get_directives (rs_hdrs rp) in
        (* a range is cut only out of a complete, cacheable 200 that goes through the cache file *)
        let ranged := (match rr with Some _ => true | None => false end) && (rs_status rp =? 200)
                      && negb (do_not_cache dirs) && negb should_skip in
        let '(st_over, rhs, rr1) := if ranged then set_ranged_headers rr resp_cl 200 else (rs_status rp, None, None) in
        if ranged && (400 <=? st_over) then mkCf st2 (bare st_over) (rt_log out) always1 else
        let rr := if st_over =? 206 then rr1 else None in
        let always2 := match rhs with
                       | Some (cl, cr) => hset (hset always1 s_content_length cl) s_content_range cr
                       | None => always1
                       end in
        let h3 := if nonempty used then hdel h2 used else h2 in
        if nonempty used && (rs_status rp =? 304) && negb (do_not_cache dirs) then
          (* SetRevalidatedAndClose, then serve from the refreshed entry *)
          let fresh := if str_eqb (hget (rs_hdrs rp) s_content_length) (bytes "0") then hdel (rs_hdrs rp) s_content_length else rs_hdrs rp in
          let '(d2, okc) := close_revalidated c d1 name k (ms_now st) (Some fresh) in
          let st3 := mkState d2 (rt_script out) (ms_now st) in
          if negb okc then mkCf st3 (bare 500) (rt_log out) always2 else
          let h4 := if nonempty client_vh && nonempty client_vv then hset h3 client_vh client_vv else h3 in
          caching_func fuel' c st3 (set_hdrs q1 h4) None (with_status always2 s_revalidated) (Some rule_f) true seen (rt_log out)
        else if nonempty used && (rs_status rp =? 304) then
          (* an uncacheable 304 for rrrouter's own validator: serve the stored entry once, life not extended *)
          let h4 := if nonempty client_vh && nonempty client_vv then hset h3 client_vh client_vv else h3 in
          caching_func fuel' c st2 (set_hdrs q1 h4) None (with_status always2 s_revalidated) (Some rule_f) true seen (rt_log out)
        else
        let q3 := set_hdrs q1 h3 in
        let relay (al : hdrs) : client :=
            mk_client (q_method q) st_over (suffix_etag c (clear_and_copy (rs_hdrs rp) al)) (rs_body rp) in
        if do_not_cache dirs then mkCf st2 (relay (with_status always2 s_uncacheable)) (rt_log out) (with_status always2 s_uncacheable)
        else
        let stale_if_error :=
            reval && (400 <=? rs_status rp) &&
            match old_meta with Some m => can_stale_if_error (get_directives (m_resph m)) age | None => false end in
        if stale_if_error then
          (* SetRevalidateErroredAndClose(true): nothing changes on disk *)
          caching_func fuel' c st2 q3 None (with_status always2 s_stale) (Some rule_f) true seen (rt_log out)
        else
        let always3 := hset (with_status always2 (if should_skip then s_pass else if reval then s_revalidated else s_miss)) s_age (bytes "0") in
        (* redirects answered by the origin *)
        let '(redir_str, early, inner) :=
            match ro_redirect ok with
            | None => (None, None, None)
            | Some loc =>
              let red := parse_url loc in
              if url_eqb red (parse_url (q_url q3))
              then (None, Some (mkCf st2 (mkClient KErrorJson 508 [] [] false) (rt_log out) always3), None)
              else
                let ru := redirected_url (parse_url (q_url q3)) (q_host q3) (parse_url (ro_url ok)) red in
                if r_restart rule_f then
                  if negb (may_follow seen ru) then (None, Some (mkCf st2 loop_detected (rt_log out) always3), None) else
                  (* client writes are disabled: the restarted request answers the client *)
                  let rrq := req_with q3 (u_host ru) ru (q_hdrs q3) [] in
                  (Some (url_string ru), None,
                   Some (caching_func fuel' c st2 rrq (Some (url_string ru)) always3 (Some rule_f) false (follow_key ru :: seen) (rt_log out)))
                else (Some (url_string ru), None, None)
            end in
        match early with
        | Some e => e
        | None =>
          let '(st4, log4) := match inner with
                              | Some i => (cf_state i, cf_log i)
                              | None => (st2, rt_log out)
                              end in
          let inner_cl : option client := match inner with Some i => Some (cf_client i) | None => None end in
          (* what the nested request added to the shared always-include map is kept *)
          let always3 := match inner with Some i => cf_always i | None => always3 end in
          (* Vary: Origin re-keys the entry under the full-origin key *)
          let k' := if vary_by_origin dirs && k_opaque k
                    then match find has_full_origin keys with Some fk => fk | None => k end else k in
          let name' := fs_name (mc_hash c) k' in
          (* statuses the storage never keeps are relayed directly, like should_skip requests *)
          if should_skip || negb (is_cacheable_status (rs_status rp)) then
            match inner_cl with
            | Some icl => mkCf st4 icl log4 always3
            | None => mkCf st4 (relay (with_status always3 s_pass)) log4 (with_status always3 s_pass)
            end
          else
          (* ---- the caching writer ---- *)
          let hc := suffix_etag c (clear_and_copy (rs_hdrs rp) always3) in
          if st_over =? 304 then
            match inner_cl with
            | Some icl => mkCf st4 icl log4 always3
            | None => mkCf st4 (mk_client (q_method q) 304 hc []) log4 always3
            end
          else
          let store_status := if st_over =? 206 then 200 else st_over in
          let store_hdrs :=
              if st_over =? 206 then
                let clr := content_length_from_range (hget hc s_content_range) in
                let cleaned := deny_headers hc [s_content_range] in
                if nonempty clr then hset cleaned s_content_length clr else cleaned
              else hc in
          let body := rs_body rp in
          (* ChangeKey on a refresh: the entry that is being refreshed is renamed to the new key's name first (when
             nothing is there yet), so the shared-key entry is gone whatever becomes of the new body (fix F46: the
             new key's directories are created for that) *)
          let d4 := if negb (str_eqb name' name) && reval then
                      match disk_find (ms_disk st4) name, disk_find (ms_disk st4) name' with
                      | Some e, None => disk_put (disk_del (ms_disk st4) name) name' e
                      | _, _ => ms_disk st4
                      end
                    else ms_disk st4 in
          let opened := is_cacheable_status store_status in
          let invalidated := opened && do_not_cache (get_directives store_hdrs) in
          (* outcome on disk and whether a written file can be served *)
          let '(d5, servable) :=
              if negb opened then
                (* no file: a non-empty body makes Write fail and errCleanup removes sw.path;
                   an empty body reaches Close, which for a revalidating writer marks the old entry revalidated *)
                if nonempty body then (disk_del d4 name', false)
                else if reval then (fst (close_revalidated c d4 name' k' (ms_now st) None), false)
                else (d4, false)
              (* Delete removes the file the writer created: the ".tmp" next to an existing entry, which
                 therefore stays, or the new file itself *)
              else if invalidated then (d4, false)
              else
                let size := Z.of_nat (length body) in
                let sh := stored_headers c store_status store_hdrs in
                if zero_size_rejected k' size store_status then (d4, false)
                else
                  let m := mkMeta (k_host k') (k_path k') (k_stored k') sh store_status
                                  (match redir_str with Some s => s | None => [] end)
                                  (ms_now st) (if reval then ms_now st else 0) size in
                  (disk_put d4 name' (mkEntry (encode_meta m) body), true) in
          let st5 := mkState d5 (ms_script st4) (ms_now st4) in
          match inner_cl with
          | Some icl => mkCf st5 icl log4 always3
          | None =>
            if servable then
              let n := Z.of_nat (length body) in
              match rr with
              | Some r =>
                match send_slice body (rr_start r n) (rr_size r n) with
                | Some b => mkCf st5 (mk_client (q_method q) st_over hc b) log4 always3
                | None => mkCf st5 (mk_client (q_method q) st_over hc []) log4 always3
                end
              | None => mkCf st5 (mk_client (q_method q) st_over hc body) log4 always3
              end
            else
              (* the header went out, the body never did *)
              mkCf st5 (mk_client (q_method q) st_over hc []) log4 always3
          end
        end
      end
    end
  end
  end.
