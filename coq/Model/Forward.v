(* Forwarding: proxy/proxy.go routeRequest, createOutgoingURLs, createOutgoingRequests,
   createProxyRequest, ensureInternalHeaders, performRequest; util/ip.go RequestIP;
   server/server.go preprocessHeaders and the cache-less branch of cachingFunc.
   Definitions only. The model follows the code as it is. *)
From Coq Require Import String.
From Coq Require Import List NArith ZArith Bool.
From Verif Require Import GoStr GoNum GoHeader Tables Route.
Import ListNotations.
Open Scope N_scope.

(* ---------- URLs (the fragment of net/url the model needs; see DESIGN 10.7) ---------- *)

(* cut s at the first byte c: (before, Some after) or (s, None) *)
Definition cut_at (s : str) (c : N) : str * option str :=
  match index_byte s c with
  | Some i => (firstn i s, Some (skipn (S i) s))
  | None => (s, None)
  end.

(* createOutgoingURLs: url.Parse(target); RawQuery := q; Fragment := ""; String() *)
Definition out_url (target q : str) : str :=
  let (nofrag, _) := cut_at target 35 in
  let (base, qpart) := cut_at nofrag 63 in
  let force := match qpart with Some [] => true | _ => false end in
  base ++ (if force || nonempty q then 63 :: q else []).

Definition s_css : str := [58; 47; 47].   (* "://" *)

Fixpoint take_until (s : str) (stop : str) : str :=
  match s with
  | [] => []
  | c :: s' => if mem_byte c stop then [] else c :: take_until s' stop
  end.

(* scheme and authority of an absolute URL: scheme "://" authority [ "/" | "?" | "#" ] ... *)
Definition split_abs (u : str) : option (str * str * str) :=
  match index u s_css with
  | Some i => let rest := skipn (i + 3) u in
              let auth := take_until rest [47; 63; 35] in
              Some (firstn i u, auth, skipn (length auth) rest)
  | None => None
  end.

(* URL.Host: authority without userinfo *)
Definition url_host (u : str) : str :=
  match split_abs u with
  | Some (_, auth, _) => match last_index_byte auth 64 with
                         | Some i => skipn (S i) auth
                         | None => auth
                         end
  | None => []
  end.

(* ---------- requests, responses, the scripted performer ---------- *)

Record req := mkReq {
  q_method : str;
  q_host : str;          (* Host header as received *)
  q_tls : bool;
  q_uri : str;           (* request-URI after Go's URL normalisation *)
  q_query : str;         (* raw query, verbatim *)
  q_url : str;           (* req.URL.String(): relative for client requests, absolute for restarted ones *)
  q_hdrs : hdrs;         (* canonical keys, Host removed *)
  q_body : str;
  q_remote_ip : str;
  q_uuid : str;          (* the next minted request id *)
  q_badhosts : list str  (* hosts net/url refuses to parse (oracle computed by the harness with net/url alone) *)
}.

Record resp := mkResp { rs_status : Z; rs_hdrs : hdrs; rs_body : str }.

Inductive behaviour := BResp (r : resp) | BErr.
Definition script := list (str * list behaviour).   (* URL host -> answers, the last one repeats *)

Fixpoint script_pop (sc : script) (h : str) : script * behaviour :=
  match sc with
  | [] => ([], BErr)
  | (h', bs) :: sc' =>
    if str_eqb h' h then
      match bs with
      | [] => (sc, BErr)
      | [b] => (sc, b)
      | b :: bs' => ((h', bs') :: sc', b)
      end
    else let (sc'', b) := script_pop sc' h in ((h', bs) :: sc'', b)
  end.

Record dlv := mkDlv { d_url : str; d_host : str; d_method : str; d_hdrs : hdrs; d_body : str }.

Record cfg := mkCfg { c_secrets : option (list str); c_retries : nat }.

(* ---------- util.RequestIP ---------- *)

Definition s_cfip : str := bytes "cf-connecting-ip"%string.
Definition s_xrealip : str := bytes "X-Real-Ip"%string.
Definition s_xff : str := bytes "X-Forwarded-For"%string.

Definition request_ip (h : hdrs) (remote : str) : str :=
  let cf := hget h s_cfip in
  if nonempty cf then cf else
  let real := trim_space (hget h s_xrealip) in
  if nonempty real then drop_port real else
  let xff := hget h s_xff in
  let xff1 := trim_space (fst (cut_at xff 44)) in
  if nonempty xff1 then drop_port xff1 else
  drop_port remote.

(* ---------- ensureInternalHeaders ---------- *)

Inductive ei_result := EiOk (h : hdrs) | Ei407 | EiPanic.   (* EiPanic: secrets[0] on an empty non-nil list *)

Definition ensure_internal (h : hdrs) (pass : bool) (secrets : list str)
           (ip : str) (uuid : str) : ei_result :=
  let old_secret := hget h hdr_secret in
  if nonempty old_secret && negb (str_in secrets old_secret) then Ei407 else
  if pass then
    let old_id := hget h hdr_req_id in
    let old_ip := hget h hdr_orig_ip in
    if nonempty old_secret then
      let h1 := if nonempty old_id then h else hset h hdr_req_id uuid in
      if nonempty old_ip then EiOk h1 else EiOk (hset h1 hdr_orig_ip ip)
    else if nonempty old_id || nonempty old_ip then Ei407
    else match secrets with
         | s0 :: _ => EiOk (hset (hset (hset h hdr_req_id uuid) hdr_orig_ip ip) hdr_secret s0)
         | [] => EiPanic
         end
  else EiOk (hdel (hdel (hdel h hdr_secret) hdr_req_id) hdr_orig_ip).

(* filterHeader *)
Definition filter_header (h : hdrs) (names : list str) : hdrs := fold_left hdel names h.

Inductive preq_result := PqOk (d : dlv) | Pq407 | PqPanic.

(* createProxyRequest; the body is filled in later *)
Definition create_proxy_request (c : cfg) (q : req) (internal : bool) (hh : hostmode) (url : str) : preq_result :=
  let h := filter_header (q_hdrs q) hop_by_hop in
  let host := match hh with
              | HDefault | HDestination => url_host url
              | HOriginal => q_host q
              | HOverride s => s
              end in
  let r := match c_secrets c with
           | None => ensure_internal h false [] (request_ip (q_hdrs q) (q_remote_ip q)) (q_uuid q)
           | Some ss => ensure_internal h internal ss (request_ip (q_hdrs q) (q_remote_ip q)) (q_uuid q)
           end in
  match r with
  | EiOk h' => PqOk (mkDlv url host (q_method q) h' [])
  | Ei407 => Pq407
  | EiPanic => PqPanic
  end.

(* ---------- performRequest ---------- *)

Definition s_POST : str := bytes "POST"%string.
Definition retryable (m : str) : bool := negb (str_eqb m s_POST).

(* The scripted origin is a little realistic: it answers 304 only to a conditional request;
   an unconditional one gets a small complete 200 instead. *)
Definition s_unconditional : str := bytes "unconditional"%string.
Definition s_echo_url : str := bytes "@echo-url"%string.
Definition echo_body (u : str) : str := bytes "generated for "%string ++ u.
Definition s_echo_origin : str := bytes "@echo-origin"%string.
Definition echo_origin_body (o : str) : str := bytes "generated for origin "%string ++ o.

Definition origin_answer (d : dlv) (b : behaviour) : behaviour :=
  match b with
  | BResp r =>
    if Z.eqb (rs_status r) 304
       && negb (nonempty (hget (d_hdrs d) (bytes "If-None-Match"%string)))
       && negb (nonempty (hget (d_hdrs d) (bytes "If-Modified-Since"%string)))
    then BResp (mkResp 200 [(bytes "Content-Type"%string, [bytes "text/plain"%string]); (bytes "Content-Length"%string, [bytes "13"%string])] s_unconditional)
    else if str_eqb (rs_body r) s_echo_origin
    then BResp (mkResp (rs_status r) (rs_hdrs r) (echo_origin_body (hget (d_hdrs d) (bytes "Origin"%string))))
    else if str_eqb (rs_body r) s_echo_url
    then BResp (mkResp (rs_status r) (rs_hdrs r) (echo_body (d_url d)))   (* a resource whose content names the URL asked for *)
    else b
  | BErr => b
  end.

(* n further attempts after a failure *)
Fixpoint perform_loop (n : nat) (sc : script) (d : dlv) (log : list dlv) : script * list dlv * option resp :=
  let (sc', b0) := script_pop sc (url_host (d_url d)) in
  let b := origin_answer d b0 in
  match b with
  | BResp r => (sc', log ++ [d], Some r)
  | BErr => match n with
            | O => (sc', log ++ [d], None)
            | S n' => perform_loop n' sc' d (log ++ [d])
            end
  end.

(* performRequest: d carries the body it will send on every attempt *)
Definition perform_request (c : cfg) (sc : script) (d : dlv) (retry_allowed : bool) (log : list dlv) :=
  if retryable (d_method d) && retry_allowed then perform_loop (c_retries c) sc d log
  else perform_loop 0 sc d log.

(* ---------- routeRequest ---------- *)

Inductive route_err := E404 | E407 | E502 | E500 | EPanic | EOutOfFuel.

Record route_ok := mkRouteOk {
  ro_resp : resp;
  ro_rule : rule;               (* requestsResult.rule: the rule whose flavours are final *)
  ro_url : str;                 (* mainRequest.URL *)
  ro_redirect : option str      (* Location when the status is a redirect *)
}.

Definition is_redirect (s : Z) : bool := existsb (Z.eqb s) redirect_statuses.
Definition is_4xx (s : Z) : bool := (retry_4xx_lo <=? s)%Z && (s <=? retry_4xx_hi)%Z.
Definition s_location : str := bytes "location"%string.

Record route_out := mkRouteOut { rt_script : script; rt_log : list dlv; rt_res : route_ok + route_err }.

Definition with_body (d : dlv) (b : str) : dlv :=
  mkDlv (d_url d) (d_host d) (d_method d) (d_hdrs d) b.

(* body : the bytes still unread in the client's request body (consumed = []) *)
Fixpoint route_request (fuel : nat) (c : cfg) (rs : list rule) (q : req) (body : str)
         (override_url : option str) (fallback : option rule) (sc : script) (log : list dlv) : route_out :=
  match fuel with
  | O => mkRouteOut sc log (inr EOutOfFuel)
  | S fuel' =>
  let host := drop_port (q_host q) in
  if str_in (q_badhosts q) host then mkRouteOut sc log (inr E500) else
  let scheme := req_scheme (q_tls q) (hget (q_hdrs q) (bytes "X-Forwarded-Proto"%string)) in
  let '(pm, cm) := rules_match rs scheme host (q_uri q) (q_method q) in
  let rule := match pm with Some (_, r, _) => Some r | None => fallback end in
  let main := match rule with
              | None => inl None
              | Some r =>
                let u := match override_url with
                         | Some o => o
                         | None => match pm with
                                   | Some (_, _, t) => out_url t (q_query q)
                                   | None => q_url q
                                   end
                         end in
                match create_proxy_request c q (r_internal r) (r_hosthdr r) u with
                | PqOk d => inl (Some (r, d))
                | Pq407 => inr E407
                | PqPanic => inr EPanic
                end
              end in
  match main with
  | inr e => mkRouteOut sc log (inr e)
  | inl main =>
  let copy := match cm with
              | None => inl None
              | Some (_, r, t) =>
                match create_proxy_request c q (r_internal r) (r_hosthdr r) (out_url t (q_query q)) with
                | PqOk d => inl (Some d)
                | Pq407 => inr E407
                | PqPanic => inr EPanic
                end
              end in
  match copy with
  | inr e => mkRouteOut sc log (inr e)
  | inl copy =>
  let retry_rule := match main with Some (r, _) => r_retry r | None => None end in
  let retry_allowed := match retry_rule with None => true | Some _ => false end in
  (* copy first; its outcome is only logged *)
  let '(sc1, log1) :=
      match copy with
      | None => (sc, log)
      | Some d => let '(s', l', _) := perform_request c sc (with_body d body) retry_allowed log in (s', l')
      end in
  (* the body is buffered whenever two requests are built (two = true), so each reader sees all of it *)
  match main with
  | None => mkRouteOut sc1 log1 (inr E404)
  | Some (r, d) =>
    let '(sc2, log2, res) := perform_request c sc1 (with_body d body) retry_allowed log1 in
    let redirect := match res with
                    | Some rp => if is_redirect (rs_status rp) then Some (hget (rs_hdrs rp) s_location) else None
                    | None => None
                    end in
    let fall := match retry_rule, res with
                | Some rr, None => Some rr
                | Some rr, Some rp => if is_4xx (rs_status rp) then Some rr else None
                | None, _ => None
                end in
    match fall with
    | Some rr =>
      (* a retry rule implies buffering, and req.Body is re-armed with the buffered bytes *)
      route_request fuel' c [rr] q body None None sc2 log2
    | None =>
      match res with
      | None => mkRouteOut sc2 log2 (inr E502)
      | Some rp => mkRouteOut sc2 log2 (inl (mkRouteOk rp r (d_url d) redirect))
      end
    end
  end end end end.
