(* Property monitors over (case, projected observation): the boolean spec
   checkers applied to what the implementation actually did. *)
From Coq Require Import String.
From Coq Require Import List NArith ZArith Bool.
From Verif Require Import GoStr GoNum GoHeader Sx Tables Route Forward Serve Wire Unit SpecC01 SpecC02 SpecC03 SpecC04 SpecC06 SpecC10 SpecC15 Range Recompress Meta Fresh Key.
Import ListNotations.
Open Scope N_scope.

Definition verdict (ok : bool) (clause : string) : sx := L [of_bool ok; A (bytes clause)].
Definition v_ok : sx := verdict true "".

(* all rules reachable through retry_rule *)
Fixpoint rule_closure (fuel : nat) (r : rule) : list rule :=
  r :: match fuel, r_retry r with
       | S f, Some rr => rule_closure f rr
       | _, _ => []
       end.
Definition rules_closure (rs : list rule) : list rule := flat_map (rule_closure 4) rs.

Definition rule_for_url (rs : list rule) (u : str) : option rule :=
  find (fun r => str_eqb (url_host (r_dest r)) (url_host u)) (rules_closure rs).

Definition obs_client (o : sx) := sx_nth 0 o.
Definition obs_status (o : sx) : Z := sx_int (sx_nth 1 (obs_client o)).
Definition obs_kind (o : sx) : str := sx_str (sx_nth 0 (obs_client o)).
Definition obs_log (o : sx) : list sx := sx_list (sx_nth 1 o).
Definition dl_url (d : sx) := sx_str (sx_nth 0 d).
Definition dl_host (d : sx) := sx_str (sx_nth 1 d).
Definition dl_method (d : sx) := sx_str (sx_nth 2 d).
Definition dl_hdrs (d : sx) := dec_enc_hdrs (sx_nth 3 d).
Definition dl_body (d : sx) := sx_str (sx_nth 4 d).

Fixpoint first_fail (l : list sx) : sx :=
  match l with
  | [] => v_ok
  | v :: l' => if sx_bool (sx_nth 0 v) then first_fail l' else v
  end.

Definition req_scheme_of (q : req) : str :=
  req_scheme (q_tls q) (hget (q_hdrs q) (bytes "X-Forwarded-Proto")).

(* ---- C04 ---- *)
Definition mon_C04 (x o : sx) : sx :=
  let '(c, rs, q, sc) := route_case x in
  let secrets := match c_secrets c with Some ss => ss | None => [] end in
  let configured := match c_secrets c with Some _ => true | None => false end in
  let h := q_hdrs q in
  let unknown := nonempty (hget h hdr_secret) && negb (str_in secrets (hget h hdr_secret)) in
  let per_dlv d :=
      match rule_for_url rs (dl_url d) with
      | None => verdict false "delivery to a destination no rule names"
      | Some r =>
        let internal := r_internal r && configured in
        if must_deny h internal secrets then verdict false "a request that must be denied reached a destination"
        else if delivered_ok_b h internal secrets (dl_hdrs d) then v_ok
        else if internal then verdict false "internal destination: secret/id/ip not as required"
        else verdict false "external destination received a Richie-* header"
      end in
  (* the routes the request takes at top level: the selected proxy rule and the copy rule before it *)
  let '(pm, cm) := rules_match rs (req_scheme_of q) (drop_port (q_host q)) (q_uri q) (q_method q) in
  let route_internal (m : option rmatch) := match m with Some (_, r, _) => r_internal r && configured | None => false end in
  let deny_due := match pm with
                  | Some _ => must_deny h (route_internal pm) secrets || (route_internal cm && must_deny h true secrets)
                  | None => false
                  end in
  first_fail
    ((if deny_due && negb (match obs_log o with [] => true | _ => false end)
      then verdict false "a request that must be denied on its proxy or copy route (internal, id/IP without a secret, or unknown secret) reached a destination" else v_ok)
     :: (if unknown && negb (Z.eqb (obs_status o) 407) && negb (Z.eqb (obs_status o) 404)
      then verdict false "unknown secret not answered 407" else v_ok)
     (* with a retry_rule whose internal flag differs from its parent's, the parent destination may
        legitimately have been contacted before the fallback route denies the request *)
     :: (if Z.eqb (obs_status o) 407 && negb (match obs_log o with [] => true | _ => false end)
            && negb (existsb (fun r => match r_retry r with Some _ => true | None => false end) rs)
         then verdict false "407 but a destination was contacted" else v_ok)
     :: (if Z.eqb (obs_status o) 407 && negb unknown
            && negb (negb (nonempty (hget h hdr_secret)) && (nonempty (hget h hdr_req_id) || nonempty (hget h hdr_orig_ip))
                     && configured && existsb r_internal (rules_closure rs))
         then verdict false "407 without cause" else v_ok)
     :: map per_dlv (obs_log o)).

(* ---- C01 ---- *)
Fixpoint index_where {X} (f : X -> bool) (l : list X) (i : nat) : option nat :=
  match l with
  | [] => None
  | x :: l' => if f x then Some i else index_where f l' (S i)
  end.

(* the top-level proxy rule a delivery went to, by destination host *)
Definition proxy_choice (rs : list rule) (log : list sx) : option nat :=
  index_where (fun r => is_proxy r && existsb (fun d => str_eqb (url_host (r_dest r)) (url_host (dl_url d))) log) rs 0.


Definition mon_C01 (x o : sx) : sx :=
  let '(c, rs, q, sc) := route_case x in
  let choice := proxy_choice rs (obs_log o) in
  if str_eqb (obs_kind o) (bytes "recovered") || str_eqb (obs_kind o) (bytes "bare") then v_ok (* malformed request data: C05's business *)
  else if negb (choice_ok rs (req_scheme_of q) (q_host q) (q_uri q) (q_method q) choice)
  then verdict false "the request was not served by the first matching enabled rule"
  else match choice with
       | None => if Z.eqb (obs_status o) 404 || Z.eqb (obs_status o) 407 then v_ok
                 else verdict false "no proxy rule served the request but the answer is not 404"
       | Some _ => if Z.eqb (obs_status o) 404 && str_eqb (obs_kind o) (bytes "error-json")
                   then verdict false "a proxy rule was contacted but the client got rrrouter's 404" else v_ok
       end.

(* ---- C02 ---- *)
Definition c02_check (rs : list rule) (q : req) (log : list sx) : sx :=
  let per_dlv d :=
      match rule_for_url rs (dl_url d) with
      | None => verdict false "delivery to a destination no rule names"
      | Some r =>
        if negb (str_eqb (dl_url d) (expected_url (r_dest r) (r_path r) (q_uri q) (q_query q)))
        then verdict false "requested URL is not destination + capture + client query"
        else if dest_wellformed (r_dest r) && negb (same_origin (r_dest r) (dl_url d))
        then verdict false "scheme/host/port contacted differ from the rule's"
        else if nonempty (q_query q) && negb (match url_query (dl_url d) with Some qq => str_eqb qq (q_query q) | None => false end)
        then verdict false "query string not carried over verbatim"
        else v_ok
      end in
  first_fail (map per_dlv log).

Definition mon_C02 (x o : sx) : sx :=
  let '(c, rs, q, sc) := route_case x in c02_check rs q (obs_log o).

(* ---- C03 ---- *)
Definition flavour_overrides (rs : list rule) (q : req) : list (str * option str) :=
  match fst (rules_match rs (req_scheme_of q) (drop_port (q_host q)) (q_uri q) (q_method q)) with
  | Some (_, r, _) => r_req_hdrs r
  | None => []
  end.

Definition c03_check (rs : list rule) (q : req) (log : list sx) : sx :=
  let expected := expected_hdrs (q_hdrs q) (flavour_overrides rs q) in
  let per_dlv d :=
      match rule_for_url rs (dl_url d) with
      | None => verdict false "delivery to a destination no rule names"
      | Some r =>
        if negb (str_eqb (dl_method d) (q_method q)) then verdict false "method changed"
        else if negb (str_eqb (dl_body d) (q_body q)) then verdict false "request body not delivered intact"
        else if negb (hdrs_intact expected (dl_hdrs d)) then verdict false "client headers changed, lost or added"
        else if existsb (fun k => hhas (dl_hdrs d) k) hop_by_hop then verdict false "hop-by-hop header forwarded"
        else if negb (str_eqb (dl_host d) (expected_host (r_hosthdr r) (q_host q) (dl_url d)))
        then verdict false "Host does not follow the rule's hostheader setting"
        else v_ok
      end in
  first_fail (map per_dlv log).

Definition mon_C03 (x o : sx) : sx :=
  let '(c, rs, q, sc) := route_case x in c03_check rs q (obs_log o).

(* ---- C20 ---- *)
(* the copy rule the property designates: the first copy-typed rule before the chosen proxy
   rule that applies; tri-valued like C01 *)
Fixpoint copy_choice_ok (i : nat) (rs : list rule) (scheme hosthdr uri m : str) (proxy_idx : nat) (copy_idx : option nat) : bool :=
  match rs with
  | [] => match copy_idx with None => true | Some _ => false end
  | r :: rs' =>
    if Nat.leb proxy_idx i then match copy_idx with None => true | Some c => false end
    else if is_proxy r then copy_choice_ok (S i) rs' scheme hosthdr uri m proxy_idx copy_idx
    else match copy_idx with
         | Some c => if Nat.eqb c i then negb (tri_is (applies r scheme hosthdr uri m) MustNot)
                     else negb (tri_is (applies r scheme hosthdr uri m) Must)
                          && copy_choice_ok (S i) rs' scheme hosthdr uri m proxy_idx copy_idx
         | None => negb (tri_is (applies r scheme hosthdr uri m) Must)
                   && copy_choice_ok (S i) rs' scheme hosthdr uri m proxy_idx copy_idx
         end
  end.

Definition copy_choice (rs : list rule) (log : list sx) : option nat :=
  index_where (fun r => negb (is_proxy r) && existsb (fun d => str_eqb (url_host (r_dest r)) (url_host (dl_url d))) log) rs 0.

Definition is_proxy_dlv (rs : list rule) (d : sx) : bool :=
  match rule_for_url rs (dl_url d) with Some r => is_proxy r | None => true end.

Definition mon_C20 (x o : sx) : sx :=
  let '(c, rs, q, sc) := route_case x in
  let configured := match c_secrets c with Some _ => true | None => false end in
  let base := sx_nth 0 o in
  let variants := tl (sx_list o) in
  let expected := expected_hdrs (q_hdrs q) (flavour_overrides rs q) in
  let per_variant v :=
      let denied := Z.eqb (obs_status v) 407 && configured && existsb (fun r => negb (is_proxy r) && r_internal r) rs in
      if negb (sx_eqb (obs_client v) (obs_client base)) && negb denied
      then verdict false "client response differs with the copy rule present"
      else if negb denied && negb (sx_eqb (L (filter (is_proxy_dlv rs) (obs_log v))) (L (filter (is_proxy_dlv rs) (obs_log base))))
      then verdict false "proxied deliveries differ with the copy rule present"
      else if denied then v_ok
      else match proxy_choice rs (obs_log v) with
      | None => v_ok   (* no proxy rule selected: the property designates no copy rule *)
      | Some pi =>
        if negb (copy_choice_ok 0 rs (req_scheme_of q) (q_host q) (q_uri q) (q_method q) pi (copy_choice rs (obs_log v)))
        then verdict false "copy went to a rule other than the first matching copy rule before the proxy rule"
        else first_fail (map (fun d =>
               match rule_for_url rs (dl_url d) with
               | Some r =>
                 if is_proxy r then v_ok
                 else if negb (str_eqb (dl_url d) (expected_url (r_dest r) (r_path r) (q_uri q) (q_query q))) then verdict false "copy URL is not the copy rule's mapping"
                 else if negb (str_eqb (dl_method d) (q_method q)) then verdict false "copy method differs"
                 else if negb (str_eqb (dl_body d) (q_body q)) then verdict false "copy body differs"
                 else if negb (hdrs_intact expected (dl_hdrs d)) then verdict false "copy headers differ"
                 else v_ok
               | None => verdict false "delivery to a destination no rule names"
               end) (obs_log v))
      end in
  first_fail (map per_variant variants).

(* ================= unit-level monitors ================= *)
Definition verdict_kf (ok : bool) (clause : string) (finding : string) : sx := L [of_bool ok; A (bytes clause); A (bytes finding)].
Definition unit_fn (x : sx) : str := sx_str (sx_nth 1 x).
Definition unit_arg (x : sx) (n : nat) : sx := sx_nth (2 + n) x.

(* a verdict tagged with the index of the operation it is about *)
Definition at_request (v : sx) (i : nat) : sx :=
  match v with
  | L [a; b] => L [a; b; A []; of_nat i]
  | L [a; b; c] => L [a; b; c; of_nat i]
  | _ => v
  end.


(* ---- C15 (unit): the range decision and arithmetic over a resource of the given length ---- *)
Definition parse_cr_value (s : str) : option (Z * Z * Z) :=
  (* "bytes f-l/n" *)
  if negb (has_prefix s (bytes "bytes ")) then None else
  match split (skipn 6 s) [47%N] with
  | [fl; n] =>
    match parse_int n with
    | Some nv =>
      (* f may be negative in broken answers: split at the last '-' that is not the leading sign *)
      match last_index_byte fl 45%N with
      | Some i => match parse_int (firstn i fl), parse_int (skipn (S i) fl) with
                  | Some f, Some l => Some (f, l, nv)
                  | _, _ => None
                  end
      | None => None
      end
    | None => None
    end
  | _ => None
  end.

Definition kf_C15 (r : option brange) (n : Z) : string := "".   (* F13 is repaired (fix: dd0b389): nothing is excused *)

Definition mon_C15_unit (x o : sx) : sx :=
  let hdr := sx_str (unit_arg x 0) in
  let n := sx_int (unit_arg x 1) in
  let st0 := sx_int (unit_arg x 2) in
  if negb (Z.eqb st0 200) || (n <? 0)%Z || (4096 <? n)%Z then v_ok else
  let resource := map (fun i => N.of_nat i mod 251)%N (seq 0 (Z.to_nat n)) in
  let st := sx_int (sx_nth 3 o) in
  let recognised := sx_bool (sx_nth 0 o) in
  let seek := sx_int (sx_nth 6 o) in
  let size := sx_int (sx_nth 7 o) in
  (* the slice is taken only when a 206 was announced; otherwise the whole resource is sent *)
  let body := if recognised && Z.eqb st 206 then send_slice resource seek size else Some resource in
  let spec_r := spec_parse_range hdr in
  let kf := kf_C15 spec_r n in
  match body with
  | None => verdict_kf false "the body cannot be sent: seek to a negative offset after the header is out" kf
  | Some b =>
    let a := mkAnswer st (parse_int (sx_str (sx_nth 4 o))) (parse_cr_value (sx_str (sx_nth 5 o))) b in
    match spec_r with
    | Some r => if answer_ok r resource a then v_ok
                else verdict_kf false "answer is neither the exact 206, nor the complete 200, nor a justified 416" kf
    | None =>
      (* not a single well-formed range: complete 200, or any self-consistent slice *)
      if Z.eqb st 200 && str_eqb b resource then v_ok
      else if Z.eqb st 206 then
        match an_cr a, an_cl a with
        | Some (f, l, n'), Some cl =>
          if (0 <=? f)%Z && (f <=? l)%Z && (l <? n)%Z && Z.eqb n' n && Z.eqb cl (l - f + 1) && str_eqb b (slice resource f l) then v_ok
          else verdict_kf false "206 for a malformed Range is not self-consistent" kf
        | _, _ => verdict_kf false "206 without Content-Range/Content-Length" kf
        end
      else if Z.eqb st 416 then v_ok
      else verdict_kf false "malformed Range answered with neither 200, 206 nor 416" kf
    end
  end.

(* ---- C06 (unit): the decision table ---- *)
Definition dec_ctype (x : sx) : ctype := let z := sx_int x in if Z.eqb z 1 then CGzip else if Z.eqb z 2 then CBrotli else CNone.

Definition kf_C06 (ae ce : str) : string := "".   (* F4 is repaired (fix: bd9ea81): nothing is excused *)

Definition mon_C06_unit (x o : sx) : sx :=
  let ae := sx_str (unit_arg x 0) in
  let ce := sx_str (unit_arg x 1) in
  let ad := dec_ctype (sx_nth 0 o) in
  let rm := dec_ctype (sx_nth 1 o) in
  if negb (content_preserved ce ad rm)
  then verdict_kf false "decoding the delivered body by the delivered Content-Encoding does not give the origin's content" (kf_C06 ae ce)
  else if negb (encoding_allowed ae ce ad rm)
  then verdict_kf false "delivered encoding is neither the origin's nor one the client listed" (kf_C06 ae ce)
  else v_ok.

(* ---- C07 (unit): decode (encode m) = m ---- *)

Definition has_any (s bad : str) : bool := existsb (fun c => mem_byte c bad) s.
Definition meta_delims : str := [124; 91; 93; 123; 125]%N.   (* | [ ] { } *)

(* region of F6: delimiter bytes where the decoder looks (several values per name are kept since fix F6-multi-valued) *)
Definition kf_C07 (m : meta) : string :=
  if has_any (m_host m) [124%N] || has_any (m_path m) [124%N] || has_any (m_redirect m) [124%N]
          || existsb (fun kv => has_any (fst kv) (58%N :: meta_delims) || existsb (fun v => has_any v meta_delims) (snd kv)) (m_reqh m ++ m_resph m)
  then "F6-delimiters" else "".

Definition meta_eqb (a b : meta) : bool := sx_eqb (enc_meta a) (enc_meta b).

Definition mon_C07_unit (x o : sx) : sx :=
  if str_eqb (unit_fn x) (bytes "meta-enc") then
    let m := dec_meta (unit_arg x 0) in
    match decode_meta (sx_str o) with
    | Some m' => if meta_eqb m m' then v_ok else verdict_kf false "decoded metadata differs from what was stored" (kf_C07 m)
    | None => verdict_kf false "stored metadata cannot be decoded (the entry can never be a hit)" (kf_C07 m)
    end
  else v_ok.

(* ---- the "aecache" family (C06): recompression together with the cache, clients with different Accept-Encoding ---- *)
(* case = L [A "aecache"; recomp; A ce; A ct; A cc; A content; L [A ae ...]]   ("-" = no Accept-Encoding header)
   observation = L [ L [I status; A delivered Content-Encoding; A decoded body; A edge-cache status; I origin requests] ... ] *)
Definition ae_value (ae : str) : str := if str_eqb ae [45%N] then [] else ae.

(* the encoding requestHandler delivers (proxy.go canTransform + util.GetRecompression, as in Serve.recompress_hdrs) *)
Definition ae_delivered (recomp : bool) (ae ce ct cc : str) : str :=
  if recomp && can_transform cc then
    let '(add, remove) := get_recompression ae ce ct in
    match add with
    | CNone => match remove with CGzip => [] | _ => ce end
    | _ => enc_name add
    end
  else ce.

Definition s_enc_part : str := bytes "<part of the encoded entry>".
Definition s_enc_slice : sx := L [A (bytes "a-consistent-part-of-the-encoded-entry")].
Definition ae_obs (status : Z) (d body edge : str) (n span cl : Z) : sx := L [I status; A d; A body; A edge; I n; I span; I cl].

(* a Range request answered from an identity body of known length (setRangedHeaders + sendBody, as in Cache.serve_found) *)
Definition ae_ranged (content : str) (rr : option rrange) (edge : str) (norigin : Z) : sx :=
  let n := Z.of_nat (length content) in
  let '(st, hs, rr') := set_ranged_headers rr n 200 in
  match rr', Z.eqb st 206 with
  | Some r, true =>
    match send_slice content (rr_start r n) (rr_size r n) with
    | Some b => ae_obs 206 [] b edge norigin (rr_size r n) (rr_size r n)
    | None => ae_obs 206 [] [] edge norigin (rr_size r n) (rr_size r n)
    end
  | _, _ => ae_obs st [] content edge norigin (-1) (-1)
  end.

(* the cache keeps one entry per Accept-Encoding value (it is a key header), holding what was delivered to the
   client that filled it; a later request with the same value is a hit on exactly that. A Range is honoured on a
   fill only when the body is stored as the origin sent it (fix F41); on a hit it is cut out of the stored
   representation - for a recompressed entry that is a part of the encoded bytes, whose length the model does not know *)
Fixpoint run_ae (recomp : bool) (ce ct cc content : str) (aes rngs : list str) (seen : list (str * str)) : list sx :=
  match aes with
  | [] => []
  | ae :: rest =>
    let rg := hd [] rngs in
    let rr := if nonempty rg then get_range rg else None in
    match find (fun p => str_eqb (fst p) ae) seen with
    | Some (_, d) =>
      (match rr with
       | Some _ => if nonempty d then s_enc_slice else ae_ranged content rr (bytes "hit") 0
       | None => ae_obs 200 d content (bytes "hit") 0 (-1) (-1)
       end) :: run_ae recomp ce ct cc content rest (tl rngs) seen
    | None =>
      let d := ae_delivered recomp (ae_value ae) ce ct cc in
      (match rr with
       | Some _ =>
         (* the range is cut out of the body as the origin sent it - identity bytes, or a part of its encoded bytes -
            unless the body is recompressed (added or removed coding): then the complete response is sent *)
         if str_eqb d ce then (if nonempty ce then s_enc_slice else ae_ranged content rr (bytes "miss") 1)
         else ae_obs 200 d content (bytes "miss") 1 (-1) (-1)
       | None => ae_obs 200 d content (bytes "miss") 1 (-1) (-1)
       end) :: run_ae recomp ce ct cc content rest (tl rngs) ((ae, d) :: seen)
    end
  end.

Definition run_aecache (x : sx) : sx :=
  L (run_ae (sx_bool (sx_nth 1 x)) (sx_str (sx_nth 2 x)) (sx_str (sx_nth 3 x)) (sx_str (sx_nth 4 x)) (sx_str (sx_nth 5 x))
            (to_strs (sx_nth 6 x)) (to_strs (sx_nth 7 x)) []).

(* a partial answer cut out of an encoded entry is compared only as far as it can be known: that it is a hit and
   that its Content-Range span, its Content-Length and the bytes received agree (or that it is a 416) *)
Definition ae_consistent_part (o : sx) : bool :=
  let st := sx_int (sx_nth 0 o) in
  (nonempty (sx_str (sx_nth 1 o)) && Z.eqb st 206 && str_eqb (sx_str (sx_nth 2 o)) s_enc_part
   && (0 <=? sx_int (sx_nth 5 o))%Z && Z.eqb (sx_int (sx_nth 5 o)) (sx_int (sx_nth 6 o)))
  || Z.eqb st 416.   (* the named range lies outside the encoded entry *)

Definition proj_aecache (x o : sx) : sx :=
  L (map (fun p => if nonempty (fst p) && ae_consistent_part (snd p) then s_enc_slice else snd p)
         (combine (to_strs (sx_nth 7 x)) (sx_list o))).

Definition ae_fail (i : nat) (c : string) : sx := L [of_bool false; A (bytes c); A []; I (Z.of_nat i)].

Fixpoint mon_ae (ce content : str) (aes rngs : list str) (obs : list sx) (i : nat) : sx :=
  match aes, obs with
  | ae :: aes', o :: obs' =>
    let d := sx_str (sx_nth 1 o) in
    let st := sx_int (sx_nth 0 o) in
    let rg := hd [] rngs in
    if negb (str_eqb d ce || str_eqb d [] || contains (to_lower (ae_value ae)) (to_lower d))
    then ae_fail i "the delivered encoding is neither the origin's own nor one the client listed"
    else if Z.eqb st 200 then
      (if negb (str_eqb (sx_str (sx_nth 2 o)) content) then ae_fail i "the content the client decodes is not the origin's content"
       else mon_ae ce content aes' (tl rngs) obs' (S i))
    else if Z.eqb st 206 then
      (if negb (nonempty rg) then ae_fail i "a partial response to a request that named no range"
       else if negb ((0 <=? sx_int (sx_nth 5 o))%Z && Z.eqb (sx_int (sx_nth 5 o)) (sx_int (sx_nth 6 o)))
       then ae_fail i "a partial response whose Content-Range and Content-Length do not agree"
       else if nonempty d then
         (if str_eqb (sx_str (sx_nth 2 o)) s_enc_part then mon_ae ce content aes' (tl rngs) obs' (S i)
          else ae_fail i "a partial response that was cut short of its declared length")
       else if negb (sx_eqb (sx_nth 2 (ae_ranged content (get_range rg) [] 0)) (sx_nth 2 o))
       then ae_fail i "the bytes of a partial response are not the bytes the client named"
       else mon_ae ce content aes' (tl rngs) obs' (S i))
    else mon_ae ce content aes' (tl rngs) obs' (S i)
  | _, _ => v_ok
  end.

Definition mon_C06_ae (x o : sx) : sx :=
  mon_ae (sx_str (sx_nth 2 x)) (sx_str (sx_nth 5 x)) (to_strs (sx_nth 6 x)) (to_strs (sx_nth 7 x)) (sx_list o) 0.

(* ---- C10 (unit): directives that forbid caching are recognised ---- *)
Definition kf_C10 (values : list str) : string := "".   (* F20 is repaired (fix: b83a9fe): nothing is excused *)

Definition mon_C10_unit (x o : sx) : sx :=
  let h := dec_enc_hdrs (unit_arg x 0) in
  let values := hvalues h (bytes "cache-control") in
  let dnc := sx_bool (sx_nth 8 o) in
  match header_verdict values with
  | Forbid => if dnc then v_ok else verdict_kf false "a directive that forbids caching was not recognised" (kf_C10 values)
  | _ => v_ok
  end.

(* ---- C11 (unit): two requests share an entry name only if they are the same resource ---- *)
Definition strs_eqb (a b : list str) : bool := sx_eqb (of_strs a) (of_strs b).

Definition same_resource (with_origin_value : bool) (m1 h1 u1 : str) (hd1 : hdrs) (m2 h2 u2 : str) (hd2 : hdrs) : bool :=
  let cls m := if str_eqb m (bytes "GET") then [] else m in
  str_eqb (cls m1) (cls m2) && str_eqb h1 h2 && str_eqb u1 u2
  && strs_eqb (hvalues hd1 (bytes "Accept-Encoding")) (hvalues hd2 (bytes "Accept-Encoding"))
  && strs_eqb (hvalues hd1 (bytes "Authorization")) (hvalues hd2 (bytes "Authorization"))
  && strs_eqb (hvalues hd1 (bytes "Host")) (hvalues hd2 (bytes "Host"))
  && (if with_origin_value then strs_eqb (hvalues hd1 (bytes "Origin")) (hvalues hd2 (bytes "Origin"))
      else Bool.eqb (nonempty (hget hd1 (bytes "Origin"))) (nonempty (hget hd2 (bytes "Origin")))).

Definition mon_C11_unit (x o : sx) : sx :=
  if negb (str_eqb (unit_fn x) (bytes "keypair")) then v_ok else
  let m1 := sx_str (unit_arg x 0) in let h1 := sx_str (unit_arg x 1) in let u1 := sx_str (unit_arg x 2) in
  let hd1 := dec_enc_hdrs (unit_arg x 3) in
  let m2 := sx_str (unit_arg x 4) in let h2 := sx_str (unit_arg x 5) in let u2 := sx_str (unit_arg x 6) in
  let hd2 := dec_enc_hdrs (unit_arg x 7) in
  let n1 := to_strs (sx_nth 0 o) in let n2 := to_strs (sx_nth 1 o) in
  (* index 0 is the full key, index 1 (present with an Origin header) the opaque-origin key *)
  let chk i j :=
      match nth_error n1 i, nth_error n2 j with
      | Some a, Some b =>
        if str_eqb a b then
          if Nat.eqb i j then same_resource (Nat.eqb i 0) m1 h1 u1 hd1 m2 h2 u2 hd2
          else false
        else true
      | _, _ => true
      end in
  if chk 0%nat 0%nat && chk 1%nat 1%nat && chk 0%nat 1%nat && chk 1%nat 0%nat then v_ok
  else verdict false "two different resources map to the same cache entry".

(* ---- C09 (unit): ETag suffix laws ---- *)
Definition mon_C09_unit (x o : sx) : sx :=
  let sfx := sx_opt_str (unit_arg x 0) in
  let e := sx_str (unit_arg x 1) in
  let added := sx_str (sx_nth 0 o) in
  match sfx with
  | None => if str_eqb added e && str_eqb (sx_str (sx_nth 1 o)) e then v_ok else verdict false "without ETAG_SUFFIX ETags must pass unchanged"
  | Some tok =>
    (* an ETag served carries the suffix; stripping what was added gives the original back *)
    if nonempty e && negb (contains added tok) then verdict false "served ETag lacks the suffix"
    (* what is stored (suffix stripped from what was served) is the origin's tag again, unless the
       origin's own tag already ended in the suffix *)
    else if nonempty e && negb (str_eqb (trim_right added [34%N]) (trim_right e [34%N]))   (* a suffix was really added *)
            && negb (str_eqb (strip_etag_suffix sfx added) e) && negb (contains e [34%N] && negb (has_suffix e [34%N]))
    then verdict false "stripping the suffix from a served ETag does not give the origin's ETag back"
    else v_ok
  end.


(* ---- C06 end to end (route family): what the client decodes is the origin's content, whole ---- *)
Definition mon_C06_e2e (x o : sx) : sx :=
  let cl := sx_nth 0 o in
  let kind := sx_str (sx_nth 0 cl) in
  if negb (str_eqb kind (bytes "origin")) || negb (Z.eqb (sx_int (sx_nth 1 cl)) 200) then v_ok else
  let script := sx_list (sx_nth 4 x) in
  let content := match script with
                 | hs :: _ => sx_str (sx_nth 2 (sx_nth 0 (sx_nth 1 hs)))
                 | [] => []
                 end in
  let req := sx_nth 3 x in
  let is_head := str_eqb (sx_str (sx_nth 0 req)) (bytes "HEAD") in
  if sx_bool (sx_nth 4 cl) then verdict false "the response was cut short of its declared length"
  else if negb is_head && negb (str_eqb (sx_str (sx_nth 3 cl)) content)
  then verdict false "the content the client decodes is not the origin's content"
  else v_ok.
