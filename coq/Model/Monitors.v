(* Property monitors over (case, projected observation): the boolean spec
   checkers applied to what the implementation actually did. *)
From Coq Require Import String.
From Coq Require Import List NArith ZArith Bool.
From Verif Require Import GoStr GoNum GoHeader Sx Tables Route Forward Serve Wire SpecC04.
Import ListNotations.
Open Scope N_scope.

Definition verdict (ok : bool) (clause : string) : sx := L [of_bool ok; A (bytes clause)].
Definition v_ok : sx := verdict true "".

(* all rules reachable through retry_rule *)
Fixpoint rule_closure (fuel : nat) (r : rule) : list rule :=
  r :: match fuel, r_retry r with
       | S f, Some rr => rule_closure f rr
       | _, _ => []
       end.
Definition rules_closure (rs : list rule) : list rule := flat_map (rule_closure 4) rs.

Definition rule_for_url (rs : list rule) (u : str) : option rule :=
  find (fun r => str_eqb (url_host (r_dest r)) (url_host u)) (rules_closure rs).

Definition obs_client (o : sx) := sx_nth 0 o.
Definition obs_status (o : sx) : Z := sx_int (sx_nth 1 (obs_client o)).
Definition obs_kind (o : sx) : str := sx_str (sx_nth 0 (obs_client o)).
Definition obs_log (o : sx) : list sx := sx_list (sx_nth 1 o).
Definition dl_url (d : sx) := sx_str (sx_nth 0 d).
Definition dl_host (d : sx) := sx_str (sx_nth 1 d).
Definition dl_method (d : sx) := sx_str (sx_nth 2 d).
Definition dl_hdrs (d : sx) := dec_enc_hdrs (sx_nth 3 d).
Definition dl_body (d : sx) := sx_str (sx_nth 4 d).

Fixpoint first_fail (l : list sx) : sx :=
  match l with
  | [] => v_ok
  | v :: l' => if sx_bool (sx_nth 0 v) then first_fail l' else v
  end.

(* ---- C04 ---- *)
Definition mon_C04 (x o : sx) : sx :=
  let '(c, rs, q, sc) := route_case x in
  let secrets := match c_secrets c with Some ss => ss | None => [] end in
  let configured := match c_secrets c with Some _ => true | None => false end in
  let h := q_hdrs q in
  let unknown := nonempty (hget h hdr_secret) && negb (str_in secrets (hget h hdr_secret)) in
  let per_dlv d :=
      match rule_for_url rs (dl_url d) with
      | None => verdict false "delivery to a destination no rule names"
      | Some r =>
        let internal := r_internal r && configured in
        if must_deny h internal secrets then verdict false "a request that must be denied reached a destination"
        else if delivered_ok_b h internal secrets (dl_hdrs d) then v_ok
        else if internal then verdict false "internal destination: secret/id/ip not as required"
        else verdict false "external destination received a Richie-* header"
      end in
  first_fail
    ((if unknown && negb (Z.eqb (obs_status o) 407) && negb (Z.eqb (obs_status o) 404)
      then verdict false "unknown secret not answered 407" else v_ok)
     :: (if Z.eqb (obs_status o) 407 && negb (match obs_log o with [] => true | _ => false end)
         then verdict false "407 but a destination was contacted" else v_ok)
     :: (if Z.eqb (obs_status o) 407 && negb unknown
            && negb (negb (nonempty (hget h hdr_secret)) && (nonempty (hget h hdr_req_id) || nonempty (hget h hdr_orig_ip))
                     && configured && existsb r_internal (rules_closure rs))
         then verdict false "407 without cause" else v_ok)
     :: map per_dlv (obs_log o)).

(* ---- dispatch ---- *)
Definition s_route : str := bytes "route".

Definition run (x : sx) : sx :=
  let fam := sx_str (sx_nth 0 x) in
  if str_eqb fam s_route then run_route x
  else L [A (bytes "unknown-family")].

Definition proj (x o : sx) : sx :=
  let fam := sx_str (sx_nth 0 x) in
  if str_eqb fam s_route then proj_route o
  else o.

Definition spec (prop : str) (x o : sx) : sx :=
  if str_eqb prop (bytes "C04") then mon_C04 x o
  else verdict false "unknown property".
