(* server/server.go getRange, requestRange.start/end/size, setRangedHeaders,
   contentRangeValue. Definitions only. *)
From Coq Require Import String.
From Coq Require Import List NArith ZArith Bool.
From Verif Require Import GoStr GoNum.
Import ListNotations.
Open Scope Z_scope.

Record rrange := mkRange { rr_s : option Z; rr_e : option Z }.

Definition s_bytes_eq : str := bytes "bytes=".
Definition s_dash : str := [45%N].

Definition parse_opt (s : str) : option (option Z) :=
  match s with
  | [] => Some None
  | _ => match parse_int s with Some v => Some (Some v) | None => None end
  end.

(* getRange on the Range header value ("" = absent) *)
Definition get_range (h : str) : option rrange :=
  match h with
  | [] => None
  | _ =>
    match split h s_bytes_eq with
    | [_; bs] =>
      let parts := if has_prefix bs s_dash then Some ([], bs)
                   else match split bs s_dash with
                        | [a; b] => Some (a, b)
                        | _ => None
                        end in
      match parts with
      | None => None
      | Some (st, e) =>
        match parse_opt st, parse_opt e with
        | Some s', Some e' =>
          match s', e' with
          | Some sv, Some ev => if ev <? sv then None else Some (mkRange s' e')
          | _, _ => Some (mkRange s' e')
          end
        | _, _ => None
        end
      end
    | _ => None
    end
  end.

Definition rr_start (r : rrange) (cl : Z) : Z :=
  match rr_s r, rr_e r with
  | Some s, Some _ => s
  | None, Some e => cl + e
  | Some s, None => s
  | None, None => 0
  end.

Definition rr_end (r : rrange) (cl : Z) : Z :=
  match rr_s r, rr_e r with
  | Some _, Some e => e
  | _, _ => cl - 1
  end.

Definition rr_size (r : rrange) (cl : Z) : Z :=
  match rr_s r, rr_e r with
  | Some s, Some e => e - s + 1
  | None, Some e => (cl - 1) - (cl + e - 1)
  | Some s, None => cl - s
  | None, None => cl
  end.

Definition content_range_value (r : rrange) (cl : Z) : str :=
  bytes "bytes " ++ format_int (rr_start r cl) ++ [45%N] ++ format_int (rr_end r cl) ++ [47%N] ++ format_int cl.

(* setRangedHeaders: (status, Some (content-length, content-range), the range as it is used
   afterwards: a suffix longer than the resource is clamped in place) *)
Definition clamp_suffix (rr : rrange) (cl : Z) : rrange :=
  match rr_s rr, rr_e rr with
  | None, Some e => if cl <? - e then mkRange None (Some (- cl)) else rr
  | _, _ => rr
  end.

Definition set_ranged_headers (r : option rrange) (cl status : Z) : Z * option (str * str) * option rrange :=
  match r with
  | None => (status, None, None)
  | Some rr =>
    if negb (status =? 200) || (cl <=? 0) then (status, None, r)
    else if (match rr_s rr, rr_e rr with None, Some e => 0 <=? e | _, _ => false end) then (416, None, r)
    else
      let rr' := clamp_suffix rr cl in
      if (match rr_s rr' with Some s => cl - 1 <? s | None => false end)
         || (match rr_e rr' with Some e => cl - 1 <? e | None => false end)
      then (416, None, Some rr')
      else (206, Some (format_int (rr_size rr' cl), content_range_value rr' cl), Some rr')
  end.

(* sendBody: the bytes a reader positioned by Seek(start) and limited to size yields;
   None = the seek fails (negative offset) *)
(* offsets are clamped to the length so that absurd values do not build huge unary numbers *)
Definition clamp_nat (z : Z) (len : nat) : nat := Z.to_nat (Z.min z (Z.of_nat len)).
Definition take (body : str) (start size : Z) : str :=
  firstn (clamp_nat size (length body)) (skipn (clamp_nat start (length body)) body).

Definition send_slice (body : str) (start size : Z) : option str :=
  if start <? 0 then None else Some (take body start size).
