(* Rule matching: proxy/rule.go attemptMatch, proxy/ruleconfig.go Rules.Match,
   util/ip.go DropPort, proxy/proxy.go scheme/completeURL/destinationString.
   Definitions only. *)
From Coq Require Import List NArith ZArith Bool.
From Verif Require Import GoStr GoHeader Tables.
Import ListNotations.
Open Scope N_scope.

Inductive rtype := RProxy | RCopy.
Inductive hostmode := HDefault | HOriginal | HDestination | HOverride (s : str).

Inductive rule : Type := mkRule {
  r_enabled : bool;
  r_scheme : str;
  r_host : str;
  r_path : str;
  r_dest : str;
  r_internal : bool;
  r_methods : list str;
  r_type : rtype;
  r_hosthdr : hostmode;
  r_recomp : bool;
  r_cache : str;
  r_force_reval : Z;
  r_req_hdrs : list (str * option str);   (* lower-cased name -> Some value (set) | None (delete) *)
  r_resp_hdrs : list (str * str);
  r_restart : bool;
  r_retry : option rule
}.

Definition s_dollar1 : str := [36; 49].
Definition s_slash : str := [47].
Definition s_star : str := [42].
Definition s_slashstar : str := [47; 42].


(* util.DropPort *)
Definition drop_port (h : str) : str :=
  match h with
  | [] => []
  | c :: _ =>
    if N.eqb c 91 (* '[' *) then
      match last_index_byte h 93 (* ']' *) with
      | Some i => firstn (i - 1) (skipn 1 h)
      | None => h
      end
    else if negb (N.eqb c 58) then
      match last_index_byte h 58 with
      | Some i => firstn i h
      | None => h
      end
    else h
  end.

Definition s_https : str := [104; 116; 116; 112; 115].
Definition s_http : str := [104; 116; 116; 112].

(* proxy.scheme *)
Definition req_scheme (tls : bool) (xfp : str) : str :=
  if tls || str_eqb (to_lower xfp) s_https then s_https else s_http.

(* NewRule: index of the (single, trailing) wildcard *)
Definition wc_index (path : str) : option nat := index_byte (to_lower path) 42.

(* Rule.attemptMatch: Some target | None *)
Definition attempt_match (r : rule) (scheme host uri : str) : option str :=
  if (nonempty (r_scheme r) && negb (str_eqb (r_scheme r) scheme))
     || (nonempty (r_host r) && negb (str_eqb (r_host r) host)) then None
  else match wc_index (r_path r) with
       | Some wc =>
         if str_eqb uri s_slash && (str_eqb (r_path r) s_star || str_eqb (r_path r) s_slashstar)
         then Some (replace_first (r_dest r) s_dollar1 [])
         else if Nat.leb (length uri) wc then None
         else if has_prefix uri (firstn wc (r_path r))
              then Some (replace_first (r_dest r) s_dollar1 (skipn wc uri))
              else None
       | None => if str_eqb (r_path r) uri then Some (r_dest r) else None
       end.

Definition str_in (l : list str) (s : str) : bool := existsb (str_eqb s) l.

Definition method_ok (r : rule) (m : str) : bool :=
  match r_methods r with [] => true | ms => str_in ms m end.

Definition is_proxy (r : rule) : bool := match r_type r with RProxy => true | RCopy => false end.

(* Rules.Match: (proxy match, first copy match before it), each as (index, rule, target) *)
Definition rmatch := (nat * rule * str)%type.

Fixpoint rules_match_from (i : nat) (rs : list rule) (scheme host uri m : str) (cp : option rmatch)
  : option rmatch * option rmatch :=
  match rs with
  | [] => (None, cp)
  | r :: rs' =>
    if negb (r_enabled r) then rules_match_from (S i) rs' scheme host uri m cp
    else if negb (method_ok r m) then rules_match_from (S i) rs' scheme host uri m cp
    else match attempt_match r scheme host uri with
         | None => rules_match_from (S i) rs' scheme host uri m cp
         | Some t =>
           if is_proxy r then (Some (i, r, t), cp)
           else rules_match_from (S i) rs' scheme host uri m
                  (match cp with Some _ => cp | None => Some (i, r, t) end)
         end
  end.

Definition rules_match (rs : list rule) (scheme host uri m : str) :=
  rules_match_from 0 rs scheme host uri m None.
