(* The "unit" family: single functions of the implementation run against their models. *)
From Coq Require Import String.
From Coq Require Import List NArith ZArith Bool.
From Verif Require Import GoStr GoNum GoHeader Sx Sha1 Tables Route Forward Serve Wire Range Recompress Meta Fresh Key.
Import ListNotations.

Definition enc_ctype (c : ctype) : sx := I (match c with CNone => 0 | CGzip => 1 | CBrotli => 2 end)%Z.

Definition enc_meta (m : meta) : sx :=
  L [A (m_host m); A (m_path m); enc_hdrs (m_reqh m); enc_hdrs (m_resph m); I (m_status m);
     A (m_redirect m); I (m_created m); I (m_revalidated m); I (m_size m)].
Definition dec_meta (x : sx) : meta :=
  let f n := sx_nth n x in
  mkMeta (sx_str (f 0%nat)) (sx_str (f 1%nat)) (dec_enc_hdrs (f 2%nat)) (dec_enc_hdrs (f 3%nat)) (sx_int (f 4%nat))
         (sx_str (f 5%nat)) (sx_int (f 6%nat)) (sx_int (f 7%nat)) (sx_int (f 8%nat)).

Definition run_unit (x : sx) : sx :=
  let fn := sx_str (sx_nth 1 x) in
  let a n := sx_nth (2 + n) x in
  if str_eqb fn (bytes "range") then
    let r := get_range (sx_str (a 0%nat)) in
    let cl := sx_int (a 1%nat) in
    let '(st, hs, r') := set_ranged_headers r cl (sx_int (a 2%nat)) in
    L [of_bool (match r with Some _ => true | None => false end);
       of_opt_int (match r with Some rr => rr_s rr | None => None end);
       of_opt_int (match r with Some rr => rr_e rr | None => None end);
       I st;
       A (match hs with Some (c, _) => c | None => [] end);
       A (match hs with Some (_, c) => c | None => [] end);
       I (match r' with Some rr => rr_start rr cl | None => 0%Z end);
       I (match r' with Some rr => rr_size rr cl | None => cl end)]
  else if str_eqb fn (bytes "recomp") then
    let '(ad, rm) := get_recompression (sx_str (a 0%nat)) (sx_str (a 1%nat)) (sx_str (a 2%nat)) in
    L [enc_ctype ad; enc_ctype rm; of_bool (can_transform (sx_str (a 3%nat)))]
  else if str_eqb fn (bytes "meta-enc") then
    A (encode_meta (dec_meta (a 0%nat)))
  else if str_eqb fn (bytes "meta-dec") then
    match decode_meta (sx_str (a 0%nat)) with
    | Some m => L [of_bool true; enc_meta m]
    | None => L [of_bool false; L []]
    end
  else if str_eqb fn (bytes "cc") then
    let d := get_directives (dec_enc_hdrs (a 0%nat)) in
    L [of_bool (d_nocache d); of_bool (d_nostore d); of_bool (d_private d);
       of_opt_int (d_maxage d); of_opt_int (d_smaxage d); of_opt_int (d_sie d); of_opt_int (d_swr d);
       of_strs (d_vary d); of_bool (do_not_cache d)]
  else if str_eqb fn (bytes "key") then
    L (map (fun k => L [A (fs_name sha1_hex k); of_bool (k_opaque k); of_bool (has_full_origin k)])
           (keys_from_request (sx_str (a 0%nat)) (sx_str (a 1%nat)) (sx_str (a 2%nat)) (dec_enc_hdrs (a 3%nat))))
  else if str_eqb fn (bytes "keypair") then
    let names m h u hd := of_strs (map (fs_name sha1_hex) (keys_from_request (sx_str m) (sx_str h) (sx_str u) (dec_enc_hdrs hd))) in
    L [names (a 0%nat) (a 1%nat) (a 2%nat) (a 3%nat); names (a 4%nat) (a 5%nat) (a 6%nat) (a 7%nat)]
  else if str_eqb fn (bytes "etag") then
    let sfx := sx_opt_str (a 0%nat) in
    let e := sx_str (a 1%nat) in
    L [A (add_etag_suffix sfx e); A (strip_etag_suffix sfx e); A (normalize_etag e)]
  else L [A (bytes "unknown-unit-function")].

(* ---- the "lim" family: operation sequences on the size limiter ---- *)
(* case = L [A "lim"; I max; L [L [A name; I size]...] (files present at start); L ops]
   op = L [A "add"; A name; I size; I t] | L [A "access"; A name; I size; I t] | L [A "flush"] | L [A "tick"]
      | L [A "restart"] | L [A "extdel"; A name] | L [A "replace"; A name; I size]
   observation after each op = L [I estimate; with; without; purged; files] *)
From Verif Require Import Limiter.

Definition enc_with (m : list (str * (Z * Z))) : sx :=
  L (map (fun p => L [A (fst p); I (fst (snd p)); I (snd (snd p))]) (sort_hdrs m)).
Definition enc_without (m : list (str * Z)) : sx :=
  L (map (fun p => L [A (fst p); I (snd p)]) (sort_hdrs m)).
Definition enc_files (m : list (str * Z)) : sx := enc_without m.

Definition lim_obs (l : lim) (purged : list str) (files : list (str * Z)) : sx :=
  L [I (l_size l); enc_with (l_with l); enc_without (l_without l); of_strs (sort_strs purged); enc_files files].

Definition dec_hop (op : sx) : option hop :=
  let kind := sx_str (sx_nth 0 op) in
  if str_eqb kind (bytes "add") then Some (HAdd (sx_str (sx_nth 1 op)) (sx_int (sx_nth 2 op)) (sx_int (sx_nth 3 op)))
  else if str_eqb kind (bytes "access") then Some (HAccess (sx_str (sx_nth 1 op)) (sx_int (sx_nth 3 op)))
  else if str_eqb kind (bytes "flush") then Some HFlush
  else if str_eqb kind (bytes "tick") then Some HTick
  else if str_eqb kind (bytes "restart") then Some HRestart
  else if str_eqb kind (bytes "extdel") then Some (HExtDel (sx_str (sx_nth 1 op)))
  else if str_eqb kind (bytes "replace") then Some (HReplace (sx_str (sx_nth 1 op)) (sx_int (sx_nth 2 op)))
  else None.

Fixpoint run_hops (s : hstate) (ops : list hop) : list sx :=
  match ops with
  | [] => []
  | o :: rest =>
    let '(s', purged) := hstep s o in
    lim_obs (fst s') purged (snd s') :: run_hops s' rest
  end.

Fixpoint dec_hops (ops : list sx) : list hop :=
  match ops with
  | [] => []
  | op :: rest => match dec_hop op with Some h => h :: dec_hops rest | None => dec_hops rest end
  end.

Definition run_lim (x : sx) : sx :=
  let max := sx_int (sx_nth 1 x) in
  let files := map (fun f => (sx_str (sx_nth 0 f), sx_int (sx_nth 1 f))) (sx_list (sx_nth 2 x)) in
  L (run_hops (hinit files max) (dec_hops (sx_list (sx_nth 3 x)))).

(* the real-time runs of the limiter observe only what left the directory and what is in it *)
(* the shape of a "lim" observation is kept (the monitors read the purged names and the files from it);
   the estimate and the two maps cannot be seen from outside and are blanked *)
Definition proj_limrt (o : sx) : sx := L (map (fun ob => L [I 0; L []; L []; sx_nth 3 ob; sx_nth 4 ob]) (sx_list o)).
Definition run_limrt (x : sx) : sx := proj_limrt (run_lim x).
