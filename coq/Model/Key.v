(* caching/caching.go KeysFromRequest, newKey, Key.FsName, prefixWithItemName;
   util/http.go AllowHeaders / DenyHeaders. Definitions only. *)
From Coq Require Import String.
From Coq Require Import List NArith ZArith Bool.
From Verif Require Import GoStr GoHeader Tables.
Import ListNotations.

Record key := mkKey {
  k_method : str; k_host : str; k_path : str; k_opaque : bool;
  k_stored : hdrs;   (* the client headers that take part in the key *)
  k_orig : hdrs      (* all client headers (conditional requests are answered from these) *)
}.

Definition allow_headers (h : hdrs) (allow : list str) : hdrs :=
  filter (fun kv => existsb (str_eqb (to_lower (fst kv))) allow) h.
Definition deny_headers (h : hdrs) (deny : list str) : hdrs :=
  filter (fun kv => negb (existsb (str_eqb (to_lower (fst kv))) deny)) h.

Definition s_GET : str := bytes "GET".
Definition s_origin : str := bytes "origin".
Definition s_opaque_origin : str := bytes "opaqueOrigin".

Definition keys_from_request (method host uri : str) (h : hdrs) : list key :=
  let m := if str_eqb method s_GET then [] else method in
  if nonempty (hget h s_origin) then
    [mkKey m host uri false (allow_headers h (key_client_headers ++ [s_origin])) h;
     mkKey m host uri true (allow_headers h key_client_headers) h]
  else [mkKey m host uri false (allow_headers h key_client_headers) h].

(* the string that is hashed: LF between fields, NUL before each header value *)
Definition enc_values (vs : list str) : str := concat (map (fun v => 0%N :: v) vs).
Definition enc_entries (es : list (str * list str)) : str :=
  concat (map (fun kv => 10%N :: fst kv ++ enc_values (snd kv)) es).
Definition key_entries (k : key) : list (str * list str) :=
  sort_hdrs (k_stored k) ++ (if k_opaque k then [([], [s_opaque_origin])] else []).

Definition preimage (k : key) : str :=
  k_method k ++ 10%N :: k_host k ++ 10%N :: k_path k ++ enc_entries (key_entries k).

(* FsName for a hash function H producing a hex string *)
Definition fs_name (H : str -> str) (k : key) : str :=
  let n := H (preimage k) in
  flat_map (fun c => [c; 47%N]) (firstn 3 n) ++ n.

Definition has_full_origin (k : key) : bool := negb (k_opaque k) && nonempty (hget (k_stored k) s_origin).
