(* Monitors for C16 and C17 over limiter histories. *)
From Coq Require Import String.
From Coq Require Import List NArith ZArith Bool.
From Verif Require Import GoStr GoNum GoHeader Sx Tables Limiter Unit Monitors.
Import ListNotations.
Open Scope Z_scope.

Definition obs_files (o : sx) : list (str * Z) :=
  map (fun f => (sx_str (sx_nth 0 f), sx_int (sx_nth 1 f))) (sx_list (sx_nth 4 o)).
Definition obs_purged (o : sx) : list str := to_strs (sx_nth 3 o).
Definition files_total (fs : list (str * Z)) : Z := fold_left (fun acc f => acc + snd f) fs 0.

Definition op_kind (op : sx) : str := sx_str (sx_nth 0 op).

(* regions of finding F14 (accounting in whole KiB, no correction for changes behind the limiter's
   back, the atimes log counted as an entry after a restart) *)
Definition kf_C16 (files0 : list (str * Z)) (ops : list sx) : string :=
  if existsb (fun op => str_eqb (op_kind op) (bytes "extdel") || str_eqb (op_kind op) (bytes "replace")) ops then "F14-drift"
  else if existsb (fun f => negb (snd f mod 1024 =? 0)) files0
          || existsb (fun op => (str_eqb (op_kind op) (bytes "add") || str_eqb (op_kind op) (bytes "access")) && negb (sx_int (sx_nth 2 op) mod 1024 =? 0)) ops
  then "F14-kib"
  else "".

(* C16: walk the history; at every tick: nothing is removed while the stored bytes are within the
   limit, and an excess of at most maxPurgeBytes is gone after the tick *)
Fixpoint walk_C16 (max : Z) (kf : string) (before : list (str * Z)) (ops obs : list sx) (i : nat) : sx :=
  match ops, obs with
  | op :: ops', o :: obs' =>
    let after := obs_files o in
    if str_eqb (op_kind op) (bytes "tick") then
      let real_purged := filter (fun n => existsb (fun f => str_eqb (fst f) n) before) (obs_purged o) in
      if (files_total before <=? max) && negb (match real_purged with [] => true | _ => false end)
      then at_request (verdict_kf false "an entry was evicted although the stored bytes were within the limit" kf) i
      else if (max <? files_total before) && (files_total before - max <=? max_purge_bytes) && (max <? files_total after)
      then at_request (verdict_kf false "the stored bytes still exceed the limit after the limiter ran" kf) i
      else walk_C16 max kf after ops' obs' (S i)
    else walk_C16 max kf after ops' obs' (S i)
  | _, _ => v_ok
  end.

Definition mon_C16 (x o : sx) : sx :=
  let max := sx_int (sx_nth 1 x) in
  let files0 := map (fun f => (sx_str (sx_nth 0 f), sx_int (sx_nth 1 f))) (sx_list (sx_nth 2 x)) in
  let ops := sx_list (sx_nth 3 x) in
  walk_C16 max (kf_C16 files0 ops) files0 ops (sx_list o) 0.

(* C17: the reference bookkeeping of last use. A fill or a hit counts across a restart once it has been flushed. *)
Record luse := mkUse { u_time : option Z; u_persisted : option Z }.

Fixpoint walk_C17 (uses : list (str * luse)) (pending : list (str * Z)) (before : list (str * Z)) (ops obs : list sx) (i : nat) : sx :=
  match ops, obs with
  | op :: ops', o :: obs' =>
    let kind := op_kind op in
    let after := obs_files o in
    if str_eqb kind (bytes "add") then
      let n := sx_str (sx_nth 1 op) in
      let prev := match aget uses n with Some u => u_persisted u | None => None end in
      if existsb (fun f => str_eqb (fst f) n) before then walk_C17 uses pending after ops' obs' (S i)   (* on disk: no fill *)
      else walk_C17 (aput uses n (mkUse (Some (sx_int (sx_nth 3 op))) prev)) (aput pending n (sx_int (sx_nth 3 op))) after ops' obs' (S i)
    else if str_eqb kind (bytes "access") then
      let n := sx_str (sx_nth 1 op) in
      let t := sx_int (sx_nth 3 op) in
      let prev := match aget uses n with Some u => u_persisted u | None => None end in
      if negb (existsb (fun f => str_eqb (fst f) n) before) then walk_C17 uses pending after ops' obs' (S i)   (* not on disk: no hit *)
      else walk_C17 (aput uses n (mkUse (Some t) prev)) (aput pending n t) after ops' obs' (S i)
    else if str_eqb kind (bytes "flush") then
      let uses' := fold_left (fun us p => match aget us (fst p) with
                                          | Some u => aput us (fst p) (mkUse (u_time u) (Some (snd p)))
                                          | None => aput us (fst p) (mkUse (Some (snd p)) (Some (snd p)))
                                          end) pending uses in
      walk_C17 uses' [] after ops' obs' (S i)
    else if str_eqb kind (bytes "restart") then
      walk_C17 (map (fun p => (fst p, mkUse (u_persisted (snd p)) (u_persisted (snd p)))) uses) [] after ops' obs' (S i)
    else if str_eqb kind (bytes "tick") then
      let purged := filter (fun n => existsb (fun f => str_eqb (fst f) n) before) (obs_purged o) in
      let tm n := match aget uses n with Some u => u_time u | None => None end in
      (* a remains while b was evicted: a must have been used no earlier than b (or b's time is unknown) *)
      let bad := existsb (fun b => existsb (fun a =>
                     match tm (fst a), tm b with
                     | None, Some _ => true                 (* a never used / unknown, yet it stays while a used entry goes *)
                     | Some ta, Some tb => ta + 1 <? tb     (* a used clearly earlier than b *)
                     | _, None => false
                     end) after) purged in
      if bad then at_request (verdict false "an entry used more recently was evicted while one used earlier, or never, remains") i
      else walk_C17 uses pending after ops' obs' (S i)
    else walk_C17 uses pending after ops' obs' (S i)
  | _, _ => v_ok
  end.

Definition mon_C17 (x o : sx) : sx :=
  let files0 := map (fun f => (sx_str (sx_nth 0 f), sx_int (sx_nth 1 f))) (sx_list (sx_nth 2 x)) in
  walk_C17 [] [] files0 (sx_list (sx_nth 3 x)) (sx_list o) 0.
