(* caching/disk.go encodeCustom / headerToS / decodeCustom / sToHeader. Definitions only. *)
From Coq Require Import String.
From Coq Require Import List NArith ZArith Bool.
From Verif Require Import GoStr GoNum GoHeader.
Import ListNotations.

Record meta := mkMeta {
  m_host : str; m_path : str; m_reqh : hdrs; m_resph : hdrs; m_status : Z;
  m_redirect : str; m_created : Z; m_revalidated : Z; m_size : Z
}.

Definition s_bar : str := [124%N].
Definition s_close_comma : str := bytes "],".
Definition s_colon : str := [58%N].
Definition s_braces : str := bytes "{}".
Definition s_brackets : str := bytes "[]".

(* headerToS: sorted keys, one item k:[v] per value (since fix F6-multi-valued every value is kept) *)
Definition header_item (k v : str) : str := k ++ [58%N; 91%N] ++ v ++ [93%N].
Definition header_items (h : hdrs) : list str :=
  flat_map (fun kv => map (header_item (fst kv)) (snd kv)) (sort_hdrs h).
Definition header_to_s (h : hdrs) : str :=
  match h with
  | [] => s_braces
  | _ => [123%N] ++ join (header_items h) [44%N] ++ [125%N]
  end.

Definition encode_meta (m : meta) : str :=
  m_host m ++ s_bar ++ m_path m ++ s_bar ++ header_to_s (m_reqh m) ++ s_bar ++ header_to_s (m_resph m) ++ s_bar
  ++ format_int (m_status m) ++ s_bar ++ m_redirect m ++ s_bar ++ format_int (m_created m) ++ s_bar
  ++ format_int (m_revalidated m) ++ s_bar ++ format_int (m_size m).

(* sToHeader *)
Fixpoint s_to_header_parts (parts : list str) (i n : nat) (h : hdrs) : option hdrs :=
  match parts with
  | [] => Some h
  | p :: rest =>
    let p' := if Nat.eqb i 0 then p
              else if Nat.eqb i (n - 1) then firstn (length p - 1) p else p in
    match split2 p' s_colon with
    | [k; v] => s_to_header_parts rest (S i) n (hadd h k (trim v s_brackets))
    | _ => None
    end
  end.

Definition s_to_header (s : str) : option hdrs :=
  if negb (has_prefix s [123%N]) then None
  else let ts := trim s s_braces in
       match ts with
       | [] => Some []
       | _ => let parts := split ts s_close_comma in
              s_to_header_parts parts 0 (length parts) []
       end.

(* decodeCustom; None = error (the JSON fallback is outside the model: see DESIGN C07) *)
Definition decode_meta (s : str) : option meta :=
  match split s s_bar with
  | [h; p; rq; rs; st; rd; cr; rv; sz] =>
    match s_to_header rq, s_to_header rs, parse_int st, parse_int cr, parse_int rv, parse_int sz with
    | Some rqh, Some rsh, Some stv, Some crv, Some rvv, Some szv =>
      Some (mkMeta h p rqh rsh stv rd crv rvv szv)
    | _, _, _, _, _, _ => None
    end
  | _ => None
  end.
