(* server/server.go: the cache-less branch of cachingFunc, preprocessHeaders,
   writeError, clearAndCopyHeaders and requestHandler with its recompression step (the body is
   carried as its decoded content: the harness's client decodes what it receives).
   Definitions only. *)
From Coq Require Import String.
From Coq Require Import List NArith ZArith Bool.
From Verif Require Import GoStr GoNum GoHeader Tables Route Forward Recompress.
Import ListNotations.
Open Scope N_scope.

(* what the client observes *)
Inductive ckind :=
| KOrigin      (* a relayed origin response *)
| KErrorJson   (* usererror: status + JSON body *)
| KBare        (* bare status, no body *)
| KRecovered   (* handler panic swallowed by sentry.Recover: empty 200 *)
| KCrash       (* panic outside the handler goroutine: the process dies *)
| KUnmodelled.

Record client := mkClient { cl_kind : ckind; cl_status : Z; cl_hdrs : hdrs; cl_body : str;
                            cl_aborted : bool (* the response was cut short of its declared length *) }.

Definition preprocess_headers (h : hdrs) (ov : list (str * option str)) : hdrs :=
  fold_left (fun h kv => match snd kv with
                         | None => hdel h (fst kv)
                         | Some v => hset h (fst kv) v
                         end) ov h.

Definition write_error (e : route_err) : client :=
  match e with
  | E404 => mkClient KErrorJson 404 [] [] false
  | E407 => mkClient KErrorJson 407 [] [] false
  | E502 => mkClient KErrorJson 502 [] [] false
  | E500 => mkClient KBare 500 [] [] false
  | EPanic => mkClient KCrash 0 [] [] false
  | EOutOfFuel => mkClient KUnmodelled 0 [] [] false
  end.

(* alwaysInclude.Set over the rule's response_headers, then the cache status *)
Definition always_include (r : rule) (status : str) : hdrs :=
  hset (fold_left (fun h kv => hset h (fst kv) (snd kv)) (r_resp_hdrs r) []) hdr_cache_status status.

(* clearAndCopyHeaders: origin headers, then Set of every always-include value (the last one wins) *)
Definition clear_and_copy (origin : hdrs) (always : hdrs) : hdrs :=
  fold_left (fun h kv => fold_left (fun h v => hset h (fst kv) v) (snd kv) h) always origin.

Definition s_pass : str := bytes "pass"%string.

(* requestHandler's recompression: proxy.go decides (rule flag, Cache-Control: no-transform, the
   request's Accept-Encoding, the origin's Content-Encoding and Content-Type); server.go edits the head.
   The decoded content does not change: that is C06. *)
Definition recompress_hdrs (recomp : bool) (req_hdrs : hdrs) (origin : hdrs) (h : hdrs) : hdrs :=
  if recomp && can_transform (hget origin (bytes "Cache-Control"%string)) then
    let '(add, remove) := get_recompression (hget req_hdrs (bytes "Accept-Encoding"%string))
                                            (hget origin (bytes "Content-Encoding"%string))
                                            (hget origin (bytes "Content-Type"%string)) in
    let h1 := match remove with
              | CGzip => hdel (hdel h (bytes "Content-Length"%string)) (bytes "Content-Encoding"%string)
              | _ => h
              end in
    match add with
    | CNone => h1
    | _ =>
      let h2 := hset (hdel h1 (bytes "Content-Length"%string)) (bytes "Content-Encoding"%string) (enc_name add) in
      let vary := hget h2 (bytes "Vary"%string) in
      let vary' := if nonempty vary && negb (contains (to_lower vary) (bytes "accept-encoding"%string))
                   then vary ++ bytes ", Accept-Encoding"%string else bytes "Accept-Encoding"%string in
      hset h2 (bytes "Vary"%string) vary'
    end
  else h.

Record serve_out := mkServeOut { so_client : client; so_log : list dlv }.

(* cachingFunc for a rule without a cache (or a method other than GET/HEAD) *)
Definition serve_nocache (fuel : nat) (c : cfg) (rs : list rule) (q : req) (sc : script) : serve_out :=
  let host := drop_port (q_host q) in
    let scheme := req_scheme (q_tls q) (hget (q_hdrs q) (bytes "X-Forwarded-Proto"%string)) in
    let '(pm, _) := rules_match rs scheme host (q_uri q) (q_method q) in
    (* GetRoutingFlavors: a URL parse error yields empty flavours *)
    let rf_rule := if str_in (q_badhosts q) host then None
                   else match pm with Some (_, r, _) => Some r | None => None end in
    let h' := match rf_rule with
              | Some r => preprocess_headers (q_hdrs q) (r_req_hdrs r)
              | None => q_hdrs q
              end in
    let q' := mkReq (q_method q) (q_host q) (q_tls q) (q_uri q) (q_query q) (q_url q) h'
                    (q_body q) (q_remote_ip q) (q_uuid q) (q_badhosts q) in
    let out := route_request fuel c rs q' (q_body q) None rf_rule sc [] in
    match rt_res out with
    | inr e => mkServeOut (write_error e) (rt_log out)
    | inl ok =>
      match ro_redirect ok, rf_rule with
      | Some _, Some r =>
        if r_restart r then mkServeOut (mkClient KUnmodelled 0 [] [] false) (rt_log out)
        else mkServeOut (mkClient KOrigin (rs_status (ro_resp ok))
                           (clear_and_copy (rs_hdrs (ro_resp ok)) (always_include (ro_rule ok) s_pass))
                           (rs_body (ro_resp ok)) false) (rt_log out)
      | _, _ =>
        mkServeOut (mkClient KOrigin (rs_status (ro_resp ok))
                      (recompress_hdrs (r_recomp (ro_rule ok)) h' (rs_hdrs (ro_resp ok))
                         (clear_and_copy (rs_hdrs (ro_resp ok)) (always_include (ro_rule ok) s_pass)))
                      (rs_body (ro_resp ok)) false) (rt_log out)
      end
    end.
