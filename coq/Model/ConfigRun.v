(* The "cfg" and "reload" families (C19): decoding of the cases, the model run and the monitors. *)
From Coq Require Import String.
From Coq Require Import List NArith ZArith Bool.
From Verif Require Import GoStr GoNum GoHeader Sx Tables Route Forward Serve Wire Config Monitors.
Import ListNotations.
Open Scope Z_scope.

(* trees: L [A "n"] | L [A "b"; I] | L [A "i"; I] | L [A "f"; A lit] | L [A "s"; A] | L [A "x"; A printed]
          | L [A "a"; L elems] | L [A "o"; L [L [A key; v] ...]] *)
Fixpoint dec_jv (fuel : nat) (x : sx) : jv :=
  match fuel with
  | O => JNull
  | S f =>
    let tag := sx_str (sx_nth 0 x) in
    if str_eqb tag (bytes "b") then JBool (sx_bool (sx_nth 1 x))
    else if str_eqb tag (bytes "i") then JInt (sx_int (sx_nth 1 x))
    else if str_eqb tag (bytes "f") then JFloat (sx_str (sx_nth 1 x))
    else if str_eqb tag (bytes "s") then JStr (sx_str (sx_nth 1 x))
    else if str_eqb tag (bytes "a") then JArr (map (dec_jv f) (sx_list (sx_nth 1 x)))
    else if str_eqb tag (bytes "o") then JObj (map (fun kv => (sx_str (sx_nth 0 kv), dec_jv f (sx_nth 1 kv))) (sx_list (sx_nth 1 x)))
    else JNull
  end.

Fixpoint dec_yv (fuel : nat) (x : sx) : yv :=
  match fuel with
  | O => YNull
  | S f =>
    let tag := sx_str (sx_nth 0 x) in
    if str_eqb tag (bytes "b") then YBool (sx_bool (sx_nth 1 x))
    else if str_eqb tag (bytes "i") then YInt (sx_int (sx_nth 1 x))
    else if str_eqb tag (bytes "s") then YStr (sx_str (sx_nth 1 x))
    else if str_eqb tag (bytes "x") then YOther (sx_str (sx_nth 1 x))
    else if str_eqb tag (bytes "a") then YSeq (map (dec_yv f) (sx_list (sx_nth 1 x)))
    else if str_eqb tag (bytes "o") then YMap (map (fun kv => (sx_str (sx_nth 0 kv), dec_yv f (sx_nth 1 kv))) (sx_list (sx_nth 1 x)))
    else YNull
  end.

(* doc = L [A "y"; yaml tree] | L [A "j"; json tree] | L [A "x"] : what ParseRules' first lines make of a text *)
Definition doc_tree (d : sx) : option jv :=
  let tag := sx_str (sx_nth 0 d) in
  if str_eqb tag (bytes "y") then Some (cleanup 24 (dec_yv 24 (sx_nth 1 d)))
  else if str_eqb tag (bytes "j") then Some (dec_jv 24 (sx_nth 1 d))
  else None.

Fixpoint dedup (l : list str) : list str :=
  match l with
  | [] => []
  | x :: l' => if existsb (str_eqb x) l' then dedup l' else x :: dedup l'
  end.

Definition hostmode_str (h : hostmode) : str :=
  match h with
  | HDefault => []
  | HOriginal => bytes "original"
  | HDestination => bytes "destination"
  | HOverride s => s
  end.

Fixpoint enc_rule (fuel : nat) (r : rule) : sx :=
  L [of_bool (r_enabled r); A (r_scheme r); A (r_host r); A (r_path r); A (r_dest r); of_bool (r_internal r);
     of_strs (sort_strs (dedup (r_methods r))); I (match r_type r with RProxy => 1 | RCopy => 2 end);
     A (hostmode_str (r_hosthdr r)); of_bool (r_recomp r); A (r_cache r); I (r_force_reval r);
     L (map (fun kv => L [A (fst kv); of_opt_str (snd kv)]) (sort_hdrs (r_req_hdrs r)));
     L (map (fun kv => L [A (fst kv); A (snd kv)]) (sort_hdrs (r_resp_hdrs r)));
     of_bool (r_restart r);
     match fuel, r_retry r with
     | S f, Some rr => L [enc_rule f rr]
     | _, _ => L []
     end].

Definition cfg_script : script :=
  map (fun h => (h, [BResp (mkResp 200 [(bytes "Content-Type", [bytes "text/plain"])] (bytes "from " ++ h))]))
      [bytes "a.test"; bytes "b.test"; bytes "c.test"].

Definition size_table (x : sx) (s : str) : option Z :=
  match find (fun e => str_eqb (sx_str (sx_nth 0 e)) s) (sx_list x) with
  | Some e => Some (sx_int (sx_nth 1 e))
  | None => None
  end.

Definition run_cfg_doc (d : sx) (reqs : list sx) (bad : list str) (sizes : sx) : sx :=
  let dest_ok s := negb (str_in bad s) in
  match doc_tree d with
  | None => L [L [A (bytes "error"); L []]; L [A (bytes "error"); L []]; L []]
  | Some v =>
    let stor := match parse_storages (size_table sizes) v with
                | Ok cs => L [A (bytes "ok"); L (map (fun c => L [A (sc_id c); A (sc_path c); I (sc_size c)]) cs)]
                | Err => L [A (bytes "error"); L []]
                end in
    match parse_rules dest_ok v with
    | Err => L [L [A (bytes "error"); L []]; stor; L []]
    | Ok rules =>
      L [L [A (bytes "ok"); L (map (enc_rule 8) rules)]; stor;
         L (map (fun rq => let q := dec_req rq in
                           let o := serve_nocache 6 (mkCfg None 0) rules q cfg_script in
                           enc_serve (mkServeOut (blank_head_body (q_method q) (so_client o)) (so_log o))) reqs)]
    end
  end.

(* case = L [A "cfg"; doc1; doc2; L reqs; L bad destinations; L size table; same; texts] *)
Definition run_cfg (x : sx) : sx :=
  let reqs := sx_list (sx_nth 3 x) in
  let bad := to_strs (sx_nth 4 x) in
  L [run_cfg_doc (sx_nth 1 x) reqs bad (sx_nth 5 x); run_cfg_doc (sx_nth 2 x) reqs bad (sx_nth 5 x)].

Definition proj_cfg_doc (o : sx) : sx :=
  L [sx_nth 0 o; sx_nth 1 o; L (map proj_route (sx_list (sx_nth 2 o)))].
Definition proj_cfg (o : sx) : sx := L (map proj_cfg_doc (sx_list o)).

(* C19 on one document pair: no panic, nothing but accept-or-reject; an accepted configuration never
   answers a request with an internal error or no answer; both caches and rules are judged before a
   document counts as accepted; the two spellings of one configuration behave the same *)
Definition res_tag (r : sx) : str := sx_str (sx_nth 0 r).
Definition req_bad (o : sx) : bool :=
  let cl := sx_nth 0 o in
  let kind := sx_str (sx_nth 0 cl) in
  str_eqb kind (bytes "no-response") || str_eqb kind (bytes "recovered") || str_eqb kind (bytes "harness-error")
  || Z.eqb (sx_int (sx_nth 1 cl)) 500.

Definition mon_cfg_doc (o : sx) : sx :=
  let rules := sx_nth 0 o in
  let stor := sx_nth 1 o in
  if str_eqb (res_tag rules) (bytes "panic") || str_eqb (res_tag stor) (bytes "panic")
  then verdict false "a configuration document made the parser panic instead of being rejected with an error"
  else if str_eqb (res_tag rules) (bytes "ok") && existsb req_bad (sx_list (sx_nth 2 o))
  then verdict false "an accepted configuration answered a request with an internal error or not at all"
  else v_ok.

Definition mon_C19_cfg (x o : sx) : sx :=
  let o1 := sx_nth 0 o in
  let o2 := sx_nth 1 o in
  let v1 := mon_cfg_doc o1 in
  if negb (sx_bool (sx_nth 0 v1)) then v1 else
  let v2 := mon_cfg_doc o2 in
  if negb (sx_bool (sx_nth 0 v2)) then v2 else
  if sx_bool (sx_nth 6 x) && negb (sx_eqb (proj_cfg_doc o1) (proj_cfg_doc o2))
  then verdict false "the YAML and the JSON spelling of one configuration are not handled identically"
  else v_ok.

(* ---------- the "reload" family ---------- *)
(* case = L [A "reload"; L docs; L probes; L bad destinations; size table; L cache ids; plan; A origin host]
   doc = L [A "missing"] | L [A "text"; A text; tree]
   observation per step = L [A "alive"; I status; A path the origin was asked for; L caches in force] | L [A "dead"] *)
Definition rl_fetch (d : sx) : option fetched :=
  if str_eqb (sx_str (sx_nth 0 d)) (bytes "missing") then None
  else Some (mkFetched (sx_str (sx_nth 1 d)) (doc_tree (sx_nth 2 d))).

Definition url_path (u : str) : str :=
  match index u (bytes "://") with
  | Some i => let rest := skipn (i + 3) u in
              match index rest (bytes "/") with
              | Some j => skipn j rest
              | None => []
              end
  | None => u
  end.

Definition strip_query (p : str) : str :=
  match index p (bytes "?") with Some i => firstn i p | None => p end.

Definition rl_observe (st : rstate) (probe : sx) (ids : list str) (origin : str) : sx :=
  let q := dec_req probe in
  let sc := [(origin, [BResp (mkResp 200 [(bytes "Content-Type", [bytes "text/plain"])] (bytes "origin"))])] in
  let o := serve_nocache 6 (mkCfg None 0) (rs_rules st) q sc in
  let asked := match so_log o with d :: _ => strip_query (url_path (d_url d)) | [] => bytes "?" end in
  let have := filter (fun id => existsb (fun c => str_eqb (sc_id c) id) (rs_caches st)
                                && existsb (fun r => str_eqb (r_cache r) id) (rs_rules st)) ids in
  L [A (bytes "alive"); I (cl_status (so_client o)); A asked; of_strs (sort_strs have)].

Fixpoint rl_steps (dest_ok : str -> bool) (size_of : str -> option Z) (st : rstate) (docs : list sx)
         (probe : sx) (ids : list str) (origin : str) : list sx :=
  match docs with
  | [] => []
  | d :: rest =>
    let st' := reload dest_ok size_of st (rl_fetch d) in
    rl_observe st' probe ids origin :: rl_steps dest_ok size_of st' rest probe ids origin
  end.

Definition run_reload (x : sx) : sx :=
  let docs := sx_list (sx_nth 1 x) in
  let probe := sx_nth 0 (sx_nth 2 x) in
  let bad := to_strs (sx_nth 3 x) in
  let dest_ok s := negb (str_in bad s) in
  let size_of := size_table (sx_nth 4 x) in
  let ids := to_strs (sx_nth 5 x) in
  let origin := sx_str (sx_nth 7 x) in
  match docs with
  | d0 :: rest =>
    match rl_fetch d0 with
    | Some f =>
      match start dest_ok size_of f with
      | Some st =>
        let final := fold_left (fun st d => reload dest_ok size_of st (rl_fetch d)) rest st in
        (* every cache in force at the end is held to its size limit, as after a restart *)
        let limits := L [A (bytes "limits"); L (map (fun id => L [A id; I 1])
                          (sort_strs (filter (fun id => existsb (fun c => str_eqb (sc_id c) id) (rs_caches final)
                                                        && existsb (fun r => str_eqb (r_cache r) id) (rs_rules final)) ids)))] in
        L (rl_observe st probe ids origin :: rl_steps dest_ok size_of st rest probe ids origin ++ [limits])
      | None => L [A (bytes "start-rejected")]
      end
    | None => L [A (bytes "start-rejected")]
    end
  | [] => L []
  end.

(* C19 on a reload sequence, stated without the reload function: after every step the server is
   alive and serves exactly the last document of the sequence so far that is acceptable as a whole
   (rules and caches), as a fresh start on that document would *)
Fixpoint last_good (dest_ok : str -> bool) (size_of : str -> option Z) (docs : list sx) (cur : option rstate) : option rstate :=
  match docs with
  | [] => cur
  | d :: rest =>
    let cur' := match rl_fetch d with
                | Some f => match start dest_ok size_of f with Some st => Some st | None => cur end
                | None => cur
                end in
    last_good dest_ok size_of rest cur'
  end.

Fixpoint walk_reload (dest_ok : str -> bool) (size_of : str -> option Z) (seen : list sx) (todo : list sx) (obs : list sx)
         (probe : sx) (ids : list str) (origin : str) (i : nat) : sx :=
  match todo, obs with
  | d :: todo', o :: obs' =>
    let seen' := seen ++ [d] in
    if str_eqb (sx_str (sx_nth 0 o)) (bytes "dead")
    then at_request (verdict false "the server died on a reload") i
    else match last_good dest_ok size_of seen' None with
         | None => at_request (verdict false "no acceptable document so far, yet the server runs") i
         | Some st =>
           if sx_eqb o (rl_observe st probe ids origin) then walk_reload dest_ok size_of seen' todo' obs' probe ids origin (S i)
           else at_request (verdict false "after this reload the server does not serve the last acceptable configuration as a whole (rules and caches)") i
         end
  | _, _ => v_ok
  end.

Definition mon_C19_reload (x o : sx) : sx :=
  let over := existsb (fun ob => str_eqb (sx_str (sx_nth 0 ob)) (bytes "limits")
                                 && existsb (fun e => negb (sx_bool (sx_nth 1 e))) (sx_list (sx_nth 1 ob))) (sx_list o) in
  if over then verdict false "after the reloads a cache in force is not held to its size limit (as it would be after a restart)" else
  let bad := to_strs (sx_nth 3 x) in
  walk_reload (fun s => negb (str_in bad s)) (size_table (sx_nth 4 x)) [] (sx_list (sx_nth 1 x)) (sx_list o)
              (sx_nth 0 (sx_nth 2 x)) (to_strs (sx_nth 5 x)) (sx_str (sx_nth 7 x)) 0.

(* ---------- the "swap" family: requests while SetRules flips between two rule sets ---------- *)
(* case = L [A "swap"; I n]; observation = L [I requests answered; I requests handled under two versions] *)
(* observation = [requests under fast flipping; of which mixed; requests after a completed SetRules that were still
   handled under the old version; requests in which a reload landed between two rule lookups; of which the later
   lookup saw the new version] *)
Definition run_swap (x : sx) : sx := L [I (8 * sx_int (sx_nth 1 x)); I 0; I 0; I 20; I 0].
Definition mon_C19_swap (x o : sx) : sx :=
  if negb (Z.eqb (sx_int (sx_nth 1 o)) 0)
  then verdict false "a request was handled under two versions of the rules (flavours of one, destination of the other)"
  else if negb (Z.eqb (sx_int (sx_nth 4 o)) 0)
  then verdict false "a reload that landed in the middle of a request changed how the rest of that request was routed"
  else if negb (Z.eqb (sx_int (sx_nth 2 o)) 0)
  then verdict false "a request that arrived after a reload had completed was still handled under the old rules"
  else v_ok.

(* what is compared of a reload run: the states, and for the size check whether each cache stayed within its limit *)
Definition proj_reload (x o : sx) : sx :=
  L (map (fun ob => if str_eqb (sx_str (sx_nth 0 ob)) (bytes "limits")
                    then L [A (bytes "limits"); L (map (fun e => L [sx_nth 0 e; of_bool (sx_int (sx_nth 1 e) <=? 65536)]) (sx_list (sx_nth 1 ob)))]
                    else ob) (sx_list o)).
