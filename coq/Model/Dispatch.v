(* Dispatch: the three entry points the driver and the in-Coq cross-check use. *)
From Coq Require Import String.
From Coq Require Import List NArith ZArith Bool.
From Verif Require Import GoStr GoNum GoHeader Sx Tables Route Forward Serve Wire Unit Monitors HistMon LimMon ConfigRun Crash Coord.
Import ListNotations.
Open Scope N_scope.

(* ---- dispatch ---- *)
Definition s_route : str := bytes "route".

Definition run (x : sx) : sx :=
  let fam := sx_str (sx_nth 0 x) in
  if str_eqb fam s_route then run_route x
  else if str_eqb fam (bytes "copy") then run_copy x
  else if str_eqb fam (bytes "unit") then run_unit x
  else if str_eqb fam (bytes "cache") then run_cache x
  else if str_eqb fam (bytes "lim") then run_lim x
  else if str_eqb fam (bytes "limrt") then run_limrt x
  else if str_eqb fam (bytes "cfg") then run_cfg x
  else if str_eqb fam (bytes "reload") then run_reload x
  else if str_eqb fam (bytes "swap") then run_swap x
  else if str_eqb fam (bytes "crash") then run_crash x
  else if str_eqb fam (bytes "coord") then run_coord x
  else if str_eqb fam (bytes "aecache") then run_aecache x
  else L [A (bytes "unknown-family")].

Definition proj (x o : sx) : sx :=
  let fam := sx_str (sx_nth 0 x) in
  if str_eqb fam s_route then proj_route o
  else if str_eqb fam (bytes "copy") then proj_copy o
  else if str_eqb fam (bytes "cache") then proj_cache o
  else if str_eqb fam (bytes "limrt") then proj_limrt o
  else if str_eqb fam (bytes "cfg") then proj_cfg o
  else if str_eqb fam (bytes "crash") then proj_crash x o
  else if str_eqb fam (bytes "reload") then proj_reload x o
  else if str_eqb fam (bytes "coord") then proj_coord x o
  else if str_eqb fam (bytes "aecache") then proj_aecache x o
  else o.

Definition spec (prop : str) (x o : sx) : sx :=
  let fam := sx_str (sx_nth 0 x) in
  if str_eqb fam (bytes "cache") then mon_hist prop x o
  else if str_eqb fam (bytes "unit") then
    (if str_eqb prop (bytes "C15") then mon_C15_unit x o
     else if str_eqb prop (bytes "C06") then mon_C06_unit x o
     else if str_eqb prop (bytes "C07") then mon_C07_unit x o
     else if str_eqb prop (bytes "C10") then mon_C10_unit x o
     else if str_eqb prop (bytes "C09") then mon_C09_unit x o
     else if str_eqb prop (bytes "C11") then mon_C11_unit x o
     else v_ok)
  else if str_eqb fam (bytes "copy") then
    (if str_eqb prop (bytes "C20") then mon_C20 x o else v_ok)
  else if str_eqb fam (bytes "lim") || str_eqb fam (bytes "limrt") then
    (if str_eqb prop (bytes "C16") then mon_C16 x o else if str_eqb prop (bytes "C17") then mon_C17 x o else v_ok)
  else if str_eqb fam (bytes "cfg") then mon_C19_cfg x o
  else if str_eqb fam (bytes "reload") then mon_C19_reload x o
  else if str_eqb fam (bytes "swap") then mon_C19_swap x o
  else if str_eqb fam (bytes "aecache") then mon_C06_ae x o
  else if str_eqb fam (bytes "crash") then mon_C14 x o
  else if str_eqb fam (bytes "coord") then (if str_eqb prop (bytes "C13") then mon_C13 x o else mon_C12 x o)
  else if str_eqb fam (bytes "route") then
    (if str_eqb prop (bytes "C01") then mon_C01 x o
     else if str_eqb prop (bytes "C02") then mon_C02 x o
     else if str_eqb prop (bytes "C03") then mon_C03 x o
     else if str_eqb prop (bytes "C04") then mon_C04 x o
     else if str_eqb prop (bytes "C06") || str_eqb prop (bytes "C05") then mon_C06_e2e x o
     else v_ok)
  else verdict false "unknown case family".
