(* C14: the file system effects of the storage writer (caching/disk.go WriteHeader, Write, Close,
   ChangeKey, Delete) as effect lists, crash states as prefixes, and what storage.Get makes of the
   directory a crash leaves. Definitions only. *)
From Coq Require Import String.
From Coq Require Import List NArith ZArith Bool.
From Verif Require Import GoStr GoNum GoHeader Sx Tables.
Import ListNotations.
Open Scope Z_scope.

Inductive slot := SEntry | STmp | SNew | SNewTmp | SAtimes | STrunc.
Definition slot_eqb (a b : slot) : bool :=
  match a, b with SEntry, SEntry | STmp, STmp | SNew, SNew | SNewTmp, SNewTmp | SAtimes, SAtimes | STrunc, STrunc => true | _, _ => false end.

(* a version of the resource: the complete body the origin sent, and whether its head had a
   Content-Length; the metadata names a version *)
Record version := mkVer { v_body : str; v_has_cl : bool }.

Record file := mkFile { f_data : str; f_meta : option (version * Z) }.   (* metadata: version and recorded Size *)

Definition disk := list (slot * file).

Fixpoint dget (d : disk) (s : slot) : option file :=
  match d with
  | [] => None
  | (s', f) :: d' => if slot_eqb s' s then Some f else dget d' s
  end.
Definition ddel (d : disk) (s : slot) : disk := filter (fun p => negb (slot_eqb (fst p) s)) d.
Definition dset (d : disk) (s : slot) (f : file) : disk := (s, f) :: ddel d s.

Inductive effect :=
| ECreate (s : slot)                      (* open O_CREAT|O_TRUNC *)
| EOpen (s : slot)                        (* open for reading: no effect *)
| EWrite (s : slot) (b : str)
| ESetX (s : slot) (v : version) (size : Z)
| ERename (a b : slot)
| ERemove (s : slot).

Definition apply (d : disk) (e : effect) : disk :=
  match e with
  | ECreate s => dset d s (mkFile [] None)
  | EOpen _ => d
  | EWrite s b => match dget d s with Some f => dset d s (mkFile (f_data f ++ b) (f_meta f)) | None => d end
  | ESetX s v n => match dget d s with Some f => dset d s (mkFile (f_data f) (Some (v, n))) | None => d end
  | ERename a b => match dget d a with Some f => dset (ddel d a) b f | None => d end
  | ERemove s => ddel d s
  end.

Definition run_effects (d : disk) (es : list effect) : disk := fold_left apply es d.

(* the writer: file created at WriteHeader, one write per Write call, the metadata set in Close
   after the descriptor is closed *)
Definition slen (s : str) : Z := Z.of_nat (length s).
Definition fill_effects (s : slot) (chunks : list str) (v : version) : list effect :=
  ECreate s :: map (EWrite s) chunks ++ [ESetX s v (slen (concat chunks))].

Inductive op :=
| OFill (chunks : list str) (cl : bool)          (* a fill of an absent entry *)
| ORevalBody (chunks : list str) (cl : bool)     (* a revalidation that stores a new body: .tmp, then rename *)
| OReval304 (old : version)                      (* a 304: the metadata of the entry is rewritten in place *)
| OChangeKey (chunks : list str) (cl : bool)     (* the key changes before the head is written: the fill goes to the new name *)
| ORefill (chunks : list str) (cl : bool)        (* the entry was evicted, then filled again *)
| OAtimesRewrite (lines kept : str).             (* the access log is appended to, then rewritten without its oldest part *)

Definition new_version (chunks : list str) (cl : bool) : version := mkVer (concat chunks) cl.

Definition effects (o : op) : list effect :=
  match o with
  | OFill ch cl => fill_effects SEntry ch (new_version ch cl)
  | ORevalBody ch cl => fill_effects STmp ch (new_version ch cl) ++ [ERename STmp SEntry]
  | OReval304 old => [ESetX SEntry old (slen (v_body old))]
  | OChangeKey ch cl => fill_effects SNew ch (new_version ch cl)
  | ORefill ch cl => ERemove SEntry :: fill_effects SEntry ch (new_version ch cl)
  | OAtimesRewrite lines kept =>
    [EWrite SAtimes lines; ECreate STrunc; EWrite STrunc kept; ERemove SAtimes; ERename STrunc SAtimes]
  end.

Definition complete_entry (v : version) : file := mkFile (v_body v) (Some (v, slen (v_body v))).

Definition pre_state (o : op) (old : version) : disk :=
  match o with
  | OFill _ _ | OChangeKey _ _ => []
  | OAtimesRewrite _ _ => [(SEntry, complete_entry old); (SAtimes, mkFile [] None)]
  | _ => [(SEntry, complete_entry old)]
  end.

(* storage.Get on one name after a restart: no file - miss; no metadata attribute - miss, and the file is left
   alone (since fix F42: it may be a fill in progress; what an interrupted fill left behind is cleared away by
   GetWriter, below); with metadata the file's size must be the Content-Length of the stored head, or without one
   the size recorded in the metadata, else the file is removed *)
Inductive got := Miss | Hit (v : version) (data : str).

(* storage.GetWriter for a fill (not a revalidation), called by the request that holds the key's lock: it refuses a
   name that holds an entry, and clears away a file without metadata *)
Definition writer_granted (d : disk) (s : slot) : bool :=
  match dget d s with
  | None => true
  | Some f => match f_meta f with None => true | Some _ => false end
  end.

Definition recover (d : disk) (s : slot) : got * disk :=
  match dget d s with
  | None => (Miss, d)
  | Some f =>
    match f_meta f with
    | None => (Miss, d)
    | Some (v, n) =>
      if Z.eqb (slen (f_data f)) (if v_has_cl v then slen (v_body v) else n) then (Hit v (f_data f), d) else (Miss, ddel d s)
    end
  end.

(* ---------- the "crash" family ---------- *)
(* case = L [A "crash"; A op; A syscall; I n; L calls; I index; L [A old body; A new body]] *)
Fixpoint chunks_of (fuel : nat) (n : nat) (s : str) : list str :=
  match fuel, s with
  | O, _ | _, [] => []
  | S f, _ => firstn n s :: chunks_of f n (skipn n s)
  end.

Definition dec_op (name : str) (old : version) (newb : str) : option op :=
  let ch := chunks_of 64 5 newb in
  if str_eqb name (bytes "fill") then Some (OFill ch true)
  else if str_eqb name (bytes "fill-chunked") then Some (OFill ch false)
  else if str_eqb name (bytes "reval-body") then Some (ORevalBody ch true)
  else if str_eqb name (bytes "reval-304") then Some (OReval304 old)
  else if str_eqb name (bytes "changekey") then Some (OChangeKey ch true)
  else if str_eqb name (bytes "refill-after-evict") then Some (ORefill ch true)
  else if str_eqb name (bytes "atimes-rewrite") then Some (OAtimesRewrite [] [])
  else None.

Definition slot_name (s : slot) : str :=
  match s with SEntry => bytes "entry" | STmp => bytes "tmp" | SNew => bytes "new" | SNewTmp => bytes "newtmp"
             | SAtimes => bytes "atimes" | STrunc => bytes "trunc" end.

Definition enc_effect (e : effect) : sx :=
  match e with
  | ECreate s => L [A (bytes "create"); A (slot_name s); A []]
  | EOpen s => L [A (bytes "open"); A (slot_name s); A []]
  | EWrite s b => L [A (bytes "write"); A (slot_name s);
                     A (match s with SAtimes | STrunc => [] | _ => format_int (slen b) end)]   (* log line lengths are not modelled *)
  | ESetX s _ _ => L [A (bytes "setx"); A (slot_name s); A []]
  | ERename a b => L [A (bytes "rename"); A (slot_name a ++ bytes ">" ++ slot_name b); A []]
  | ERemove s => L [A (bytes "remove"); A (slot_name s); A []]
  end.

Definition etag_of (body : str) : str := bytes """" ++ firstn 3 body ++ bytes """".

Definition enc_got (g : got) : sx :=
  match g with
  | Miss => L [A (bytes "miss")]
  | Hit v data => L [A (bytes "hit"); I 200; A data; I (slen (v_body v)); A (etag_of (v_body v))]
  end.

Definition s_refetched : str := bytes "refetched".

Definition s_refreshed : str := bytes "refreshed".

Definition heal (g : got) : sx :=
  match g with
  | Hit _ _ => L [A (bytes "served"); enc_got (Hit (mkVer s_refreshed true) s_refreshed)]   (* and refreshed with a new body afterwards *)
  | Miss => L [A (bytes "refilled"); enc_got (Hit (mkVer s_refetched true) s_refetched)]
  end.

Definition run_crash (x : sx) : sx :=
  let old := mkVer (sx_str (sx_nth 0 (sx_nth 6 x))) true in
  let newb := sx_str (sx_nth 1 (sx_nth 6 x)) in
  match dec_op (sx_str (sx_nth 1 x)) old newb with
  | None => L [A (bytes "unknown-operation")]
  | Some o =>
    let es := effects o in
    let d := run_effects (pre_state o old) (firstn (Z.to_nat (sx_int (sx_nth 5 x))) es) in
    let '(g1, d1) := recover d SEntry in
    let '(g2, _) := recover d1 SNew in
    (* (rewrite of the access log) the entry's last use as a restarted limiter reads it from the log: the old line's until
       the new records are appended, theirs from then on - also through the rewrite, which drops old lines from the top and
       never the records it has just appended - and none in the instant between the removal of the log and the rename of
       its rewritten copy *)
    let k := Z.to_nat (sx_int (sx_nth 5 x)) in
    let last_use := match o with
                    | OAtimesRewrite _ _ =>
                      if Nat.eqb k 0 then sx_int (sx_nth 0 (sx_nth 7 x))
                      else if Nat.eqb k 4 then 0
                      else sx_int (sx_nth 1 (sx_nth 7 x))
                    | _ => -1
                    end in
    L [L (map enc_effect es); L [enc_got g1; enc_got g2; heal g1; heal g2; I last_use]]
  end.

(* the implementation's side: the calls the real code made (from the case) and what the probes saw *)
Definition proj_crash (x o : sx) : sx := L [sx_nth 4 x; o].

(* C14 on one crash: whatever is served after the restart is a complete response the origin sent
   for this resource, labelled as such, and a resource that is not served can be fetched and cached
   again without any clean-up *)
From Verif Require Import Monitors.

Definition probe_ok (bodies : list str) (p : sx) : bool :=
  let tag := sx_str (sx_nth 0 p) in
  if str_eqb tag (bytes "miss") then true
  else
    let body := sx_str (sx_nth 2 p) in
    str_eqb tag (bytes "hit") && Z.eqb (sx_int (sx_nth 1 p)) 200 && existsb (str_eqb body) bodies
    && Z.eqb (sx_int (sx_nth 3 p)) (slen body) && str_eqb (sx_str (sx_nth 4 p)) (etag_of body).

Definition heal_ok (h : sx) : bool :=
  let tag := sx_str (sx_nth 0 h) in
  (str_eqb tag (bytes "served") && probe_ok [s_refreshed] (sx_nth 1 h) && str_eqb (sx_str (sx_nth 0 (sx_nth 1 h))) (bytes "hit"))
  || (str_eqb tag (bytes "refilled") && probe_ok [s_refetched] (sx_nth 1 h) && str_eqb (sx_str (sx_nth 0 (sx_nth 1 h))) (bytes "hit")).

Definition mon_C14 (x po : sx) : sx :=
  let o := sx_nth 1 po in      (* the probes; po = proj_crash x (raw observation) *)
  let bodies := to_strs (sx_nth 6 x) in
  if negb (probe_ok bodies (sx_nth 0 o) && probe_ok bodies (sx_nth 1 o))
  then verdict false "after the crash a truncated, mixed or mislabelled entry is served"
  else if negb (heal_ok (sx_nth 2 o) && heal_ok (sx_nth 3 o))
  then verdict false "after the crash the resource cannot be fetched and cached again"
  else v_ok.
