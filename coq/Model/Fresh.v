(* caching/caching.go GetCacheControlDirectives, allHeaderValues, DoNotCache,
   CanStaleIfError, CanStaleWhileRevalidate, VaryByOrigin, normalizeEtag;
   util/http.go AddETagSuffix, StripETagSuffix, RevalidateHeaders. Definitions only. *)
From Coq Require Import String.
From Coq Require Import List NArith ZArith Bool.
From Verif Require Import GoStr GoNum GoHeader Tables.
Import ListNotations.
Open Scope Z_scope.

Record dirs := mkDirs {
  d_nocache : bool; d_nostore : bool; d_private : bool;
  d_maxage : option Z; d_smaxage : option Z; d_sie : option Z; d_swr : option Z;
  d_vary : list str
}.

Definition s_sp : str := [32%N; 9%N].   (* the cutset " \t" *)
Definition s_comma : str := [44%N].
Definition s_eq : str := [61%N].

(* allHeaderValues *)
Definition all_header_values (k : str) (h : hdrs) : list str :=
  flat_map (fun vs => map (fun s => to_lower (trim s s_sp)) (split vs s_comma)) (hvalues h k).

Definition s_cache_control := bytes "cache-control".
Definition s_vary := bytes "vary".

Definition apply_directive (d : dirs) (tok : str) : dirs :=
  if contains tok s_eq then
    match split tok s_eq with
    | [k; v] =>
      let k' := trim k s_sp in
      match atoi (trim v s_sp) with
      | Some n =>
        if str_eqb k' (bytes "max-age") then mkDirs (d_nocache d) (d_nostore d) (d_private d) (Some n) (d_smaxage d) (d_sie d) (d_swr d) (d_vary d)
        else if str_eqb k' (bytes "s-maxage") then mkDirs (d_nocache d) (d_nostore d) (d_private d) (d_maxage d) (Some n) (d_sie d) (d_swr d) (d_vary d)
        else if str_eqb k' (bytes "stale-if-error") then mkDirs (d_nocache d) (d_nostore d) (d_private d) (d_maxage d) (d_smaxage d) (Some n) (d_swr d) (d_vary d)
        else if str_eqb k' (bytes "stale-while-revalidate") then mkDirs (d_nocache d) (d_nostore d) (d_private d) (d_maxage d) (d_smaxage d) (d_sie d) (Some n) (d_vary d)
        else d
      | None => d
      end
    | _ => d
    end
  else
    let t := trim tok s_sp in
    if str_eqb t (bytes "private") then mkDirs (d_nocache d) (d_nostore d) true (d_maxage d) (d_smaxage d) (d_sie d) (d_swr d) (d_vary d)
    else if str_eqb t (bytes "no-cache") then mkDirs true (d_nostore d) (d_private d) (d_maxage d) (d_smaxage d) (d_sie d) (d_swr d) (d_vary d)
    else if str_eqb t (bytes "no-store") then mkDirs (d_nocache d) true (d_private d) (d_maxage d) (d_smaxage d) (d_sie d) (d_swr d) (d_vary d)
    else d.

Definition empty_dirs : dirs := mkDirs false false false None None None None [].

(* GetCacheControlDirectives: the values have been lower-cased and trimmed by allHeaderValues;
   each is then split on ',' again (a no-op) and on '=' *)
Definition get_directives (h : hdrs) : dirs :=
  let ds := all_header_values s_cache_control h in
  let d := fold_left (fun d dd => fold_left apply_directive (split dd s_comma) d) ds empty_dirs in
  mkDirs (d_nocache d) (d_nostore d) (d_private d) (d_maxage d) (d_smaxage d) (d_sie d) (d_swr d)
         (all_header_values s_vary h).

Definition is_zero (o : option Z) : bool := match o with Some 0 => true | _ => false end.

Definition do_not_cache (d : dirs) : bool :=
  d_nocache d || d_private d || d_nostore d || is_zero (d_smaxage d) || is_zero (d_maxage d).

Definition can_stale_if_error (d : dirs) (age : Z) : bool :=
  match d_sie d with Some n => age <? n | None => false end.
Definition can_stale_while_revalidate (d : dirs) (age : Z) : bool :=
  match d_swr d with Some n => age <? n | None => false end.
Definition vary_by_origin (d : dirs) : bool := existsb (str_eqb (bytes "origin")) (d_vary d).

(* strings.TrimPrefix(s, "W/") *)
Definition normalize_etag (s : str) : str := trim_prefix s (bytes "W/").

(* ---- ETag suffix (ETAG_SUFFIX); None = unset ---- *)
Definition s_quote : str := [34%N].

Definition add_etag_suffix (suffix : option str) (etag : str) : str :=
  match suffix with
  | None => etag
  | Some tok =>
    if has_suffix (trim_right etag s_quote) tok then etag
    else match last_index_byte etag 34%N with
         | Some i => firstn i etag ++ tok ++ s_quote
         | None => etag ++ tok
         end
  end.

Definition strip_etag_suffix (suffix : option str) (etag : str) : str :=
  match suffix with
  | None => etag
  | Some tok =>
    if has_suffix etag (tok ++ s_quote) then trim_suffix etag (tok ++ s_quote) ++ s_quote
    else if has_suffix etag tok then trim_suffix etag tok
    else etag
  end.

(* util.RevalidateHeaders: (client header, origin header, value) *)
Definition revalidate_headers (h : hdrs) : str * str * str :=
  let inm := hget h (bytes "if-none-match") in
  if nonempty inm then (bytes "if-none-match", bytes "etag", inm) else
  let et := hget h (bytes "etag") in
  if nonempty et then (bytes "if-none-match", bytes "etag", et) else
  let ims := hget h (bytes "if-modified-since") in
  if nonempty ims then (bytes "if-modified-since", bytes "last-modified", ims) else
  let lm := hget h (bytes "last-modified") in
  if nonempty lm then (bytes "if-modified-since", bytes "last-modified", lm) else
  ([], [], []).
