(* C06 with the cache in the loop: for every sequence of clients with any Accept-Encoding values, every answer -
   from the origin or from the entry an earlier client filled - carries an encoding that is the origin's own,
   none, or one whose token occurs in that client's Accept-Encoding. (Model: Monitors.run_ae.) *)
From Coq Require Import String.
From Coq Require Import List NArith ZArith Bool.
From Verif Require Import GoStr Sx Range Recompress Monitors C06Proofs.
Import ListNotations.

Definition ae_allowed (ae ce d : str) : Prop := d = ce \/ d = [] \/ contains ae d = true.

Lemma ae_delivered_allowed recomp ae ce ct cc : ae_allowed ae ce (ae_delivered recomp ae ce ct cc).
Proof.
  unfold ae_allowed, ae_delivered. destruct (recomp && can_transform cc); [|left; reflexivity].
  unfold get_recompression, fallback. destruct (accepts_of ae) eqn:Ea.
  - destruct ((str_eqb ce [] || str_eqb ce s_identity) && (str_eqb ct s_app_json || has_prefix ct s_text_slash)); cbn; left; reflexivity.
  - destruct (str_eqb ce s_gzip); [left; reflexivity|]. destruct (str_eqb ce s_br); [left; reflexivity|].
    destruct ((str_eqb ce [] || str_eqb ce s_identity) && (str_eqb ct s_app_json || has_prefix ct s_text_slash)); cbn;
      [right; right; apply contains_self_gzip; exact Ea | left; reflexivity].
  - destruct (str_eqb ce s_br); [left; reflexivity|]. destruct (str_eqb ce s_gzip); [cbn; right; right; apply contains_self_br; exact Ea|].
    destruct ((str_eqb ce [] || str_eqb ce s_identity) && (str_eqb ct s_app_json || has_prefix ct s_text_slash)); cbn;
      [right; right; apply contains_self_br; exact Ea | left; reflexivity].
  - destruct (str_eqb ce s_gzip); cbn; [right; left; reflexivity | left; reflexivity].
Qed.

(* what one observation of the model says was delivered ([] for the wildcard "a consistent part of the encoded
   entry", whose encoding is the entry's: see the second theorem) *)
Definition obs_delivered (o : sx) : str := sx_str (sx_nth 1 o).

(* the cache's bookkeeping: every remembered entry holds what its own Accept-Encoding value is entitled to *)
Definition seen_ok (ce : str) (seen : list (str * str)) : Prop :=
  Forall (fun p => ae_allowed (ae_value (fst p)) ce (snd p)) seen.

Lemma find_seen ce seen ae d :
  seen_ok ce seen -> find (fun p => str_eqb (fst p) ae) seen = Some (ae, d) -> ae_allowed (ae_value ae) ce d.
Proof.
  intros Hs Hf. apply find_some in Hf as [Hin _]. unfold seen_ok in Hs. rewrite Forall_forall in Hs. exact (Hs _ Hin).
Qed.

Lemma ae_ranged_delivered content rr edge n : obs_delivered (ae_ranged content rr edge n) = [].
Proof.
  unfold ae_ranged. destruct (set_ranged_headers rr (Z.of_nat (length content)) 200) as [[st hs] rr'].
  destruct rr' as [r|]; [destruct (Z.eqb st 206); [destruct (send_slice _ _ _)|]|]; reflexivity.
Qed.

(* an answer is either the wildcard (a part of an entry, in that entry's encoding) or carries an allowed encoding *)
Definition obs_ok (ce ae : str) (seen : list (str * str)) (o : sx) : Prop :=
  (o = s_enc_slice /\ exists d, find (fun p => str_eqb (fst p) ae) seen = Some (ae, d) /\ ae_allowed (ae_value ae) ce d)
  \/ ae_allowed (ae_value ae) ce (obs_delivered o).

Lemma run_ae_allowed recomp ce ct cc content : forall aes rngs seen,
  seen_ok ce seen ->
  Forall2 (fun ae o => exists seen', seen_ok ce seen' /\ obs_ok ce ae seen' o) aes (run_ae recomp ce ct cc content aes rngs seen).
Proof.
  induction aes as [|ae aes IH]; intros rngs seen Hs; [constructor|]. cbn [run_ae].
  destruct (find (fun p => str_eqb (fst p) ae) seen) as [[k d]|] eqn:Hf.
  - assert (Ek : k = ae).
    { apply find_some in Hf as [_ E]. cbn in E. apply str_eqb_eq in E. exact E. }
    subst k. pose proof (find_seen ce seen ae d Hs Hf) as Hd. constructor; [|apply IH; exact Hs].
    exists seen. split; [exact Hs|].
    destruct (if nonempty (hd [] rngs) then get_range (hd [] rngs) else None) as [r|].
    + destruct (nonempty d) eqn:En.
      * left. split; [reflexivity|]. exists d. split; assumption.
      * right. rewrite ae_ranged_delivered. right. left. reflexivity.
    + right. exact Hd.
  - assert (Hs' : seen_ok ce ((ae, ae_delivered recomp (ae_value ae) ce ct cc) :: seen))
      by (constructor; [apply ae_delivered_allowed | exact Hs]).
    constructor; [|apply IH; exact Hs'].
    exists ((ae, ae_delivered recomp (ae_value ae) ce ct cc) :: seen). split; [exact Hs'|].
    destruct (if nonempty (hd [] rngs) then get_range (hd [] rngs) else None) as [r|].
    + destruct (str_eqb (ae_delivered recomp (ae_value ae) ce ct cc) ce).
      * destruct (nonempty ce).
        -- left. split; [reflexivity|]. exists (ae_delivered recomp (ae_value ae) ce ct cc). split.
           ++ cbn [find fst]. rewrite str_eqb_refl. reflexivity.
           ++ apply ae_delivered_allowed.
        -- right. rewrite ae_ranged_delivered. right. left. reflexivity.
      * right. apply ae_delivered_allowed.
    + right. apply ae_delivered_allowed.
Qed.
