(* C11, the request-target part of the key (server.go ruleDestinationRequest / rule.go OverrideOnRequest, as modelled by
   Cache.key_uri): the keyed target of a request carries the client's query, so two requests that a rule maps to the same
   destination string but that differ in their query never have the same keyed target (defect F45, repaired). *)
From Coq Require Import String.
From Coq Require Import List NArith ZArith Bool Lia.
From Verif Require Import GoStr GoNum GoHeader Tables Route Forward Serve Range Recompress Meta Fresh Key Cache.
Import ListNotations.

(* what key_uri makes of a destination string and a client query *)
Definition keyed_target (dest query : str) : str :=
  let d := parse_url dest in
  u_host d ++ url_request_uri (mkUrl (u_scheme d) (u_host d) (u_path d) query (u_force d)).

Lemma key_uri_is_keyed_target r q dest :
  let u := parse_url (q_url q) in
  attempt_match r (u_scheme u) (u_host u) (url_request_uri u) = Some dest ->
  key_uri r q = keyed_target dest (u_query u).
Proof. intros u H. unfold key_uri, keyed_target. fold u. rewrite H. reflexivity. Qed.

Lemma query_tail_inj (force : bool) q1 q2 :
  (if force || nonempty q1 then 63%N :: q1 else []) = (if force || nonempty q2 then 63%N :: q2 else []) -> q1 = q2.
Proof.
  destruct force; cbn [orb].
  - intros H. inversion H. reflexivity.
  - destruct q1 as [|a q1], q2 as [|b q2]; cbn [nonempty]; intros H; try reflexivity; try discriminate.
    inversion H. reflexivity.
Qed.

Theorem keyed_target_separates_queries dest q1 q2 :
  keyed_target dest q1 = keyed_target dest q2 -> q1 = q2.
Proof.
  unfold keyed_target, url_request_uri. cbn [u_path u_force u_query].
  intros H. apply app_inv_head in H. apply app_inv_head in H. exact (query_tail_inj _ _ _ H).
Qed.
