(* C17: what a purge selects is least recently used first, entries without access time before all
   others; and the access times the limiter holds are the reference's last accesses (SpecC17) over
   every history with flushes and restarts. *)
From Coq Require Import String.
From Coq Require Import List NArith ZArith Bool Lia Permutation Sorted.
From Verif Require Import GoStr GoNum GoHeader Tables Limiter AssocFacts C16Proofs SpecC17.
Import ListNotations.
Open Scope Z_scope.

(* ---------- the sort ---------- *)
Definition tle (x y : str * (Z * Z)) : Prop := fst (snd x) <= fst (snd y).

Lemma insert_sorted x l : StronglySorted tle l -> StronglySorted tle (insert_by_time x l).
Proof.
  induction l as [|y l IH]; intros S; cbn [insert_by_time]; [repeat constructor|].
  apply StronglySorted_inv in S as [S F].
  assert (Hxy : tle x y -> StronglySorted tle (x :: y :: l)).
  { intros Hle. constructor; [constructor; assumption|]. constructor; [exact Hle|].
    eapply Forall_impl; [|exact F]. intros z Hz. unfold tle in *. lia. }
  destruct (fst (snd x) <? fst (snd y)) eqn:E1; [apply Hxy; apply Z.ltb_lt in E1; unfold tle; lia|].
  destruct ((fst (snd x) =? fst (snd y)) && str_leb (fst x) (fst y)) eqn:E2.
  { apply andb_true_iff in E2 as [E2 _]. apply Z.eqb_eq in E2. apply Hxy. unfold tle; lia. }
  apply Z.ltb_ge in E1. constructor; [apply IH; exact S|].
  apply (Permutation_Forall (insert_perm x l)). constructor; [unfold tle; lia|exact F].
Qed.

Lemma sort_sorted l : StronglySorted tle (sort_by_time l).
Proof. induction l as [|x l IH]; cbn [sort_by_time fold_right]; [constructor|]. apply insert_sorted. exact IH. Qed.

Lemma sorted_app_le {A} (R : A -> A -> Prop) (a b : list A) :
  StronglySorted R (a ++ b) -> forall x y, In x a -> In y b -> R x y.
Proof.
  induction a as [|z a IH]; cbn [app]; intros S x y Hx Hy; [destruct Hx|].
  apply StronglySorted_inv in S as [S F]. destruct Hx as [->|Hx]; [|apply IH; assumption].
  rewrite Forall_forall in F. apply F. apply in_or_app; right; exact Hy.
Qed.

(* ---------- the order of a purge ---------- *)
(* (1) an entry with an access time goes only when every entry without one goes;
   (2) an entry that goes was not used later than an entry with an access time that stays *)
Theorem purge_order l excess wo wi :
  NoDup (keys (l_with l)) ->
  purgeable l excess = (wo, wi) ->
  (wi <> [] -> forall n, In n (keys (l_without l)) -> In n wo)
  /\ (forall a b ta ka tb kb, In b wi -> ~ In a wi ->
        aget (l_with l) a = Some (ta, ka) -> aget (l_with l) b = Some (tb, kb) -> tb <= ta).
Proof.
  intros ND H. unfold purgeable in H.
  set (want := if max_purge_bytes <? excess then max_purge_bytes else excess) in *.
  destruct (take_until_bytes (l_without l) 0 want) as [wo1 found] eqn:T1.
  destruct (want <=? found).
  { inversion H; subst. split; [intros N; congruence|]. intros a b ta ka tb kb []. }
  destruct (take_until_bytes (map (fun p => (fst p, snd (snd p))) (sort_by_time (l_with l))) found want) as [wi1 f2] eqn:T2.
  inversion H; subst wo wi. clear H. split; [intros _ n Hn; exact Hn|].
  intros a b ta ka tb kb Hb Ha Ea Eb.
  destruct (take_spec _ _ _ _ _ T2) as [pre2 [post2 [F1 [F2 _]]]].
  apply map_eq_app in F1 as [s1 [s2 [G1 [G2 G3]]]].
  assert (K1 : keys s1 = wi1).
  { subst wi1 pre2. unfold keys. rewrite map_map. reflexivity. }
  pose proof (sort_perm (l_with l)) as P.
  assert (NDs : NoDup (keys (sort_by_time (l_with l)))).
  { apply (Permutation_NoDup (l := keys (l_with l))); [apply Permutation_map; exact P|exact ND]. }
  assert (Ia : In (a, (ta, ka)) (sort_by_time (l_with l))) by (apply (Permutation_in _ P), aget_in; exact Ea).
  assert (Ib : In (b, (tb, kb)) (sort_by_time (l_with l))) by (apply (Permutation_in _ P), aget_in; exact Eb).
  assert (Ia2 : In (a, (ta, ka)) s2).
  { rewrite G1 in Ia. apply in_app_or in Ia as [Ia|Ia]; [|exact Ia].
    exfalso. apply Ha. rewrite <- K1. unfold keys. apply in_map_iff. exists (a, (ta, ka)). split; [reflexivity|exact Ia]. }
  assert (Ib1 : In (b, (tb, kb)) s1).
  { rewrite <- K1 in Hb. unfold keys in Hb. apply in_map_iff in Hb as [[b' [tb' kb']] [Eb' Hb]]. cbn [fst] in Eb'. subst b'.
    assert (In (b, (tb', kb')) (sort_by_time (l_with l))) as Hb' by (rewrite G1; apply in_or_app; left; exact Hb).
    apply (in_aget _ _ _ NDs) in Hb'. apply (in_aget _ _ _ NDs) in Ib. rewrite Ib in Hb'. inversion Hb'; subst. exact Hb. }
  pose proof (sort_sorted (l_with l)) as S. rewrite G1 in S.
  apply (sorted_app_le tle s1 s2 S _ _ Ib1 Ia2).
Qed.

(* ---------- what a purge leaves ---------- *)
Lemma with_rem_withs wi : forall l, l_with (fold_left rem_with wi l) = adels (l_with l) wi.
Proof. induction wi as [|n wi IH]; intros l; cbn [fold_left]; [reflexivity|]. rewrite IH. reflexivity. Qed.
Lemma without_rem_withs wi : forall l, l_without (fold_left rem_with wi l) = l_without l.
Proof. induction wi as [|n wi IH]; intros l; cbn [fold_left]; [reflexivity|]. rewrite IH. reflexivity. Qed.
Lemma with_rem_withouts wo : forall l, l_with (fold_left rem_without wo l) = l_with l.
Proof. induction wo as [|n wo IH]; intros l; cbn [fold_left]; [reflexivity|]. rewrite IH. reflexivity. Qed.
Lemma without_rem_withouts wo : forall l, l_without (fold_left rem_without wo l) = adels (l_without l) wo.
Proof. induction wo as [|n wo IH]; intros l; cbn [fold_left]; [reflexivity|]. rewrite IH. reflexivity. Qed.
Lemma storable_rem_withs wi : forall l, l_storable (fold_left rem_with wi l) = l_storable l /\ l_log (fold_left rem_with wi l) = l_log l.
Proof. induction wi as [|n wi IH]; intros l; cbn [fold_left]; [split; reflexivity|]. destruct (IH (rem_with l n)) as [A B]. rewrite A, B. split; reflexivity. Qed.
Lemma storable_rem_withouts wo : forall l, l_storable (fold_left rem_without wo l) = l_storable l /\ l_log (fold_left rem_without wo l) = l_log l.
Proof. induction wo as [|n wo IH]; intros l; cbn [fold_left]; [split; reflexivity|]. destruct (IH (rem_without l n)) as [A B]. rewrite A, B. split; reflexivity. Qed.

Lemma removed_maps l wo wi :
  l_with (removed l wo wi) = adels (l_with l) wi /\ l_without (removed l wo wi) = adels (l_without l) wo
  /\ l_storable (removed l wo wi) = l_storable l /\ l_log (removed l wo wi) = l_log l.
Proof.
  rewrite removed_eq. rewrite with_rem_withouts, with_rem_withs, without_rem_withouts, without_rem_withs.
  destruct (storable_rem_withouts wo (fold_left rem_with wi l)) as [A B]. destruct (storable_rem_withs wi l) as [C D].
  rewrite A, B, C, D. repeat split.
Qed.

(* ---------- the invariant on names (sizes play no part) ---------- *)
Record InvK (s : hstate) : Prop := mkInvK {
  k_ndw : NoDup (keys (l_with (fst s)));
  k_ndo : NoDup (keys (l_without (fst s)));
  k_disj : forall n, In n (keys (l_with (fst s))) -> ~ In n (keys (l_without (fst s)));
  k_kf : forall n, In n (keys (l_with (fst s))) \/ In n (keys (l_without (fst s))) -> on_disk (snd s) n = true
}.

Definition times (m : list (str * (Z * Z))) : list (str * Z) := map (fun p => (fst p, fst (snd p))) m.

Lemma times_aput m n t k : times (aput m n (t, k)) = aput (times m) n t.
Proof.
  induction m as [|[n0 [t0 k0]] m IH]; [reflexivity|]. cbn [aput times map fst snd].
  destruct (str_eqb n0 n); cbn [map fst snd]; [reflexivity|]. f_equal. exact IH.
Qed.
Lemma times_adel m n : times (adel m n) = adel (times m) n.
Proof.
  unfold adel. induction m as [|[n0 [t0 k0]] m IH]; [reflexivity|]. cbn [filter times map fst snd].
  destruct (str_eqb n0 n); cbn [negb map fst snd]; [exact IH|]. f_equal. exact IH.
Qed.
Lemma times_adels ks : forall m, times (adels m ks) = adels (times m) ks.
Proof. unfold adels. induction ks as [|k ks IH]; intros m; cbn [fold_left]; [reflexivity|]. rewrite IH, times_adel. reflexivity. Qed.
Lemma keys_times m : keys (times m) = keys m.
Proof. unfold keys, times. rewrite map_map. reflexivity. Qed.
Lemma aget_times m n : aget (times m) n = option_map fst (aget m n).
Proof.
  induction m as [|[n0 [t0 k0]] m IH]; [reflexivity|]. cbn [times map aget fst snd].
  destruct (str_eqb n0 n); [reflexivity|exact IH].
Qed.

Definition logged (log : list (str * Z * Z)) (m : list (str * (Z * Z))) : list (str * (Z * Z)) :=
  fold_left (fun m ln => match ln with (n, t, kib) => aput m n (u32 t, u32 kib) end) log m.

(* the refinement relation: the limiter's times are the reference's *)
Record Rel (l : lim) (r : ref) : Prop := mkRel {
  rel_use : times (l_with l) = r_use r;
  rel_pend : map (fun p => (fst p, fst (snd p))) (l_storable l) = r_pend r;
  rel_pers : times (logged (l_log l) []) = r_pers r;
  rel_range : forall n t k, In (n, (t, k)) (l_storable l) -> 0 <= t < 4294967296
}.

Definition in_scope_t (o : hop) : Prop :=
  match o with
  | HAdd _ _ t | HAccess _ t => 0 <= t < 4294967296
  | HExtDel _ => False
  | _ => True
  end.

Lemma u32_small t : 0 <= t < 4294967296 -> u32 t = t.
Proof. intros H. unfold u32. apply Z.mod_small. exact H. Qed.

Lemma on_disk_aput files n sz x : on_disk (aput files n sz) x = if str_eqb n x then true else on_disk files x.
Proof.
  unfold on_disk. destruct (str_eqb n x) eqn:E.
  - apply str_eqb_eq in E. subst. rewrite aget_aput_eq. reflexivity.
  - apply str_eqb_neq in E. rewrite aget_aput_neq by congruence. reflexivity.
Qed.

Lemma storable_aput_pend (m : list (str * (Z * Z))) n t k :
  map (fun p => (fst p, fst (snd p))) (aput m n (t, k)) = aput (map (fun p => (fst p, fst (snd p))) m) n t.
Proof. apply times_aput. Qed.

Lemma in_aput_inv {V} (m : list (str * V)) n v x w : In (x, w) (aput m n v) -> (x = n /\ w = v) \/ In (x, w) m.
Proof.
  induction m as [|[n0 v0] m IH]; cbn [aput]; intros H.
  - destruct H as [H|[]]. inversion H; subst. left; split; reflexivity.
  - destruct (str_eqb n0 n).
    + destruct H as [H|H]; [inversion H; subst; left; split; reflexivity|right; right; exact H].
    + destruct H as [H|H]; [right; left; exact H|]. apply IH in H as [H|H]; [left; exact H|right; right; exact H].
Qed.

(* a flush: the log's last lines win, as the reference's pending accesses override the durable ones *)
Lemma logged_app log1 log2 m : logged (log1 ++ log2) m = logged log2 (logged log1 m).
Proof. unfold logged. apply fold_left_app. Qed.

Lemma times_logged_lines (st : list (str * (Z * Z))) : forall m,
  (forall n t k, In (n, (t, k)) st -> 0 <= t < 4294967296) ->
  times (logged (map (fun p => (fst p, fst (snd p), snd (snd p))) st) m)
  = fold_left (fun m p => aput m (fst p) (snd p)) (map (fun p => (fst p, fst (snd p))) st) (times m).
Proof.
  induction st as [|[n [t k]] st IH]; intros m H; [reflexivity|].
  cbn [map logged fold_left fst snd]. fold (logged (map (fun p => (fst p, fst (snd p), snd (snd p))) st) (aput m n (u32 t, u32 k))).
  rewrite IH by (intros n' t' k' Hin; apply (H n' t' k'); right; exact Hin).
  rewrite times_aput. rewrite (u32_small t) by (apply (H n t k); left; reflexivity). reflexivity.
Qed.

(* a restart *)
Lemma times_take_over without lg :
  times (take_over without lg) = filter (fun p => match aget without (fst p) with Some _ => true | None => false end) (times lg).
Proof.
  induction lg as [|[n [t k]] lg IH]; [reflexivity|].
  cbn [take_over flat_map times map fst snd filter]. fold (take_over without lg). fold (times lg).
  destruct (aget without n); cbn [app]; [rewrite <- IH; reflexivity|exact IH].
Qed.

Lemma on_disk_kibmap files n :
  match aget (map (fun f : str * Z => (fst f, kib_of (snd f))) files) n with Some _ => true | None => false end = on_disk files n.
Proof. unfold on_disk. rewrite aget_kibmap. destruct (aget files n); reflexivity. Qed.

Lemma restart_parts log files max :
  let without := map (fun f => (fst f, kib_of (snd f))) files in
  let with_at := take_over without (logged log []) in
  l_with (restart log files max) = with_at
  /\ l_without (restart log files max) = adels without (keys with_at)
  /\ l_storable (restart log files max) = [] /\ l_log (restart log files max) = log.
Proof. cbv zeta. unfold restart. cbn [l_with l_without l_storable l_log]. rewrite fold_adel_pairs. repeat split. Qed.

Lemma restart_invk log files max : NoDup (keys files) -> InvK (restart log files max, files).
Proof.
  intros ND. destruct (restart_parts log files max) as [E1 [E2 _]]. cbv zeta in *.
  set (without := map (fun f => (fst f, kib_of (snd f))) files) in *.
  assert (NDl : NoDup (keys (logged log []))) by (apply nodup_logged; constructor).
  constructor; cbn [fst snd]; rewrite ?E1, ?E2.
  - rewrite keys_take_over. apply NoDup_filter. exact NDl.
  - apply nodup_keys_adels. unfold without. rewrite keys_kibmap. exact ND.
  - intros n Hn Hc. apply in_keys_adels in Hc as [Hc _]. contradiction.
  - intros n [Hn|Hn].
    + apply in_keys_aget in Hn as [[t k] Hn]. apply aget_in, in_take_over in Hn.
      rewrite <- on_disk_kibmap. fold without. rewrite Hn. reflexivity.
    + apply in_keys_adels in Hn as [_ Hn]. apply in_keys_aget in Hn as [k Hn].
      rewrite <- on_disk_kibmap. fold without. rewrite Hn. reflexivity.
Qed.

Lemma invk_nd_files_not_needed : True. Proof. exact I. Qed.

(* ---------- one step ---------- *)
Record InvF (s : hstate) : Prop := mkInvF { f_k : InvK s; f_nd : NoDup (keys (snd s)) }.

Lemma tick_parts l :
  exists wo wi, snd (tick l) = wo ++ wi
    /\ l_with (fst (tick l)) = adels (l_with l) wi /\ l_without (fst (tick l)) = adels (l_without l) wo
    /\ l_storable (fst (tick l)) = l_storable l /\ l_log (fst (tick l)) = l_log l
    /\ ((wo = [] /\ wi = []) \/ purgeable l (l_size l - l_max l) = (wo, wi)).
Proof.
  unfold tick. destruct (l_max l <? l_size l).
  - destruct (purgeable l (l_size l - l_max l)) as [wo wi] eqn:P. exists wo, wi. cbn [fst snd].
    destruct (removed_maps l wo wi) as [A [B [C D]]]. repeat split; try assumption. right; reflexivity.
  - exists [], []. cbn [fst snd app]. repeat split. left; split; reflexivity.
Qed.

Lemma step_invf s o : InvF s -> in_scope_t o -> InvF (fst (hstep s o)).
Proof.
  destruct s as [l files]. intros [[A B C D] NF] Sc. cbn [fst snd] in *.
  destruct o as [n sz t|n t| | | |n|n sz]; cbn [hstep in_scope_t] in *.
  - destruct (aget files n) eqn:E; cbn [fst]; [repeat constructor; assumption|].
    assert (Nw : ~ In n (keys (l_with l))).
    { intros Hc. specialize (D n (or_introl Hc)). unfold on_disk in D. rewrite E in D. discriminate. }
    assert (No : ~ In n (keys (l_without l))).
    { intros Hc. specialize (D n (or_intror Hc)). unfold on_disk in D. rewrite E in D. discriminate. }
    constructor; [constructor|]; cbn [fst snd lstep l_with l_without].
    + apply nodup_keys_aput; exact A.
    + exact B.
    + intros x Hx. apply in_keys_aput in Hx as [->|Hx]; [exact No|apply C; exact Hx].
    + intros x Hx. rewrite on_disk_aput. destruct (str_eqb n x) eqn:Ex; [reflexivity|]. apply str_eqb_neq in Ex.
      apply D. destruct Hx as [Hx|Hx]; [left; apply in_keys_aput in Hx as [->|Hx]; [congruence|exact Hx]|right; exact Hx].
    + apply nodup_keys_aput; exact NF.
  - destruct (aget files n) as [sz|] eqn:E; cbn [fst]; [|repeat constructor; assumption].
    constructor; [constructor|]; cbn [fst snd lstep l_with l_without].
    + apply nodup_keys_aput; exact A.
    + apply nodup_keys_adel; exact B.
    + intros x Hx Hx2. apply in_keys_adel in Hx2 as [Nx Hx2].
      apply in_keys_aput in Hx as [->|Hx]; [congruence|exact (C x Hx Hx2)].
    + intros x Hx. destruct (str_eq_dec x n) as [->|Nx]; [unfold on_disk; rewrite E; reflexivity|]. apply D.
      destruct Hx as [Hx|Hx]; [left; apply in_keys_aput in Hx as [->|Hx]; [congruence|exact Hx]
                              |right; apply in_keys_adel in Hx as [_ Hx]; exact Hx].
    + exact NF.
  - cbn [fst lstep]. constructor; [constructor|]; cbn [fst snd l_with l_without]; assumption.
  - cbn [lstep]. destruct (tick_parts l) as [wo [wi [P1 [P2 [P3 [_ [_ P6]]]]]]].
    destruct (tick l) as [l' purged]. cbn [fst snd] in *. subst purged.
    constructor; [constructor|]; cbn [fst snd]; rewrite ?P2, ?P3.
    + apply nodup_keys_adels; exact A.
    + apply nodup_keys_adels; exact B.
    + intros x Hx Hx2. apply in_keys_adels in Hx as [_ Hx]. apply in_keys_adels in Hx2 as [_ Hx2]. exact (C x Hx Hx2).
    + intros x Hx. fold (adels files (wo ++ wi)). unfold on_disk. rewrite aget_adels_notin.
      * apply D. destruct Hx as [Hx|Hx]; apply in_keys_adels in Hx as [_ Hx]; [left|right]; exact Hx.
      * intros Hc. apply in_app_or in Hc.
        destruct P6 as [[-> ->]|P6]; [destruct Hc as [[]|[]]|].
        destruct (purgeable_spec l _ wo wi A B P6) as [S1 [S2 _]].
        destruct Hx as [Hx|Hx]; apply in_keys_adels in Hx as [Hn Hx]; destruct Hc as [Hc|Hc]; try contradiction.
        -- exact (C x Hx (S1 x Hc)).
        -- exact (C x (S2 x Hc) Hx).
    + fold (adels files (wo ++ wi)). apply nodup_keys_adels; exact NF.
  - cbn [fst]. constructor; [apply restart_invk; exact NF|exact NF].
  - destruct Sc.
  - destruct (aget files n) eqn:E; cbn [fst]; [|repeat constructor; assumption].
    constructor; [constructor|]; cbn [fst snd]; try assumption.
    + intros x Hx. rewrite on_disk_aput. destruct (str_eqb n x); [reflexivity|]. apply D; exact Hx.
    + apply nodup_keys_aput; exact NF.
Qed.

Lemma step_rel l files r o :
  InvF (l, files) -> Rel l r -> in_scope_t o ->
  Rel (fst (fst (hstep (l, files) o))) (ref_step r files o (snd (hstep (l, files) o))).
Proof.
  intros [[A B C D] NF] [R1 R2 R3 R4] Sc. cbn [fst snd] in *.
  destruct o as [n sz t|n t| | | |n|n sz]; cbn [hstep ref_step in_scope_t] in *; unfold on_disk.
  - destruct (aget files n) eqn:E; cbn [fst snd]; [constructor; assumption|].
    constructor; cbn [lstep fst l_with l_storable l_log r_use r_pend r_pers].
    + rewrite times_aput, (u32_small t Sc), R1. reflexivity.
    + rewrite storable_aput_pend, R2. reflexivity.
    + exact R3.
    + intros x tx kx Hx. apply in_aput_inv in Hx as [[_ Hx]|Hx]; [inversion Hx; subst; exact Sc|exact (R4 x tx kx Hx)].
  - destruct (aget files n) as [sz|] eqn:E; cbn [fst snd]; [|constructor; assumption].
    constructor; cbn [lstep fst l_with l_storable l_log r_use r_pend r_pers].
    + rewrite times_aput, (u32_small t Sc), R1. reflexivity.
    + rewrite storable_aput_pend, R2. reflexivity.
    + exact R3.
    + intros x tx kx Hx. apply in_aput_inv in Hx as [[_ Hx]|Hx]; [inversion Hx; subst; exact Sc|exact (R4 x tx kx Hx)].
  - constructor; cbn [lstep fst snd l_with l_storable l_log r_use r_pend r_pers].
    + exact R1.
    + reflexivity.
    + rewrite logged_app. rewrite times_logged_lines by exact R4. rewrite R2, R3. reflexivity.
    + intros x tx kx [].
  - cbn [lstep]. destruct (tick_parts l) as [wo [wi [P1 [P2 [P3 [P4 [P5 P6]]]]]]].
    destruct (tick l) as [l' purged]. cbn [fst snd] in *. subst purged.
    constructor; cbn [r_use r_pend r_pers].
    + rewrite P2, times_adels, R1. fold (adels (r_use r) (wo ++ wi)). rewrite adels_app_comm.
      (* the names without access time are not among those with one *)
      assert (E : adels (adels (r_use r) wi) wo = adels (r_use r) wi); [|rewrite E; reflexivity].
      destruct P6 as [[-> ->]|P6]; [reflexivity|].
      destruct (purgeable_spec l _ wo wi A B P6) as [S1 _].
      assert (G : forall ks m, (forall x, In x ks -> ~ In x (keys m)) -> adels m ks = (m : list (str * Z))).
      { clear. unfold adels. induction ks as [|k ks IH]; intros m H; cbn [fold_left]; [reflexivity|].
        rewrite (adel_notin m k) by (apply H; left; reflexivity). apply IH. intros x Hx; apply H; right; exact Hx. }
      apply G. intros x Hx Hc. apply in_keys_adels in Hc as [_ Hc]. rewrite <- R1, keys_times in Hc.
      exact (C x Hc (S1 x Hx)).
    + rewrite P4. exact R2.
    + rewrite P5. exact R3.
    + rewrite P4. exact R4.
  - destruct (restart_parts (l_log l) files (l_max l)) as [E1 [E2 [E3 E4]]]. cbv zeta in *.
    constructor; cbn [fst snd r_use r_pend r_pers]; rewrite ?E1, ?E3, ?E4.
    + rewrite times_take_over, R3. apply filter_ext. intros p. apply on_disk_kibmap.
    + reflexivity.
    + exact R3.
    + intros x tx kx [].
  - destruct Sc.
  - destruct (aget files n); cbn [fst snd]; constructor; assumption.
Qed.

(* ---------- histories ---------- *)
Theorem run_rel ops : forall s r,
  InvF s -> Rel (fst s) r -> Forall in_scope_t ops ->
  InvF (fst (ref_run s r ops)) /\ Rel (fst (fst (ref_run s r ops))) (snd (ref_run s r ops)).
Proof.
  induction ops as [|o ops IH]; intros s r I R Sc; cbn [ref_run]; [split; assumption|].
  inversion Sc; subst. destruct s as [l files].
  pose proof (step_invf (l, files) o I H1) as I'. pose proof (step_rel l files r o I R H1) as R'.
  destruct (hstep (l, files) o) as [s' purged]. cbn [fst snd] in *. apply IH; assumption.
Qed.

Lemma init_invf files max : NoDup (keys files) -> InvF (hinit files max) /\ Rel (fst (hinit files max)) ref_init.
Proof.
  intros ND. split; [constructor; [apply restart_invk; exact ND|exact ND]|].
  destruct (restart_parts [] files max) as [E1 [E2 [E3 E4]]]. cbv zeta in *. unfold hinit. cbn [fst].
  constructor; rewrite ?E1, ?E3, ?E4; cbn; try reflexivity. intros n t k [].
Qed.

(* the order of eviction at a pass of the limiter, against the reference's last accesses *)
Theorem tick_lru l files r :
  InvF (l, files) -> Rel l r ->
  lru_ok r (fst (tick l)) (snd (tick l)).
Proof.
  intros [[A B C D] NF] [R1 _ _ _]. cbn [fst snd] in *. unfold lru_ok. intros a b Hb Ha.
  destruct (tick_parts l) as [wo [wi [P1 [P2 [P3 [_ [_ P6]]]]]]]. rewrite P1 in Hb. rewrite P2, P3 in Ha.
  destruct P6 as [[-> ->]|P6]; [destruct Hb|].
  destruct (purgeable_spec l _ wo wi A B P6) as [S1 [S2 _]].
  destruct (purge_order l _ wo wi A P6) as [O1 O2].
  rewrite <- R1. rewrite !aget_times.
  destruct (aget (l_with l) b) as [[tb kb]|] eqn:Eb; cbn [option_map fst]; [|exact Logic.I].
  assert (Hbw : In b wi).
  { apply in_app_or in Hb as [Hb|Hb]; [|exact Hb]. exfalso.
    apply (C b); [eapply aget_some_in_keys; exact Eb|apply S1; exact Hb]. }
  destruct Ha as [[v Ha]|[k Ha]].
  - assert (Ka : In a (keys (adels (l_with l) wi))) by (eapply aget_some_in_keys; exact Ha).
    apply in_keys_adels in Ka as [Na Ka]. apply in_keys_aget in Ka as [[ta ka] Ea].
    exists ta. rewrite Ea. split; [reflexivity|]. exact (O2 a b ta ka tb kb Hbw Na Ea Eb).
  - exfalso. assert (Ka : In a (keys (adels (l_without l) wo))) by (eapply aget_some_in_keys; exact Ha).
    apply in_keys_adels in Ka as [Na Ka]. apply Na. apply O1; [|exact Ka]. intros ->. destruct Hbw.
Qed.
