(* C20: the copy rule used is the first eligible copy rule before the selected proxy rule;
   the copy request is built like a proxied one. *)
From Coq Require Import List NArith ZArith Bool Lia Arith.
From Verif Require Import GoStr GoHeader Tables Route Forward Serve C01Proofs RouteProofs.
Import ListNotations.
Open Scope N_scope.

(* position of the proxy match, or the length of the list when there is none *)
Definition proxy_limit (rs : list rule) (scheme host uri m : str) (i : nat) : nat :=
  match fst (rules_match_from i rs scheme host uri m None) with
  | Some (k, _, _) => k
  | None => (i + length rs)%nat
  end.

Lemma rules_match_from_fst_cp i rs scheme host uri m cp cp' :
  fst (rules_match_from i rs scheme host uri m cp) = fst (rules_match_from i rs scheme host uri m cp').
Proof.
  revert i cp cp'. induction rs as [|r rs IH]; intros i cp cp'; simpl; [reflexivity|].
  destruct (negb (r_enabled r)); [apply IH|].
  destruct (negb (method_ok r m)); [apply IH|].
  destruct (attempt_match r scheme host uri); [|apply IH].
  destruct (is_proxy r); [reflexivity | apply IH].
Qed.

(* once a copy match is held it is never replaced *)
Lemma rules_match_from_keeps_cp i rs scheme host uri m c :
  snd (rules_match_from i rs scheme host uri m (Some c)) = Some c.
Proof.
  revert i. induction rs as [|r rs IH]; intros i; simpl; [reflexivity|].
  destruct (negb (r_enabled r)); [apply IH|].
  destruct (negb (method_ok r m)); [apply IH|].
  destruct (attempt_match r scheme host uri); [|apply IH].
  destruct (is_proxy r); [reflexivity | apply IH].
Qed.

(* The copy match, characterised exactly: it is copy-typed and eligible, lies before the
   proxy match, and no copy-typed rule before it is eligible; there is none iff no
   copy-typed rule before the proxy match is eligible. *)
Lemma copy_match_first i rs scheme host uri m :
  match snd (rules_match_from i rs scheme host uri m None) with
  | Some (k, r, t) =>
      (i <= k)%nat /\ (k < proxy_limit rs scheme host uri m i)%nat /\
      nth_error rs (k - i) = Some r /\ is_proxy r = false /\
      code_applies r scheme host uri m = true /\ attempt_match r scheme host uri = Some t /\
      forall j r', (j < k - i)%nat -> nth_error rs j = Some r' ->
                   negb (is_proxy r') && code_applies r' scheme host uri m = false
  | None => forall j r', (i + j < proxy_limit rs scheme host uri m i)%nat -> nth_error rs j = Some r' ->
                         negb (is_proxy r') && code_applies r' scheme host uri m = false
  end.
Proof.
  revert i. induction rs as [|r0 rs IH]; intros i.
  - simpl. intros j r' _ H. destruct j; discriminate.
  - unfold proxy_limit. cbn [rules_match_from length].
    assert (Skip : code_applies r0 scheme host uri m = false ->
      match snd (rules_match_from (S i) rs scheme host uri m None) with
      | Some (k, r, t) =>
          (i <= k)%nat /\
          (k < match fst (rules_match_from (S i) rs scheme host uri m None) with Some (k0, _, _) => k0 | None => (i + S (length rs))%nat end)%nat /\
          nth_error (r0 :: rs) (k - i) = Some r /\ is_proxy r = false /\
          code_applies r scheme host uri m = true /\ attempt_match r scheme host uri = Some t /\
          forall j r', (j < k - i)%nat -> nth_error (r0 :: rs) j = Some r' ->
                       negb (is_proxy r') && code_applies r' scheme host uri m = false
      | None => forall j r',
          (i + j < match fst (rules_match_from (S i) rs scheme host uri m None) with Some (k0, _, _) => k0 | None => (i + S (length rs))%nat end)%nat ->
          nth_error (r0 :: rs) j = Some r' -> negb (is_proxy r') && code_applies r' scheme host uri m = false
      end).
    { intros Hno. specialize (IH (S i)). unfold proxy_limit in IH.
      destruct (snd (rules_match_from (S i) rs scheme host uri m None)) as [[[k r] t]|].
      - destruct IH as [Hle [Hlt [Hn [Hp [Hc [Ht Hb]]]]]].
        split; [lia|]. split.
        { destruct (fst (rules_match_from (S i) rs scheme host uri m None)) as [[[k0 ?] ?]|]; lia. }
        replace (k - i)%nat with (S (k - S i)) by lia. cbn [nth_error]. repeat split; auto.
        intros j r' Hj Hn'. destruct j as [|j]; cbn [nth_error] in Hn'.
        + inversion Hn'; subst. rewrite Hno. apply andb_false_r.
        + apply (Hb j); [lia | exact Hn'].
      - intros j r' Hj Hn'. destruct j as [|j]; cbn [nth_error] in Hn'.
        + inversion Hn'; subst. rewrite Hno. apply andb_false_r.
        + apply (IH j); [|exact Hn'].
          destruct (fst (rules_match_from (S i) rs scheme host uri m None)) as [[[k0 ?] ?]|]; lia. }
    unfold code_applies in *.
    destruct (r_enabled r0) eqn:En; cbn [negb andb]; [|apply Skip; reflexivity].
    destruct (method_ok r0 m) eqn:Me; cbn [negb andb]; [|apply Skip; reflexivity].
    destruct (attempt_match r0 scheme host uri) as [t|] eqn:Am; [|apply Skip; reflexivity].
    destruct (is_proxy r0) eqn:Pr.
    + (* the proxy match is here: nothing before it, so no copy match *)
      cbn [fst snd]. intros j r' Hj. lia.
    + (* first eligible copy rule *)
      rewrite rules_match_from_keeps_cp.
      rewrite (rules_match_from_fst_cp (S i) rs scheme host uri m (Some (i, r0, t)) None).
      split; [lia|]. split.
      { destruct (fst (rules_match_from (S i) rs scheme host uri m None)) as [[[k0 r1] t1]|] eqn:E; [|lia].
        apply rules_match_from_ge in E. lia. }
      rewrite Nat.sub_diag. cbn [nth_error]. rewrite En, Me, Am. repeat split; auto.
      intros j r' Hj. lia.
Qed.
