(* C11: the hashed string determines every key field (after the F10 fix). *)
From Coq Require Import List NArith ZArith Bool Lia.
From Verif Require Import GoStr GoHeader Tables Key.
Import ListNotations.
Open Scope N_scope.

(* a ++ d :: r, with d not in a, splits uniquely *)
Lemma app_delim_inj (d : N) a a' r r' :
  ~ In d a -> ~ In d a' -> a ++ d :: r = a' ++ d :: r' -> a = a' /\ r = r'.
Proof.
  revert a'. induction a as [|x a IH]; intros a' Ha Ha' H.
  - destruct a' as [|y a']; simpl in H.
    + inversion H. auto.
    + inversion H; subst. exfalso. apply Ha'. left. reflexivity.
  - destruct a' as [|y a']; simpl in H.
    + inversion H; subst. exfalso. apply Ha. left. reflexivity.
    + inversion H; subst. destruct (IH a') as [E1 E2]; auto.
      * intros Hin. apply Ha. right. exact Hin.
      * intros Hin. apply Ha'. right. exact Hin.
      * subst. auto.
Qed.

Lemma app_nodelim_eq (d : N) a a' r' :
  ~ In d a -> a = a' ++ d :: r' -> False.
Proof. intros Ha H. apply Ha. rewrite H. apply in_or_app. right. left. reflexivity. Qed.

Definition clean (s : str) : Prop := ~ In 10 s /\ ~ In 0 s.
Definition clean_entry (e : str * list str) : Prop := clean (fst e) /\ Forall clean (snd e).

Lemma enc_values_no10 vs : Forall clean vs -> ~ In 10 (enc_values vs).
Proof.
  induction 1 as [|v vs Hv _ IH]; simpl; [tauto|].
  unfold enc_values in *. simpl. intros [H|H]; [discriminate|].
  apply in_app_or in H as [H|H]; [apply (proj1 Hv); exact H | apply IH; exact H].
Qed.

Lemma enc_values_inj vs vs' :
  Forall clean vs -> Forall clean vs' -> enc_values vs = enc_values vs' -> vs = vs'.
Proof.
  intros H. revert vs'. induction H as [|v vs Hv Hvs IH]; intros vs' H' E.
  - destruct vs' as [|v' vs']; [reflexivity | discriminate].
  - destruct vs' as [|v' vs']; [discriminate|].
    inversion H' as [|? ? Hv' Hvs']; subst.
    unfold enc_values in E. simpl in E. inversion E as [E1]. clear E.
    fold (enc_values vs) in E1. fold (enc_values vs') in E1.
    destruct vs as [|w vs]; destruct vs' as [|w' vs'].
    + unfold enc_values in E1. simpl in E1. rewrite !app_nil_r in E1. subst. reflexivity.
    + exfalso. unfold enc_values in E1. simpl in E1. rewrite app_nil_r in E1.
      eapply (app_nodelim_eq 0 v v'); [apply (proj2 Hv) | exact E1].
    + exfalso. unfold enc_values in E1. simpl in E1. rewrite app_nil_r in E1. symmetry in E1.
      eapply (app_nodelim_eq 0 v' v); [apply (proj2 Hv') | exact E1].
    + unfold enc_values in E1. simpl in E1.
      destruct (app_delim_inj 0 v v' _ _ (proj2 Hv) (proj2 Hv') E1) as [Ev Er]. subst.
      f_equal. apply IH; [exact Hvs'|]. unfold enc_values. simpl. f_equal. exact Er.
Qed.

Lemma key_values_split k vs k' vs' :
  clean k -> clean k' -> Forall clean vs -> Forall clean vs' ->
  k ++ enc_values vs = k' ++ enc_values vs' -> k = k' /\ vs = vs'.
Proof.
  intros Hk Hk' Hv Hv' E.
  destruct vs as [|v vs]; destruct vs' as [|v' vs'].
  - unfold enc_values in E. simpl in E. rewrite !app_nil_r in E. auto.
  - exfalso. unfold enc_values in E. simpl in E. rewrite app_nil_r in E.
    eapply (app_nodelim_eq 0 k k'); [apply (proj2 Hk) | exact E].
  - exfalso. unfold enc_values in E. simpl in E. rewrite app_nil_r in E. symmetry in E.
    eapply (app_nodelim_eq 0 k' k); [apply (proj2 Hk') | exact E].
  - assert (E' : k ++ 0 :: (v ++ enc_values vs) = k' ++ 0 :: (v' ++ enc_values vs')) by exact E.
    destruct (app_delim_inj 0 k k' _ _ (proj2 Hk) (proj2 Hk') E') as [Ek Er]. subst. split; [reflexivity|].
    apply enc_values_inj; auto. unfold enc_values. simpl. f_equal. exact Er.
Qed.

Lemma entry_no10 e : clean_entry e -> ~ In 10 (fst e ++ enc_values (snd e)).
Proof.
  intros [Hk Hv] H. apply in_app_or in H as [H|H]; [apply (proj1 Hk); exact H | eapply enc_values_no10; eauto].
Qed.

Lemma enc_entries_inj es es' :
  Forall clean_entry es -> Forall clean_entry es' -> enc_entries es = enc_entries es' -> es = es'.
Proof.
  intros H. revert es'. induction H as [|e es He Hes IH]; intros es' H' E.
  - destruct es' as [|e' es']; [reflexivity | discriminate].
  - destruct es' as [|e' es']; [discriminate|].
    inversion H' as [|? ? He' Hes']; subst.
    unfold enc_entries in E. simpl in E. inversion E as [E1]. clear E.
    fold (enc_entries es) in E1. fold (enc_entries es') in E1. rewrite <- !app_assoc in E1.
    assert (Hsplit : fst e ++ enc_values (snd e) = fst e' ++ enc_values (snd e') /\ enc_entries es = enc_entries es').
    { destruct es as [|f es]; destruct es' as [|f' es'].
      - unfold enc_entries in E1. simpl in E1. rewrite !app_nil_r in E1. auto.
      - exfalso. unfold enc_entries in E1. simpl in E1. rewrite app_nil_r in E1.
        rewrite app_assoc in E1.
        eapply (app_nodelim_eq 10 _ (fst e' ++ enc_values (snd e'))); [apply entry_no10; exact He | exact E1].
      - exfalso. unfold enc_entries in E1. simpl in E1. rewrite app_nil_r in E1. symmetry in E1.
        rewrite app_assoc in E1.
        eapply (app_nodelim_eq 10 _ (fst e ++ enc_values (snd e))); [apply entry_no10; exact He' | exact E1].
      - unfold enc_entries in E1. simpl in E1. rewrite !app_assoc in E1.
        destruct (app_delim_inj 10 _ _ _ _ (entry_no10 e He) (entry_no10 e' He') E1) as [Ea Er].
        split; [exact Ea|]. unfold enc_entries. simpl. f_equal. exact Er. }
    destruct Hsplit as [Ee Er].
    destruct He as [Hk Hv]. destruct He' as [Hk' Hv'].
    destruct (key_values_split _ _ _ _ Hk Hk' Hv Hv' Ee) as [E2 E3].
    destruct e, e'. simpl in *. subst. f_equal. apply IH; assumption.
Qed.

(* The main injectivity statement: for fields free of LF and NUL, equal hashed strings
   mean equal method, host, path and entry list. *)
Lemma preimage_fields_inj m h p es m' h' p' es' :
  clean m -> clean h -> clean p -> clean m' -> clean h' -> clean p' ->
  Forall clean_entry es -> Forall clean_entry es' ->
  m ++ 10 :: h ++ 10 :: p ++ enc_entries es = m' ++ 10 :: h' ++ 10 :: p' ++ enc_entries es' ->
  m = m' /\ h = h' /\ p = p' /\ es = es'.
Proof.
  intros Hm Hh Hp Hm' Hh' Hp' He He' E.
  destruct (app_delim_inj 10 m m' _ _ (proj1 Hm) (proj1 Hm') E) as [E1 E2]. subst.
  destruct (app_delim_inj 10 h h' _ _ (proj1 Hh) (proj1 Hh') E2) as [E3 E4]. subst.
  assert (p = p' /\ enc_entries es = enc_entries es') as [E5 E6].
  { destruct es as [|e es]; destruct es' as [|e' es'].
    - unfold enc_entries in E4. simpl in E4. rewrite !app_nil_r in E4. auto.
    - exfalso. unfold enc_entries in E4. simpl in E4. rewrite app_nil_r in E4.
      eapply (app_nodelim_eq 10 p p'); [apply (proj1 Hp) | exact E4].
    - exfalso. unfold enc_entries in E4. simpl in E4. rewrite app_nil_r in E4. symmetry in E4.
      eapply (app_nodelim_eq 10 p' p); [apply (proj1 Hp') | exact E4].
    - unfold enc_entries in E4. simpl in E4.
      destruct (app_delim_inj 10 p p' _ _ (proj1 Hp) (proj1 Hp') E4) as [Ea Eb].
      split; [exact Ea|]. unfold enc_entries. simpl. f_equal. exact Eb. }
  subst. repeat split; auto. apply enc_entries_inj; assumption.
Qed.

Definition clean_key (k : key) : Prop :=
  clean (k_method k) /\ clean (k_host k) /\ clean (k_path k) /\
  Forall (fun e => clean_entry e /\ fst e <> []) (sort_hdrs (k_stored k)).

Lemma clean_opaque_marker : clean_entry ([], [s_opaque_origin]).
Proof.
  split; [split; simpl; tauto|]. constructor; [|constructor].
  split; vm_compute; intros H; repeat (destruct H as [H|H]; [discriminate|]); exact H.
Qed.

Lemma key_entries_clean k : clean_key k -> Forall clean_entry (key_entries k).
Proof.
  intros [_ [_ [_ H]]]. unfold key_entries. apply Forall_app. split.
  - eapply Forall_impl; [|exact H]. intros e [He _]. exact He.
  - destruct (k_opaque k); constructor; [apply clean_opaque_marker | constructor].
Qed.

Lemma key_entries_inj k k' :
  clean_key k -> clean_key k' -> key_entries k = key_entries k' ->
  sort_hdrs (k_stored k) = sort_hdrs (k_stored k') /\ k_opaque k = k_opaque k'.
Proof.
  intros [_ [_ [_ H]]] [_ [_ [_ H']]] E. unfold key_entries in E.
  destruct (k_opaque k); destruct (k_opaque k').
  - apply app_inj_tail in E as [E _]. auto.
  - exfalso. rewrite app_nil_r in E.
    assert (Hin : In ([], [s_opaque_origin]) (sort_hdrs (k_stored k'))) by (rewrite <- E; apply in_or_app; right; left; reflexivity).
    rewrite Forall_forall in H'. destruct (H' _ Hin) as [_ Hne]. apply Hne. reflexivity.
  - exfalso. rewrite app_nil_r in E.
    assert (Hin : In ([], [s_opaque_origin]) (sort_hdrs (k_stored k))) by (rewrite E; apply in_or_app; right; left; reflexivity).
    rewrite Forall_forall in H. destruct (H _ Hin) as [_ Hne]. apply Hne. reflexivity.
  - rewrite !app_nil_r in E. auto.
Qed.

Lemma preimage_injective k k' :
  clean_key k -> clean_key k' -> preimage k = preimage k' ->
  k_method k = k_method k' /\ k_host k = k_host k' /\ k_path k = k_path k' /\
  sort_hdrs (k_stored k) = sort_hdrs (k_stored k') /\ k_opaque k = k_opaque k'.
Proof.
  intros C C' E. unfold preimage in E.
  destruct C as [Cm [Ch [Cp Ce]]] eqn:EC. destruct C' as [Cm' [Ch' [Cp' Ce']]] eqn:EC'.
  destruct (preimage_fields_inj _ _ _ _ _ _ _ _ Cm Ch Cp Cm' Ch' Cp'
              (key_entries_clean k (conj Cm (conj Ch (conj Cp Ce)))) (key_entries_clean k' (conj Cm' (conj Ch' (conj Cp' Ce')))) E)
    as [E1 [E2 [E3 E4]]].
  destruct (key_entries_inj k k' (conj Cm (conj Ch (conj Cp Ce))) (conj Cm' (conj Ch' (conj Cp' Ce'))) E4) as [E5 E6].
  auto.
Qed.

Lemma app_eq_same_length {X} (a a' b b' : list X) :
  length a = length a' -> a ++ b = a' ++ b' -> b = b'.
Proof.
  revert a'. induction a as [|x a IH]; intros [|y a'] Hl E; simpl in *; try discriminate; [exact E|].
  inversion E; subst. apply (IH a'); [lia | assumption].
Qed.

(* With an injective hash the on-disk name determines the key fields. *)
Lemma fs_name_injective (H : str -> str) k k' :
  (forall a b, H a = H b -> a = b) ->
  clean_key k -> clean_key k' -> fs_name H k = fs_name H k' ->
  k_method k = k_method k' /\ k_host k = k_host k' /\ k_path k = k_path k' /\
  sort_hdrs (k_stored k) = sort_hdrs (k_stored k') /\ k_opaque k = k_opaque k'.
Proof.
  intros Hinj C C' E. apply preimage_injective; auto. apply Hinj.
  unfold fs_name in E.
  (* the name is prefix(n) ++ n with |prefix| = 2 * min 3 |n|: compare from the end *)
  assert (L : forall n n', flat_map (fun c => [c; 47]) (firstn 3 n) ++ n = flat_map (fun c => [c; 47]) (firstn 3 n') ++ n' -> n = n').
  { intros n n' En.
    assert (Hl : length n = length n').
    { apply (f_equal (@length N)) in En. rewrite !app_length in En.
      assert (Hf : forall l : str, length (flat_map (fun c => [c; 47]) l) = (2 * length l)%nat)
        by (induction l; simpl; lia).
      rewrite !Hf, !firstn_length in En. lia. }
    assert (Hp : length (flat_map (fun c => [c; 47]) (firstn 3 n)) = length (flat_map (fun c => [c; 47]) (firstn 3 n'))).
    { assert (Hf : forall l : str, length (flat_map (fun c => [c; 47]) l) = (2 * length l)%nat)
        by (induction l; simpl; lia).
      rewrite !Hf, !firstn_length. lia. }
    eapply app_eq_same_length; [exact Hp | exact En]. }
  apply L. exact E.
Qed.
