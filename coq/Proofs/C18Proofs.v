(* C18: the redirect walk inside rrrouter is bounded and never visits a URL twice. *)
From Coq Require Import String.
From Coq Require Import List NArith ZArith Bool Lia.
From Verif Require Import GoStr GoNum GoHeader Tables Route Forward Serve Meta Fresh Key Cache.
Import ListNotations.

(* a sequence of redirect targets, each accepted by mayFollow in turn *)
Fixpoint all_followed (seen : list str) (us : list url) : bool :=
  match us with
  | [] => true
  | u :: us' => may_follow seen u && all_followed (follow_key u :: seen) us'
  end.

Lemma str_in_In l s : str_in l s = true <-> In s l.
Proof.
  unfold str_in. rewrite existsb_exists. split.
  - intros [x [Hx E]]. apply str_eqb_eq in E. subst. exact Hx.
  - intros H. exists s. split; [exact H | apply str_eqb_refl].
Qed.

Lemma may_follow_spec seen u :
  may_follow seen u = true <-> ~ In (follow_key u) seen /\ (length seen <= max_redirect_hops)%nat.
Proof.
  unfold may_follow. rewrite andb_true_iff, negb_true_iff, Nat.leb_le. split.
  - intros [H1 H2]. split; [|exact H2]. intros Hin. apply str_in_In in Hin. congruence.
  - intros [H1 H2]. split; [|exact H2].
    destruct (str_in seen (follow_key u)) eqn:E; [apply str_in_In in E; contradiction | reflexivity].
Qed.

(* Whatever the origins answer - any redirect graph, any Location values, cached or not - the
   chain of redirects followed for one client request has at most 11 - |seen| links, visits no
   URL twice and none that was seen before. *)
Lemma follows_bounded us : forall seen,
  all_followed seen us = true ->
  (length us + length seen <= S max_redirect_hops \/ us = [])%nat /\
  NoDup (map follow_key us) /\ (forall u, In u us -> ~ In (follow_key u) seen).
Proof.
  induction us as [|u us IH]; intros seen H.
  - split; [right; reflexivity|]. split; [constructor | intros u []].
  - cbn [all_followed] in H. apply andb_true_iff in H as [Hm Hr].
    apply may_follow_spec in Hm as [Hnew Hlen].
    destruct (IH _ Hr) as [Hb [Hnd Hdis]]. split; [|split].
    + left. unfold max_redirect_hops in *. destruct Hb as [Hb|Hb].
      * cbn [length] in *. lia.
      * subst us. cbn [length] in *. lia.
    + simpl. constructor; [|exact Hnd].
      intros Hin. apply in_map_iff in Hin as [v [Hv Hinv]].
      apply (Hdis v Hinv). left. symmetry. exact Hv.
    + intros v [Hv|Hv]; [subst; exact Hnew|].
      intros Hin. apply (Hdis v Hv). right. exact Hin.
Qed.

Lemma hops_at_most_eleven us k0 :
  all_followed [k0] us = true -> (length us <= max_redirect_hops)%nat.
Proof.
  intros H. destruct (follows_bounded us [k0] H) as [[Hb|Hb] _].
  - unfold max_redirect_hops in *. cbn [length] in *. lia.
  - subst. unfold max_redirect_hops. cbn [length]. lia.
Qed.

(* a redirect back to the URL the client asked for, or to one already followed, is refused *)
Lemma revisit_refused seen u : In (follow_key u) seen -> may_follow seen u = false.
Proof.
  intros H. destruct (may_follow seen u) eqn:E; [|reflexivity].
  apply may_follow_spec in E as [E _]. contradiction.
Qed.
