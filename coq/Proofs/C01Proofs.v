(* C01: Rules.Match returns the first eligible proxy rule, and eligibility in the
   code refines the matching relation of the property. *)
From Coq Require Import List NArith ZArith Bool Lia Arith.
From Verif Require Import GoStr GoHeader Tables Route SpecC01.
Import ListNotations.
Open Scope N_scope.

(* ---------- wildcard positions ---------- *)

(* what NewRule accepts: no '*' at all, or exactly one, as the last byte *)
Definition path_valid (p : str) : Prop :=
  ~ In 42 p \/ exists pre, p = pre ++ [42] /\ ~ In 42 pre.

Definition rule_valid (r : rule) : Prop := path_valid (r_path r).

Lemma lower_byte_star c : lower_byte c = 42 <-> c = 42.
Proof.
  unfold lower_byte. destruct ((65 <=? c) && (c <=? 90)) eqn:E.
  - apply andb_true_iff in E as [E1 E2]. apply N.leb_le in E1, E2. split; lia.
  - tauto.
Qed.

Lemma index_byte_to_lower_star s : index_byte (to_lower s) 42 = index_byte s 42.
Proof.
  induction s as [|c s IH]; simpl; [reflexivity|]. rewrite IH.
  destruct (N.eqb (lower_byte c) 42) eqn:E; destruct (N.eqb c 42) eqn:E2; try reflexivity.
  - apply N.eqb_eq in E. apply (proj1 (lower_byte_star c)) in E. apply N.eqb_neq in E2. contradiction.
  - apply N.eqb_eq in E2. subst. vm_compute in E. discriminate.
Qed.

Lemma index_byte_notin s c : ~ In c s -> index_byte s c = None.
Proof.
  induction s as [|x s IH]; simpl; intros H; [reflexivity|].
  destruct (N.eqb_spec x c) as [E|E]; [exfalso; apply H; left; exact E|].
  rewrite IH; [reflexivity|]. intros Hin. apply H. right. exact Hin.
Qed.

Lemma index_byte_app_last pre c : ~ In c pre -> index_byte (pre ++ [c]) c = Some (length pre).
Proof.
  induction pre as [|x pre IH]; simpl; intros H.
  - rewrite N.eqb_refl. reflexivity.
  - destruct (N.eqb_spec x c) as [E|E]; [exfalso; apply H; left; exact E|].
    rewrite IH; [reflexivity|]. intros Hin. apply H. right. exact Hin.
Qed.

Lemma wildcard_prefix_app pre : wildcard_prefix (pre ++ [42]) = Some pre.
Proof. unfold wildcard_prefix. rewrite rev_app_distr. simpl. rewrite rev_involutive. reflexivity. Qed.

Lemma wildcard_prefix_notin p : ~ In 42 p -> wildcard_prefix p = None.
Proof.
  unfold wildcard_prefix. intros H. destruct (rev p) as [|c r] eqn:E; [reflexivity|].
  destruct (N.eqb_spec c 42) as [Ec|Ec].
  - subst. exfalso. apply H. apply in_rev. rewrite E. left. reflexivity.
  - destruct c as [|c]; [reflexivity|]. repeat (destruct c as [c|c|]; try reflexivity). exfalso. apply Ec. reflexivity.
Qed.

Lemma wc_index_valid_none p : ~ In 42 p -> wc_index p = None.
Proof. intros H. unfold wc_index. rewrite index_byte_to_lower_star. apply index_byte_notin. exact H. Qed.

Lemma wc_index_valid_some pre : ~ In 42 pre -> wc_index (pre ++ [42]) = Some (length pre).
Proof. intros H. unfold wc_index. rewrite index_byte_to_lower_star. apply index_byte_app_last. exact H. Qed.

Lemma firstn_app_exact {X} (a b : list X) : firstn (length a) (a ++ b) = a.
Proof. induction a; simpl; [destruct b; reflexivity | f_equal; assumption]. Qed.

(* ---------- hosts ---------- *)

Lemma last_index_byte_notin s c : ~ In c s -> last_index_byte s c = None.
Proof.
  induction s as [|x s IH]; simpl; intros H; [reflexivity|].
  rewrite IH by (intros Hin; apply H; right; exact Hin).
  destruct (N.eqb_spec x c) as [E|E]; [exfalso; apply H; left; exact E | reflexivity].
Qed.

Lemma mem_byte_false c s : mem_byte c s = false <-> ~ In c s.
Proof.
  split.
  - intros H Hin. apply mem_byte_spec in Hin. congruence.
  - intros H. destruct (mem_byte c s) eqn:E; [apply mem_byte_spec in E; contradiction | reflexivity].
Qed.

(* For well-formed Host values the code's DropPort is the host the property talks about. *)
Lemma drop_port_spec h : host_wellformed h = true -> drop_port h = spec_host h.
Proof.
  unfold host_wellformed, drop_port, spec_host.
  destruct h as [|c rest]; [reflexivity|].
  destruct (N.eqb c 91) eqn:E.
  - apply N.eqb_eq in E. subst c. simpl.
    destruct (last_index_byte rest 93) as [i|] eqn:L; [|discriminate]. intros _.
    replace (S i - 1)%nat with i by lia. reflexivity.
  - destruct (N.eqb c 58) eqn:E58; simpl; [discriminate|]. intros _. reflexivity.
Qed.

(* ---------- the code's eligibility ---------- *)

Definition code_applies (r : rule) (scheme host uri m : str) : bool :=
  r_enabled r && method_ok r m &&
  match attempt_match r scheme host uri with Some _ => true | None => false end.

Lemma constraint_ok_code c v :
  constraint_ok c v = negb (nonempty c && negb (str_eqb c v)).
Proof. destruct c; simpl; [reflexivity|]. rewrite negb_involutive. reflexivity. Qed.

Lemma has_prefix_length s p : has_prefix s p = true -> (length p <= length s)%nat.
Proof.
  intros H. apply has_prefix_spec in H as [t Ht]. subst. rewrite app_length. lia.
Qed.

(* attemptMatch's path test against the property's path relation *)
Lemma path_refines r scheme host uri :
  rule_valid r ->
  (nonempty (r_scheme r) && negb (str_eqb (r_scheme r) scheme)) || (nonempty (r_host r) && negb (str_eqb (r_host r) host)) = false ->
  match path_matches (r_path r) uri with
  | Must => attempt_match r scheme host uri <> None
  | MustNot => attempt_match r scheme host uri = None
  | DontCare => True
  end.
Proof.
  intros V Hc. unfold attempt_match, s_slash, s_star, s_slashstar. rewrite Hc. unfold path_matches.
  destruct V as [V|[pre [Hp V]]].
  - rewrite (wildcard_prefix_notin _ V), (wc_index_valid_none _ V).
    destruct (str_eqb (r_path r) uri) eqn:E; [discriminate|].
    destruct (has_prefix uri (r_path r ++ [63])); [exact I | reflexivity].
  - rewrite Hp, wildcard_prefix_app, (wc_index_valid_some _ V), firstn_app_exact. rewrite <- Hp.
    destruct (str_eqb uri [47] && (str_eqb (r_path r) [42] || str_eqb (r_path r) [47; 42])) eqn:R; [discriminate|].
    destruct (has_prefix uri pre) eqn:P.
    + destruct (Nat.ltb_spec (length pre) (length uri)) as [Hl|Hl]; [|exact I].
      destruct (Nat.leb_spec (length uri) (length pre)) as [Hl2|Hl2]; [lia | discriminate].
    + destruct (Nat.leb (length uri) (length pre)); reflexivity.
Qed.

Lemma applies_refines r scheme hosthdr uri m :
  rule_valid r ->
  match applies r scheme hosthdr uri m with
  | Must => code_applies r scheme (drop_port hosthdr) uri m = true
  | MustNot => code_applies r scheme (drop_port hosthdr) uri m = false
  | DontCare => True
  end.
Proof.
  intros V. unfold applies, code_applies.
  destruct (r_enabled r); simpl; [|reflexivity].
  destruct (method_ok r m); simpl; [|reflexivity].
  destruct (constraint_ok (r_scheme r) scheme) eqn:Cs; simpl.
  2:{ unfold attempt_match. rewrite constraint_ok_code in Cs. apply negb_false_iff in Cs. rewrite Cs. reflexivity. }
  rewrite constraint_ok_code in Cs. apply negb_true_iff in Cs.
  destruct (nonempty (r_host r)) eqn:Nh; simpl.
  - destruct (host_wellformed hosthdr) eqn:W; simpl.
    + rewrite (drop_port_spec _ W).
      destruct (constraint_ok (r_host r) (spec_host hosthdr)) eqn:Ch; simpl.
      * rewrite constraint_ok_code in Ch. apply negb_true_iff in Ch.
        pose proof (path_refines r scheme (spec_host hosthdr) uri V) as P.
        rewrite Cs, Ch in P. specialize (P eq_refl).
        destruct (path_matches (r_path r) uri); [| |exact I].
        -- destruct (attempt_match r scheme (spec_host hosthdr) uri); [reflexivity | contradiction].
        -- rewrite P. reflexivity.
      * unfold attempt_match. rewrite constraint_ok_code in Ch. apply negb_false_iff in Ch.
        rewrite Ch, orb_true_r. reflexivity.
    + (* ill-formed Host with a host constraint: only MustNot (by path) is claimed *)
      destruct (path_matches (r_path r) uri) eqn:PM; [exact I| |exact I].
      destruct (nonempty (r_host r) && negb (str_eqb (r_host r) (drop_port hosthdr))) eqn:Ch.
      * unfold attempt_match. rewrite Ch, orb_true_r. reflexivity.
      * pose proof (path_refines r scheme (drop_port hosthdr) uri V) as P.
        rewrite Cs, Ch in P. specialize (P eq_refl). rewrite PM in P. rewrite P. reflexivity.
  - assert (Ch : forall host, nonempty (r_host r) && negb (str_eqb (r_host r) host) = false)
      by (intros; rewrite Nh; reflexivity).
    assert (Ck : constraint_ok (r_host r) (spec_host hosthdr) = true)
      by (destruct (r_host r); [reflexivity | discriminate]).
    rewrite Ck. simpl.
    pose proof (path_refines r scheme (drop_port hosthdr) uri V) as P.
    rewrite Cs, Ch in P. specialize (P eq_refl).
    destruct (path_matches (r_path r) uri); [| |exact I].
    + destruct (attempt_match r scheme (drop_port hosthdr) uri); [reflexivity | contradiction].
    + rewrite P. reflexivity.
Qed.

(* ---------- Rules.Match is "first eligible proxy rule" ---------- *)

Definition midx (m : option rmatch) : option nat :=
  match m with Some (i, _, _) => Some i | None => None end.

Lemma rules_match_from_ge i rs scheme host uri m cp k r t :
  fst (rules_match_from i rs scheme host uri m cp) = Some (k, r, t) -> (i <= k)%nat.
Proof.
  revert i cp; induction rs as [|r0 rs IH]; intros i cp; simpl; [discriminate|].
  destruct (negb (r_enabled r0)); [intros H; apply IH in H; lia|].
  destruct (negb (method_ok r0 m)); [intros H; apply IH in H; lia|].
  destruct (attempt_match r0 scheme host uri); [|intros H; apply IH in H; lia].
  destruct (is_proxy r0); simpl; [intros H; inversion H; lia | intros H; apply IH in H; lia].
Qed.

(* The proxy match is characterised exactly: rule k is proxy-typed and eligible with
   target t, and no proxy-typed rule before it is eligible. *)
Lemma rules_match_first i rs scheme host uri m cp :
  match fst (rules_match_from i rs scheme host uri m cp) with
  | Some (k, r, t) =>
      (i <= k)%nat /\ nth_error rs (k - i) = Some r /\ is_proxy r = true /\
      code_applies r scheme host uri m = true /\ attempt_match r scheme host uri = Some t /\
      forall j r', (j < k - i)%nat -> nth_error rs j = Some r' ->
                   is_proxy r' && code_applies r' scheme host uri m = false
  | None => forall j r', nth_error rs j = Some r' -> is_proxy r' && code_applies r' scheme host uri m = false
  end.
Proof.
  revert i cp; induction rs as [|r0 rs IH]; intros i cp; simpl.
  - intros j r' H. destruct j; discriminate.
  - assert (Skip : forall cp',
        code_applies r0 scheme host uri m = false \/ is_proxy r0 = false ->
        match fst (rules_match_from (S i) rs scheme host uri m cp') with
        | Some (k, r, t) =>
            (i <= k)%nat /\ nth_error (r0 :: rs) (k - i) = Some r /\ is_proxy r = true /\
            code_applies r scheme host uri m = true /\ attempt_match r scheme host uri = Some t /\
            forall j r', (j < k - i)%nat -> nth_error (r0 :: rs) j = Some r' ->
                         is_proxy r' && code_applies r' scheme host uri m = false
        | None => forall j r', nth_error (r0 :: rs) j = Some r' -> is_proxy r' && code_applies r' scheme host uri m = false
        end).
    { intros cp' Hno. specialize (IH (S i) cp').
      destruct (fst (rules_match_from (S i) rs scheme host uri m cp')) as [[[k r] t]|].
      - destruct IH as [Hle [Hn [Hp [Hc [Ht Hb]]]]].
        split; [lia|]. replace (k - i)%nat with (S (k - S i)) by lia. simpl.
        repeat split; auto.
        intros j r' Hj Hn'. destruct j as [|j]; simpl in Hn'.
        + inversion Hn'; subst. destruct Hno as [Hno|Hno]; rewrite Hno; [apply andb_false_r | reflexivity].
        + apply (Hb j); [lia | exact Hn'].
      - intros j r' Hn'. destruct j as [|j]; simpl in Hn'.
        + inversion Hn'; subst. destruct Hno as [Hno|Hno]; rewrite Hno; [apply andb_false_r | reflexivity].
        + apply (IH j). exact Hn'. }
    unfold code_applies in *.
    destruct (r_enabled r0) eqn:En; simpl; [|apply Skip; left; reflexivity].
    destruct (method_ok r0 m) eqn:Me; simpl; [|apply Skip; left; reflexivity].
    destruct (attempt_match r0 scheme host uri) as [t|] eqn:Am; [|apply Skip; left; reflexivity].
    destruct (is_proxy r0) eqn:Pr; simpl.
    + split; [lia|]. rewrite Nat.sub_diag. simpl. rewrite En, Me, Am. repeat split; auto.
      intros j r' Hj. lia.
    + apply Skip. right. reflexivity.
Qed.

(* Rules after the first eligible proxy rule never influence the choice. *)
Lemma later_rules_irrelevant pre r post post' scheme host uri m i cp :
  is_proxy r = true -> code_applies r scheme host uri m = true ->
  fst (rules_match_from i (pre ++ r :: post) scheme host uri m cp) =
  fst (rules_match_from i (pre ++ r :: post') scheme host uri m cp).
Proof.
  intros Hp Hc. revert i cp. induction pre as [|r0 pre IH]; intros i cp; simpl.
  - unfold code_applies in Hc. apply andb_true_iff in Hc as [Hc Ha]. apply andb_true_iff in Hc as [He Hm].
    rewrite He, Hm. simpl. destruct (attempt_match r scheme host uri); [|discriminate]. rewrite Hp. reflexivity.
  - destruct (negb (r_enabled r0)); [apply IH|].
    destruct (negb (method_ok r0 m)); [apply IH|].
    destruct (attempt_match r0 scheme host uri); [|apply IH].
    destruct (is_proxy r0); [reflexivity | apply IH].
Qed.

(* ---------- the model's choice satisfies the property's checker ---------- *)

Lemma tri_not_must_of_false r scheme hosthdr uri m :
  rule_valid r -> code_applies r scheme (drop_port hosthdr) uri m = false ->
  tri_is (applies r scheme hosthdr uri m) Must = false.
Proof.
  intros V H. pose proof (applies_refines r scheme hosthdr uri m V) as A.
  destruct (applies r scheme hosthdr uri m); [congruence | reflexivity | reflexivity].
Qed.

Lemma tri_not_mustnot_of_true r scheme hosthdr uri m :
  rule_valid r -> code_applies r scheme (drop_port hosthdr) uri m = true ->
  tri_is (applies r scheme hosthdr uri m) MustNot = false.
Proof.
  intros V H. pose proof (applies_refines r scheme hosthdr uri m V) as A.
  destruct (applies r scheme hosthdr uri m); [reflexivity | congruence | reflexivity].
Qed.

Lemma choice_ok_from_model i rs scheme hosthdr uri m cp :
  Forall rule_valid rs ->
  choice_ok_from i rs scheme hosthdr uri m
    (midx (fst (rules_match_from i rs scheme (drop_port hosthdr) uri m cp))) = true.
Proof.
  intros V. revert i cp. induction V as [|r0 rs V0 V IH]; intros i cp; simpl; [reflexivity|].
  assert (Skip : forall cp', code_applies r0 scheme (drop_port hosthdr) uri m = false \/ is_proxy r0 = false ->
     (if is_proxy r0
      then match midx (fst (rules_match_from (S i) rs scheme (drop_port hosthdr) uri m cp')) with
           | Some c => if Nat.eqb c i then negb (tri_is (applies r0 scheme hosthdr uri m) MustNot)
                       else negb (tri_is (applies r0 scheme hosthdr uri m) Must)
                            && choice_ok_from (S i) rs scheme hosthdr uri m (midx (fst (rules_match_from (S i) rs scheme (drop_port hosthdr) uri m cp')))
           | None => negb (tri_is (applies r0 scheme hosthdr uri m) Must)
                     && choice_ok_from (S i) rs scheme hosthdr uri m (midx (fst (rules_match_from (S i) rs scheme (drop_port hosthdr) uri m cp')))
           end
      else match midx (fst (rules_match_from (S i) rs scheme (drop_port hosthdr) uri m cp')) with
           | Some c => if Nat.eqb c i then false
                       else choice_ok_from (S i) rs scheme hosthdr uri m (midx (fst (rules_match_from (S i) rs scheme (drop_port hosthdr) uri m cp')))
           | None => choice_ok_from (S i) rs scheme hosthdr uri m (midx (fst (rules_match_from (S i) rs scheme (drop_port hosthdr) uri m cp')))
           end) = true).
  { intros cp' Hno. specialize (IH (S i) cp').
    destruct (fst (rules_match_from (S i) rs scheme (drop_port hosthdr) uri m cp')) as [[[k r] t]|] eqn:E; simpl in *.
    - apply rules_match_from_ge in E. assert (Hk : Nat.eqb k i = false) by (apply Nat.eqb_neq; lia). rewrite Hk.
      destruct (is_proxy r0) eqn:Pr; [|exact IH].
      destruct Hno as [Hno|Hno]; [|discriminate].
      rewrite (tri_not_must_of_false _ _ _ _ _ V0 Hno). exact IH.
    - destruct (is_proxy r0) eqn:Pr; [|exact IH].
      destruct Hno as [Hno|Hno]; [|discriminate].
      rewrite (tri_not_must_of_false _ _ _ _ _ V0 Hno). exact IH. }
  unfold code_applies in Skip.
  destruct (r_enabled r0) eqn:En; simpl; [|apply Skip; left; reflexivity].
  destruct (method_ok r0 m) eqn:Me; simpl; [|apply Skip; left; reflexivity].
  destruct (attempt_match r0 scheme (drop_port hosthdr) uri) as [t|] eqn:Am; [|apply Skip; left; reflexivity].
  destruct (is_proxy r0) eqn:Pr; simpl.
  - rewrite Nat.eqb_refl.
    rewrite (tri_not_mustnot_of_true r0 scheme hosthdr uri m V0); [reflexivity|].
    unfold code_applies. rewrite En, Me, Am. reflexivity.
  - apply Skip. right. reflexivity.
Qed.
