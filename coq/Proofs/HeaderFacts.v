From Coq Require Import List NArith ZArith Bool Lia.
From Verif Require Import GoStr GoHeader.
Import ListNotations.

Lemma hvalues_hset_same h k v : hvalues (hset h k v) k = [v].
Proof. unfold hvalues, hset. simpl. rewrite str_eqb_refl. reflexivity. Qed.

Lemma hget_hset_same h k v : hget (hset h k v) k = v.
Proof. unfold hget. rewrite hvalues_hset_same. reflexivity. Qed.

Lemma hvalues_hset_other h k v k2 : canon_key k2 <> canon_key k -> hvalues (hset h k v) k2 = hvalues h k2.
Proof.
  intros Hne. unfold hvalues, hset, hdel. simpl.
  destruct (str_eqb (canon_key k) (canon_key k2)) eqn:E.
  - apply str_eqb_eq in E. congruence.
  - apply hvalues_raw_hdel_raw_other. exact Hne.
Qed.

Lemma hget_hset_other h k v k2 : canon_key k2 <> canon_key k -> hget (hset h k v) k2 = hget h k2.
Proof. intros H. unfold hget. rewrite hvalues_hset_other by exact H. reflexivity. Qed.

Lemma hvalues_hdel_same h k : hvalues (hdel h k) k = [].
Proof. unfold hvalues, hdel. apply hvalues_raw_hdel_raw_same. Qed.

Lemma hvalues_hdel_other h k k2 : canon_key k2 <> canon_key k -> hvalues (hdel h k) k2 = hvalues h k2.
Proof. intros H. unfold hvalues, hdel. apply hvalues_raw_hdel_raw_other. exact H. Qed.

Lemma hget_hdel_other h k k2 : canon_key k2 <> canon_key k -> hget (hdel h k) k2 = hget h k2.
Proof. intros H. unfold hget. rewrite hvalues_hdel_other by exact H. reflexivity. Qed.

Lemma existsb_str_eqb_In k l : existsb (str_eqb k) l = true <-> In k l.
Proof.
  rewrite existsb_exists. split.
  - intros [x [Hx E]]. apply str_eqb_eq in E. subst. exact Hx.
  - intros H. exists k. split; [exact H | apply str_eqb_refl].
Qed.

Lemma hhas_hdel_same h k : hhas (hdel h k) k = false.
Proof.
  unfold hhas, hdel. destruct (existsb _ _) eqn:E; [|reflexivity].
  apply existsb_str_eqb_In in E. exfalso. eapply hkeys_hdel_raw. exact E.
Qed.

Lemma hhas_hdel_other h k k2 : canon_key k2 <> canon_key k -> hhas (hdel h k) k2 = hhas h k2.
Proof.
  intros Hne. unfold hhas, hdel.
  destruct (existsb (str_eqb (canon_key k2)) (hkeys h)) eqn:E.
  - apply existsb_str_eqb_In. apply existsb_str_eqb_In in E. apply hkeys_hdel_raw_keep; assumption.
  - destruct (existsb _ (hkeys (hdel_raw _ _))) eqn:E2; [|reflexivity].
    apply existsb_str_eqb_In in E2. apply hkeys_hdel_raw_incl in E2.
    apply existsb_str_eqb_In in E2. congruence.
Qed.

Lemma hhas_hdel_false h k k2 : hhas h k2 = false -> hhas (hdel h k) k2 = false.
Proof.
  unfold hhas, hdel. intros H.
  destruct (existsb _ (hkeys (hdel_raw _ _))) eqn:E2; [|reflexivity].
  apply existsb_str_eqb_In in E2. apply hkeys_hdel_raw_incl in E2.
  apply existsb_str_eqb_In in E2. congruence.
Qed.
