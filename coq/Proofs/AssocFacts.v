(* Facts about the association lists of Model/Limiter.v (aput, aget, adel) and sums over them. *)
From Coq Require Import String.
From Coq Require Import List NArith ZArith Bool Lia Permutation.
From Verif Require Import GoStr Limiter.
Import ListNotations.
Open Scope Z_scope.

Definition keys {V} (m : list (str * V)) : list str := map fst m.

Section Assoc.
Context {V : Type}.
Implicit Types m : list (str * V).

Lemma aget_in m k v : aget m k = Some v -> In (k, v) m.
Proof.
  induction m as [|[k' v'] m IH]; cbn [aget]; [discriminate|].
  destruct (str_eqb k' k) eqn:E; intros H.
  - apply str_eqb_eq in E. inversion H; subst. left; reflexivity.
  - right; apply IH; exact H.
Qed.

Lemma aget_none_notin m k : aget m k = None <-> ~ In k (keys m).
Proof.
  induction m as [|[k' v'] m IH]; cbn [aget keys map fst]; [split; [intros _ []|reflexivity]|].
  destruct (str_eqb k' k) eqn:E.
  - apply str_eqb_eq in E. subst. split; [discriminate|]. intros H. exfalso; apply H; left; reflexivity.
  - apply str_eqb_neq in E. rewrite IH. unfold keys. split; intros H.
    + intros [H1|H1]; [contradiction|exact (H H1)].
    + intros H1. apply H. right; exact H1.
Qed.

Lemma aget_some_in_keys m k v : aget m k = Some v -> In k (keys m).
Proof. intros H. apply aget_in in H. unfold keys. apply in_map_iff. exists (k, v). split; [reflexivity|exact H]. Qed.

Lemma in_keys_aget m k : In k (keys m) -> exists v, aget m k = Some v.
Proof.
  intros H. destruct (aget m k) as [v|] eqn:E; [exists v; reflexivity|].
  apply aget_none_notin in E. contradiction.
Qed.

Lemma in_aget m k v : NoDup (keys m) -> In (k, v) m -> aget m k = Some v.
Proof.
  induction m as [|[k' v'] m IH]; cbn [aget keys map fst]; intros ND H; [destruct H|].
  inversion ND as [|? ? Hn ND']; subst.
  destruct H as [H|H].
  - inversion H; subst. rewrite str_eqb_refl. reflexivity.
  - destruct (str_eqb k' k) eqn:E.
    + apply str_eqb_eq in E. subst. exfalso. apply Hn. apply in_map_iff. exists (k, v). split; [reflexivity|exact H].
    + apply IH; assumption.
Qed.

Lemma aget_aput_eq m k v : aget (aput m k v) k = Some v.
Proof.
  induction m as [|[k' v'] m IH]; cbn [aput aget]; [rewrite str_eqb_refl; reflexivity|].
  destruct (str_eqb k' k) eqn:E; cbn [aget]; [rewrite str_eqb_refl; reflexivity|].
  rewrite E. exact IH.
Qed.

Lemma aget_aput_neq m k v k' : k' <> k -> aget (aput m k v) k' = aget m k'.
Proof.
  intros N. induction m as [|[k0 v0] m IH]; cbn [aput aget].
  - destruct (str_eqb k k') eqn:E; [apply str_eqb_eq in E; congruence|reflexivity].
  - destruct (str_eqb k0 k) eqn:E; cbn [aget].
    + apply str_eqb_eq in E. subst k0.
      destruct (str_eqb k k') eqn:E2; [apply str_eqb_eq in E2; congruence|reflexivity].
    + destruct (str_eqb k0 k'); [reflexivity|exact IH].
Qed.

Lemma keys_aput_in m k v : In k (keys m) -> keys (aput m k v) = keys m.
Proof.
  induction m as [|[k' v'] m IH]; cbn [aput keys map fst]; intros H; [destruct H|].
  destruct (str_eqb k' k) eqn:E; cbn [map fst].
  - apply str_eqb_eq in E. subst. reflexivity.
  - f_equal. apply IH. destruct H as [H|H]; [apply str_eqb_neq in E; congruence|exact H].
Qed.

Lemma keys_aput_notin m k v : ~ In k (keys m) -> keys (aput m k v) = keys m ++ [k].
Proof.
  induction m as [|[k' v'] m IH]; cbn [aput keys map fst app]; intros H; [reflexivity|].
  destruct (str_eqb k' k) eqn:E; cbn [map fst].
  - apply str_eqb_eq in E. subst. exfalso; apply H; left; reflexivity.
  - f_equal. apply IH. intros H1. apply H. right; exact H1.
Qed.

Lemma in_keys_aput m k v n : In n (keys (aput m k v)) <-> n = k \/ In n (keys m).
Proof.
  destruct (in_dec str_eq_dec k (keys m)) as [H|H].
  - rewrite (keys_aput_in _ _ _ H). split; [intros H1; right; exact H1|]. intros [E|H1]; [subst; exact H|exact H1].
  - rewrite (keys_aput_notin _ _ _ H). rewrite in_app_iff. cbn [In]. split.
    + intros [H1|[H1|[]]]; [right; exact H1|left; symmetry; exact H1].
    + intros [E|H1]; [right; left; symmetry; exact E|left; exact H1].
Qed.

Lemma nodup_keys_aput m k v : NoDup (keys m) -> NoDup (keys (aput m k v)).
Proof.
  intros ND. destruct (in_dec str_eq_dec k (keys m)) as [H|H].
  - rewrite (keys_aput_in _ _ _ H). exact ND.
  - rewrite (keys_aput_notin _ _ _ H). apply (Permutation_NoDup (l := k :: keys m)); [apply Permutation_cons_append|constructor; assumption].
Qed.

Lemma keys_adel m k : keys (adel m k) = filter (fun n => negb (str_eqb n k)) (keys m).
Proof.
  unfold adel, keys. induction m as [|[k' v'] m IH]; cbn [filter map fst]; [reflexivity|].
  destruct (str_eqb k' k); cbn [negb map fst]; [exact IH|f_equal; exact IH].
Qed.

Lemma in_keys_adel m k n : In n (keys (adel m k)) <-> n <> k /\ In n (keys m).
Proof.
  rewrite keys_adel, filter_In. split.
  - intros [H1 H2]. split; [|exact H1]. apply negb_true_iff, str_eqb_neq in H2. exact H2.
  - intros [H1 H2]. split; [exact H2|]. apply negb_true_iff, str_eqb_neq. exact H1.
Qed.

Lemma nodup_keys_adel m k : NoDup (keys m) -> NoDup (keys (adel m k)).
Proof. intros H. rewrite keys_adel. apply NoDup_filter. exact H. Qed.

Lemma aget_adel_eq m k : aget (adel m k) k = None.
Proof. apply aget_none_notin. rewrite in_keys_adel. intros [H _]. apply H; reflexivity. Qed.

Lemma aget_adel_neq m k k' : k' <> k -> aget (adel m k) k' = aget m k'.
Proof.
  intros N. unfold adel. induction m as [|[k0 v0] m IH]; cbn [filter aget fst]; [reflexivity|].
  destruct (str_eqb k0 k) eqn:E; cbn [negb aget].
  - apply str_eqb_eq in E. subst k0.
    destruct (str_eqb k k') eqn:E2; [apply str_eqb_eq in E2; congruence|exact IH].
  - destruct (str_eqb k0 k'); [reflexivity|exact IH].
Qed.

Lemma adel_notin m k : ~ In k (keys m) -> adel m k = m.
Proof.
  unfold adel. induction m as [|[k0 v0] m IH]; cbn [filter keys map fst]; intros H; [reflexivity|].
  destruct (str_eqb k0 k) eqn:E; cbn [negb].
  - apply str_eqb_eq in E. subst. exfalso; apply H; left; reflexivity.
  - f_equal. apply IH. intros H1; apply H; right; exact H1.
Qed.

Lemma adel_comm m a b : adel (adel m a) b = adel (adel m b) a.
Proof.
  unfold adel. induction m as [|[k0 v0] m IH]; cbn [filter fst]; [reflexivity|].
  destruct (str_eqb k0 a) eqn:Ea, (str_eqb k0 b) eqn:Eb; cbn [negb filter fst]; rewrite ?Ea, ?Eb; cbn [negb];
    rewrite ?IH; reflexivity.
Qed.

(* sums *)
Variable f : V -> Z.
Fixpoint gsum m : Z := match m with [] => 0 | p :: m' => f (snd p) + gsum m' end.
Definition gval m k : Z := match aget m k with Some v => f v | None => 0 end.

Lemma gsum_app a b : gsum (a ++ b) = gsum a + gsum b.
Proof. induction a as [|x a IH]; cbn [app gsum]; [lia|]. rewrite IH. lia. Qed.

Lemma gsum_adel m k : NoDup (keys m) -> gsum (adel m k) = gsum m - gval m k.
Proof.
  unfold gval. induction m as [|[k0 v0] m IH]; intros ND; [reflexivity|].
  inversion ND as [|? ? Hn ND']; subst.
  unfold adel. cbn [filter fst aget gsum snd].
  destruct (str_eqb k0 k) eqn:E; cbn [negb].
  - apply str_eqb_eq in E. subst k0.
    fold (adel m k). rewrite (adel_notin m k Hn). lia.
  - cbn [gsum snd]. fold (adel m k). rewrite (IH ND'). lia.
Qed.

Lemma gsum_aput m k v : NoDup (keys m) -> gsum (aput m k v) = gsum m - gval m k + f v.
Proof.
  unfold gval. induction m as [|[k0 v0] m IH]; intros ND; [cbn [aput gsum aget snd]; lia|].
  inversion ND as [|? ? Hn ND']; subst.
  cbn [aput aget gsum snd].
  destruct (str_eqb k0 k) eqn:E; cbn [gsum snd].
  - lia.
  - rewrite (IH ND'). lia.
Qed.

Lemma gsum_perm a b : Permutation a b -> gsum a = gsum b.
Proof.
  induction 1 as [|x a b _ IH|x y a|a b c _ IH1 _ IH2]; cbn [gsum]; lia.
Qed.

End Assoc.

(* removing a list of names *)
Definition adels {V} (m : list (str * V)) (ks : list str) : list (str * V) := fold_left (fun f n => adel f n) ks m.

Lemma adels_adel_comm {V} (m : list (str * V)) ks a : adels (adel m a) ks = adel (adels m ks) a.
Proof.
  unfold adels. revert m. induction ks as [|k ks IH]; intros m; cbn [fold_left]; [reflexivity|].
  rewrite <- IH. f_equal. apply adel_comm.
Qed.

Lemma adels_app_comm {V} (m : list (str * V)) a b : adels m (a ++ b) = adels (adels m b) a.
Proof.
  revert m. induction a as [|x a IH]; intros m; cbn [app]; [reflexivity|].
  unfold adels at 1. cbn [fold_left]. fold (adels (adel m x) (a ++ b)). rewrite IH.
  unfold adels at 3. cbn [fold_left]. fold (adels (adel (adels m b) x) a).
  rewrite adels_adel_comm. reflexivity.
Qed.

Lemma in_keys_adels {V} (m : list (str * V)) ks n : In n (keys (adels m ks)) <-> ~ In n ks /\ In n (keys m).
Proof.
  unfold adels. revert m. induction ks as [|k ks IH]; intros m; cbn [fold_left In].
  - split; [intros H; split; [intros []|exact H]|intros [_ H]; exact H].
  - rewrite IH, in_keys_adel. split.
    + intros [H1 [H2 H3]]. split; [|exact H3]. intros [E|H4]; [congruence|contradiction].
    + intros [H1 H2]. split; [|split; [|exact H2]]; intros H; apply H1; [right; exact H|left; congruence].
Qed.
