(* C12/C13 on the schedule model (Model/Coord.v): for every schedule at most one fetch is in flight,
   nobody waits on a free key, every 200 carries a version the origin produced, and once the open
   fetch is answered often enough everybody has been served. *)
From Coq Require Import String.
From Coq Require Import List NArith ZArith Bool Lia.
From Verif Require Import GoStr GoNum GoHeader Sx Tables Coord.
Import ListNotations.
Open Scope Z_scope.

(* who is waiting waits for a holder; the in-flight count never exceeded one; versions served exist *)
Definition out_ok (s : cstate) (o : outcome) : Prop :=
  o_status o = 200 /\ o_whole o = true -> 1 <= o_ver o <= co_version s.

Record Inv (s : cstate) : Prop := mkInv {
  i_wait : co_waiters s <> [] -> co_active s <> None;
  i_max : (co_maxin s <= 1)%nat;
  i_entry : match co_entry s with Some (v, _) => 1 <= v <= co_version s | None => True end;
  i_ver : 0 <= co_version s;
  i_done : Forall (fun p => out_ok s (snd p)) (co_done s)
}.

Lemma inv_init : Inv co_init.
Proof. constructor; cbn; try congruence; try lia; auto. Qed.

Lemma finish_inv s i o : Inv s -> out_ok s o -> Inv (finish s i o).
Proof.
  intros [A B C D E] H. constructor; cbn [finish co_waiters co_active co_maxin co_entry co_version co_done]; try assumption.
  apply Forall_app. split; [exact E|]. constructor; [exact H|constructor].
Qed.

Lemma lookup_inv maxage swr s i : Inv s -> Inv (lookup maxage swr s i).
Proof.
  intros I. pose proof I as [A B C D E]. unfold lookup.
  destruct (co_entry s) as [[v t]|] eqn:Ee.
  - destruct (fresh maxage s).
    + apply finish_inv; [exact I|]. unfold out_ok. cbn. intros _. exact C.
    + destruct (co_active s) as [act|] eqn:Ea.
      * destruct swr.
        -- apply finish_inv; [exact I|]. unfold out_ok. cbn. intros _. exact C.
        -- constructor; cbn [co_waiters co_active co_maxin co_entry co_version co_done];
             try assumption; try (intros _; discriminate); try (rewrite Ee; exact C).
      * constructor; cbn [co_waiters co_active co_maxin co_entry co_version co_done];
          try assumption; try (intros _; discriminate); try (rewrite Ee; exact C); try lia.
  - destruct (co_active s) as [act|] eqn:Ea;
      constructor; cbn [co_waiters co_active co_maxin co_entry co_version co_done];
        try assumption; try (intros _; discriminate); try exact Logic.I; try lia.
Qed.

Lemma lookups_inv maxage swr ws : forall s, Inv s -> Inv (fold_left (lookup maxage swr) ws s).
Proof. induction ws as [|w ws IH]; intros s I; cbn [fold_left]; [exact I|]. apply IH. apply lookup_inv. exact I. Qed.

(* everything but "who waits, waits for a holder": what holds in the instant the key is released *)
Record Inv0 (s : cstate) : Prop := mkInv0 {
  j_max : (co_maxin s <= 1)%nat;
  j_entry : match co_entry s with Some (v, _) => 1 <= v <= co_version s | None => True end;
  j_ver : 0 <= co_version s;
  j_done : Forall (fun p => out_ok s (snd p)) (co_done s)
}.

Lemma wake_inv maxage swr s : Inv0 s -> Inv (wake maxage swr s).
Proof.
  intros [B C D E]. unfold wake. apply lookups_inv.
  constructor; cbn [co_waiters co_active co_maxin co_entry co_version co_done]; try assumption. congruence.
Qed.

Lemma released_inv maxage swr s e ver i o :
  Inv s -> co_version s <= ver ->
  match e with Some (v, _) => 1 <= v <= ver | None => True end ->
  (o_status o = 200 /\ o_whole o = true -> 1 <= o_ver o <= ver) ->
  Inv (wake maxage swr (finish (mkCo e (co_now s) None (co_waiters s) (co_nfetch s) ver (co_done s) (co_maxin s)) i o)).
Proof.
  intros [A B C D E] Hv He Ho. apply wake_inv.
  constructor; cbn [finish co_waiters co_active co_maxin co_entry co_version co_done]; try assumption; try lia.
  apply Forall_app. split.
  - eapply Forall_impl; [|exact E]. intros p Hp. unfold out_ok in *. cbn [finish co_version]. intros Hc. specialize (Hp Hc). lia.
  - constructor; [|constructor]. unfold out_ok. cbn [snd finish co_version]. exact Ho.
Qed.

Lemma leave_waiter_inv s i : Inv s ->
  Inv (finish (mkCo (co_entry s) (co_now s) (co_active s) (without i (co_waiters s)) (co_nfetch s) (co_version s) (co_done s) (co_maxin s)) i gone).
Proof.
  intros I. pose proof I as [A B C D E]. apply finish_inv; [|intros [H _]; discriminate].
  constructor; cbn [co_waiters co_active co_maxin co_entry co_version co_done]; try assumption.
  intros Hw. apply A. intros Hn. apply Hw. rewrite Hn. reflexivity.
Qed.

Theorem step_inv maxage swr s a : Inv s -> Inv (cstep maxage swr s a).
Proof.
  intros I. pose proof I as [A B C D E]. destruct a as [i|k how|i|dt|i]; cbn [cstep].
  5: {
    pose proof (leave_waiter_inv s i I) as W.
    destruct (is_done s i); [exact I|].
    destruct (co_active s) as [[[[k j] cond] t0]|] eqn:Ea; [|exact W].
    destruct (Nat.eqb j i); [|exact W].
    apply released_inv; [exact I|lia|exact C|intros [H _]; discriminate]. }
  - apply lookup_inv. exact I.
  - destruct (co_active s) as [[[[k' i] cond] t0]|] eqn:Ea; [|exact I].
    destruct (Nat.eqb k k'); cbn [negb]; [|exact I].
    assert (New : Inv (wake maxage swr (finish (mkCo (Some (co_version s + 1, if cond then co_now s else t0)) (co_now s) None (co_waiters s) (co_nfetch s) (co_version s + 1) (co_done s) (co_maxin s)) i
                                         (mkOut 200 (co_version s + 1) true (if cond then KRevalidated else KMiss))))).
    { apply released_inv; [exact I|lia|lia|cbn; lia]. }
    destruct how.
    + exact New.
    + destruct cond; [|exact New]. destruct (co_entry s) as [[v t]|] eqn:Ee; [|exact New].
      apply released_inv; [exact I|lia|exact C|cbn; intros _; exact C].
    + apply released_inv; [exact I|lia|exact C|cbn; intros [H _]; discriminate].
    + apply released_inv; [exact I|lia|exact C|cbn; intros [H _]; discriminate].
    + apply released_inv; [exact I|lia| |cbn; intros [_ H]; discriminate].
      destruct cond; [|exact Logic.I]. destruct (co_entry s) as [[v t]|]; [lia|exact Logic.I].
  - exact I.
  - constructor; cbn [co_waiters co_active co_maxin co_entry co_version co_done]; assumption.
Qed.

Theorem run_inv maxage swr acts : forall s, Inv s -> Inv (crun maxage swr s acts).
Proof.
  unfold crun. induction acts as [|a acts IH]; intros s I; cbn [fold_left]; [exact I|].
  apply IH. apply step_inv. exact I.
Qed.

(* ---------- nobody is left waiting ---------- *)
Definition load (s : cstate) : nat := length (co_waiters s) + match co_active s with Some _ => 1 | None => 0 end.

Lemma lookup_load maxage swr s i :
  (load (lookup maxage swr s i) <= load s + 1)%nat
  /\ (co_active s <> None -> co_active (lookup maxage swr s i) = co_active s)
  /\ (co_active s = None -> length (co_waiters (lookup maxage swr s i)) = length (co_waiters s)).
Proof.
  unfold lookup, load. destruct (co_entry s) as [[v t]|]; [destruct (fresh maxage s)|];
    destruct (co_active s) as [act|] eqn:Ea; try destruct swr;
    cbn [finish co_waiters co_active]; rewrite ?Ea, ?app_length; cbn [length]; repeat split; try congruence; try lia.
Qed.

(* waking n waiters of a free key leaves at most n requests holding or waiting *)
Lemma lookups_load maxage swr ws : forall s,
  (load (fold_left (lookup maxage swr) ws s) <= load s + length ws)%nat.
Proof.
  induction ws as [|w ws IH]; intros s; cbn [fold_left length]; [lia|].
  specialize (IH (lookup maxage swr s w)). destruct (lookup_load maxage swr s w) as [H _]. lia.
Qed.

Lemma wake_load maxage swr s : co_active s = None -> (load (wake maxage swr s) <= length (co_waiters s))%nat.
Proof.
  intros Ha. unfold wake.
  set (s0 := mkCo (co_entry s) (co_now s) (co_active s) [] (co_nfetch s) (co_version s) (co_done s) (co_maxin s)).
  pose proof (lookups_load maxage swr (co_waiters s) s0) as H.
  assert (L0 : load s0 = 0%nat) by (unfold load, s0; cbn [co_waiters co_active length]; rewrite Ha; reflexivity).
  lia.
Qed.

Lemma answer_new_load maxage swr s k i cond t0 :
  co_active s = Some (k, i, cond, t0) -> (load (cstep maxage swr s (CAnswer k ANew)) < load s)%nat.
Proof.
  intros Ea. cbn [cstep]. rewrite Ea, Nat.eqb_refl. cbn [negb].
  match goal with |- (load (wake _ _ ?st) < _)%nat => pose proof (wake_load maxage swr st eq_refl) as H; cbn [finish co_waiters] in H end.
  assert (L : load s = S (length (co_waiters s))) by (unfold load; rewrite Ea; lia).
  lia.
Qed.

Theorem drain_serves_everyone maxage swr fuel : forall s,
  (load s <= fuel)%nat -> Inv s ->
  co_active (drain fuel maxage swr s) = None /\ co_waiters (drain fuel maxage swr s) = [].
Proof.
  induction fuel as [|f IH]; intros s Hl I.
  - cbn [drain]. unfold load in Hl. destruct (co_active s); [lia|]. destruct (co_waiters s); [split; reflexivity|cbn in Hl; lia].
  - cbn [drain]. destruct (co_active s) as [[[[k i] cond] t0]|] eqn:Ea.
    + apply IH; [|apply step_inv; exact I].
      pose proof (answer_new_load maxage swr s k i cond t0 Ea). lia.
    + split; [exact Ea|]. destruct (co_waiters s) as [|w ws] eqn:Ew; [reflexivity|].
      exfalso. apply (i_wait _ I); [rewrite Ew; discriminate|exact Ea].
Qed.
