(* C08: the freshness decision of cache.Get. *)
From Coq Require Import String.
From Coq Require Import List NArith ZArith Bool Lia.
From Verif Require Import GoStr GoNum GoHeader Tables Route Forward Serve Meta Fresh Key Cache.
Import ListNotations.
Open Scope Z_scope.

Definition entry_age (now : Z) (m : meta) : Z :=
  if negb (m_revalidated m =? 0) then now - m_revalidated m else now - m_created m.

(* the explicit lifetime test of the property, on decoded metadata *)
Definition within_lifetime (c : mcfg) (now force : Z) (m : meta) : Prop :=
  let age := entry_age now m in
  let dirs := get_directives (m_resph m) in
  (force = 0 \/ age < force) /\
  match d_smaxage dirs with
  | Some s => age < s
  | None => match d_maxage dirs with
            | Some a => age < a
            | None => hget (m_resph m) s_expires = [] \/ now < expires_unix c (hget (m_resph m) s_expires)
            end
  end.

Lemma within_lifetime_dec c now force m :
  let age := entry_age now m in
  let dirs := get_directives (m_resph m) in
  let should0 := if force =? 0 then false else force <=? age in
  let should1 := if should0 then true
                 else match d_smaxage dirs with
                      | Some s => s <=? age
                      | None => match d_maxage dirs with Some a => a <=? age | None => false end
                      end in
  let no_age := match d_smaxage dirs, d_maxage dirs with None, None => true | _, _ => false end in
  let should2 := if negb should1 && nonempty (hget (m_resph m) s_expires) && no_age
                 then expires_unix c (hget (m_resph m) s_expires) <=? now else should1 in
  should2 = false <-> within_lifetime c now force m.
Proof.
  unfold within_lifetime. cbv zeta.
  set (age := entry_age now m). set (E := hget (m_resph m) s_expires). set (X := expires_unix c E).
  destruct (Z.eqb_spec force 0) as [Ef|Ef];
  destruct (Z.leb_spec force age) as [Eg|Eg];
  destruct (d_smaxage (get_directives (m_resph m))) as [s|];
  try destruct (Z.leb_spec s age) as [Es|Es];
  destruct (d_maxage (get_directives (m_resph m))) as [a|];
  try destruct (Z.leb_spec a age) as [Ea|Ea];
  destruct E as [|x e] eqn:EE;
  destruct (Z.leb_spec X now) as [Ee|Ee].
  all:   cbn [negb andb nonempty]; rewrite ?andb_false_r, ?andb_true_r; cbn [negb andb].
  all: split; intros H.
  all: try discriminate H.
  all: try reflexivity.
  all: try (split; [first [left; assumption | right; assumption | lia]
                   | first [assumption | left; reflexivity | right; assumption | lia]]).
  all: try (exfalso; destruct H as [[H1|H1] H2]; try lia; try (destruct H2 as [H2|H2]; [discriminate H2 | lia])).
Qed.

(* An entry is handed out as fresh (Found, not stale) or answered 304 from the cache only
   within its explicit lifetime; past it, unless the caller may use stale content, the
   request becomes the revalidating writer. *)
Lemma cache_get_decision c d now force skip keys dflt :
  match cache_get c d now force skip keys dflt with
  | (_, GFound f age stale) =>
      age = entry_age now (f_meta f) /\
      (stale = false <-> within_lifetime c now force (f_meta f)) /\
      (stale = true -> skip = true)
  | (_, GClient304 f age) => age = entry_age now (f_meta f) /\ within_lifetime c now force (f_meta f)
  | (_, GRevalWriter f age) => age = entry_age now (f_meta f) /\ ~ within_lifetime c now force (f_meta f) /\ skip = false
  | (_, GWriter _) => True
  end.
Proof.
  unfold cache_get. destruct (storage_get (mc_hash c) d keys) as [d' [f|]]; [|exact I].
  pose proof (within_lifetime_dec c now force (f_meta f)) as W. cbv zeta in W.
  fold (entry_age now (f_meta f)) in *.
  set (age := entry_age now (f_meta f)) in *.
  set (dirs := get_directives (m_resph (f_meta f))) in *.
  set (should0 := if force =? 0 then false else force <=? age) in *.
  set (should1 := if should0 then true else match d_smaxage dirs with
                      | Some s => s <=? age
                      | None => match d_maxage dirs with Some a => a <=? age | None => false end
                      end) in *.
  set (no_age := match d_smaxage dirs, d_maxage dirs with None, None => true | _, _ => false end) in *.
  set (should2 := if negb should1 && nonempty (hget (m_resph (f_meta f)) s_expires) && no_age
                 then expires_unix c (hget (m_resph (f_meta f)) s_expires) <=? now else should1) in *.
  destruct should2 eqn:S2; cbn [negb andb].
  - (* stale *)
    destruct skip; cbn [andb].
    + split; [reflexivity|]. split; [|auto]. split; [discriminate | intros H; apply W in H; discriminate].
    + split; [reflexivity|]. split; [|reflexivity]. intros H. apply W in H. discriminate.
  - destruct (client_304 c (f_key f) (f_meta f)).
    + split; [reflexivity|]. apply W. reflexivity.
    + split; [reflexivity|]. split; [|discriminate]. split; [intros _; apply W; reflexivity | reflexivity].
Qed.
