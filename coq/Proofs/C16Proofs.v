(* C16: the size limiter keeps the stored bytes within the limit and removes nothing while they
   are within it -- proved for the limiter model of Model/Limiter.v over all histories of fills,
   hits, flushes, ticks and restarts whose entry sizes are whole KiB below 4 GiB and in which nothing
   changes the directory behind the limiter's back (the region outside finding F14). *)
From Coq Require Import String.
From Coq Require Import List NArith ZArith Bool Lia Permutation.
From Verif Require Import GoStr GoNum GoHeader Tables Limiter AssocFacts.
Import ListNotations.
Open Scope Z_scope.

Ltac Zify.zify_post_hook ::= Z.div_mod_to_equations.

Definition ok_size (sz : Z) : Prop := (0 <= sz < 4294967296) /\ sz mod 1024 = 0.

Lemma kib_of_ok sz : ok_size sz -> kib_of sz = sz / 1024.
Proof. unfold ok_size, kib_of, u32. intros [H1 H2]. apply Z.mod_small. lia. Qed.

Lemma item_bytes_ok sz : ok_size sz -> item_bytes (sz / 1024) = sz.
Proof. unfold ok_size, item_bytes, u32. intros [H1 H2]. rewrite Z.mod_small; lia. Qed.

Lemma item_bytes_0 : item_bytes 0 = 0.
Proof. reflexivity. Qed.

Definition wsum : list (str * (Z * Z)) -> Z := gsum (fun v : Z * Z => item_bytes (snd v)).
Definition osum : list (str * Z) -> Z := gsum item_bytes.
Definition fsum : list (str * Z) -> Z := gsum (fun sz : Z => sz).
Definition wval := gval (fun v : Z * Z => item_bytes (snd v)).
Definition oval := gval item_bytes.
Definition fval := gval (fun sz : Z => sz).

Lemma fold_left_fsum files a : fold_left (fun acc (f : str * Z) => acc + snd f) files a = a + fsum files.
Proof.
  revert a. induction files as [|x files IH]; intros a; cbn [fold_left fsum gsum]; [lia|].
  rewrite IH. unfold fsum. lia.
Qed.

Definition kibof (l : lim) (n : str) : option Z :=
  match aget (l_with l) n with Some (_, k) => Some k | None => aget (l_without l) n end.

Record Inv (s : hstate) : Prop := mkInv {
  inv_ndf : NoDup (keys (snd s));
  inv_ndw : NoDup (keys (l_with (fst s)));
  inv_ndo : NoDup (keys (l_without (fst s)));
  inv_disj : forall n, In n (keys (l_with (fst s))) -> ~ In n (keys (l_without (fst s)));
  inv_fk : forall n sz, aget (snd s) n = Some sz -> ok_size sz /\ kibof (fst s) n = Some (sz / 1024);
  inv_kf : forall n, In n (keys (l_with (fst s))) \/ In n (keys (l_without (fst s))) -> exists sz, aget (snd s) n = Some sz;
  inv_sf : l_size (fst s) = fsum (snd s);
  inv_sm : l_size (fst s) = wsum (l_with (fst s)) + osum (l_without (fst s));
  inv_max : 0 <= l_max (fst s)
}.

(* only the accounted part of the limiter matters *)
Lemma Inv_ext l l' files :
  l_size l' = l_size l -> l_with l' = l_with l -> l_without l' = l_without l -> l_max l' = l_max l ->
  Inv (l, files) -> Inv (l', files).
Proof.
  intros E1 E2 E3 E4 [A B C D E F G H I]. cbn [fst snd] in *.
  constructor; cbn [fst snd]; unfold kibof in *; rewrite ?E1, ?E2, ?E3, ?E4; assumption.
Qed.

(* ---------- one removal ---------- *)
Definition rem_with (l : lim) (n : str) : lim :=
  let kib := match aget (l_with l) n with Some (_, k) => k | None => 0 end in
  mkLim (l_size l - item_bytes kib) (adel (l_with l) n) (l_without l) (l_storable l) (l_log l) (l_max l).
Definition rem_without (l : lim) (n : str) : lim :=
  let kib := match aget (l_without l) n with Some k => k | None => 0 end in
  mkLim (l_size l - item_bytes kib) (l_with l) (adel (l_without l) n) (l_storable l) (l_log l) (l_max l).

Lemma removed_eq l wo wi : removed l wo wi = fold_left rem_without wo (fold_left rem_with wi l).
Proof. reflexivity. Qed.

Lemma notin_maps_notin_files l files n :
  Inv (l, files) -> ~ In n (keys (l_with l)) -> ~ In n (keys (l_without l)) -> aget files n = None.
Proof.
  intros I H1 H2. destruct (aget files n) as [sz|] eqn:E; [|reflexivity].
  destruct (inv_fk _ I n sz E) as [_ K]. cbn [fst] in K. unfold kibof in K.
  apply aget_none_notin in H1, H2. rewrite H1, H2 in K. discriminate.
Qed.

Lemma wval_size l files n :
  Inv (l, files) -> ~ In n (keys (l_without l)) ->
  item_bytes (match aget (l_with l) n with Some (_, k) => k | None => 0 end) = fval files n
  /\ item_bytes (match aget (l_with l) n with Some (_, k) => k | None => 0 end) = wval (l_with l) n.
Proof.
  intros I Hno. split.
  - unfold fval, gval. destruct (aget (l_with l) n) as [[t k]|] eqn:E.
    + destruct (inv_kf _ I n) as [sz Hsz]; [left; cbn [fst]; eapply aget_some_in_keys; exact E|]. cbn [snd] in Hsz.
      rewrite Hsz. destruct (inv_fk _ I n sz Hsz) as [Hok K]. cbn [fst] in K. unfold kibof in K. rewrite E in K.
      inversion K; subst. apply item_bytes_ok. exact Hok.
    + apply aget_none_notin in E. rewrite (notin_maps_notin_files l files n I E Hno). reflexivity.
  - unfold wval, gval. destruct (aget (l_with l) n) as [[t k]|]; reflexivity.
Qed.

Lemma oval_size l files n :
  Inv (l, files) -> ~ In n (keys (l_with l)) ->
  item_bytes (match aget (l_without l) n with Some k => k | None => 0 end) = fval files n
  /\ item_bytes (match aget (l_without l) n with Some k => k | None => 0 end) = oval (l_without l) n.
Proof.
  intros I Hno. split.
  - unfold fval, gval. destruct (aget (l_without l) n) as [k|] eqn:E.
    + destruct (inv_kf _ I n) as [sz Hsz]; [right; cbn [fst]; eapply aget_some_in_keys; exact E|]. cbn [snd] in Hsz.
      rewrite Hsz. destruct (inv_fk _ I n sz Hsz) as [Hok K]. cbn [fst] in K. unfold kibof in K.
      apply aget_none_notin in Hno. rewrite Hno, E in K.
      inversion K; subst. apply item_bytes_ok. exact Hok.
    + apply aget_none_notin in E. rewrite (notin_maps_notin_files l files n I Hno E). reflexivity.
  - unfold oval, gval. destruct (aget (l_without l) n); reflexivity.
Qed.

Lemma rem_with_inv l files n :
  Inv (l, files) -> ~ In n (keys (l_without l)) -> Inv (rem_with l n, adel files n).
Proof.
  intros I Hno. destruct (wval_size l files n I Hno) as [V1 V2].
  pose proof I as [A B C D E F G H J]. cbn [fst snd] in *.
  constructor; cbn [fst snd rem_with l_with l_without l_size l_max].
  - apply nodup_keys_adel; exact A.
  - apply nodup_keys_adel; exact B.
  - exact C.
  - intros x Hx. apply in_keys_adel in Hx as [_ Hx]. apply D; exact Hx.
  - intros x sz Hx. destruct (str_eq_dec x n) as [->|Nx]; [rewrite aget_adel_eq in Hx; discriminate|].
    rewrite aget_adel_neq in Hx by exact Nx. destruct (E x sz Hx) as [Hok K]. split; [exact Hok|].
    unfold kibof in *. cbn [l_with l_without rem_with rem_without]. rewrite aget_adel_neq by exact Nx. exact K.
  - intros x Hx. assert (Nx : x <> n).
    { destruct Hx as [Hx|Hx]; [apply in_keys_adel in Hx as [Hx _]; exact Hx|intros ->; contradiction]. }
    destruct (F x) as [sz Hsz].
    { destruct Hx as [Hx|Hx]; [left; apply in_keys_adel in Hx as [_ Hx]; exact Hx|right; exact Hx]. }
    exists sz. rewrite aget_adel_neq by exact Nx. exact Hsz.
  - unfold fsum. rewrite gsum_adel by exact A. fold fsum. fold fval. rewrite V1. lia.
  - unfold wsum. rewrite gsum_adel by exact B. fold wsum. fold wval. rewrite V2. lia.
  - exact J.
Qed.

Lemma rem_without_inv l files n :
  Inv (l, files) -> ~ In n (keys (l_with l)) -> Inv (rem_without l n, adel files n).
Proof.
  intros I Hno. destruct (oval_size l files n I Hno) as [V1 V2].
  pose proof I as [A B C D E F G H J]. cbn [fst snd] in *.
  constructor; cbn [fst snd rem_without l_with l_without l_size l_max].
  - apply nodup_keys_adel; exact A.
  - exact B.
  - apply nodup_keys_adel; exact C.
  - intros x Hx Hx2. apply in_keys_adel in Hx2 as [_ Hx2]. exact (D x Hx Hx2).
  - intros x sz Hx. destruct (str_eq_dec x n) as [->|Nx]; [rewrite aget_adel_eq in Hx; discriminate|].
    rewrite aget_adel_neq in Hx by exact Nx. destruct (E x sz Hx) as [Hok K]. split; [exact Hok|].
    unfold kibof in *. cbn [l_with l_without rem_with rem_without]. rewrite aget_adel_neq by exact Nx. exact K.
  - intros x Hx. assert (Nx : x <> n).
    { destruct Hx as [Hx|Hx]; [intros ->; contradiction|apply in_keys_adel in Hx as [Hx _]; exact Hx]. }
    destruct (F x) as [sz Hsz].
    { destruct Hx as [Hx|Hx]; [left; exact Hx|right; apply in_keys_adel in Hx as [_ Hx]; exact Hx]. }
    exists sz. rewrite aget_adel_neq by exact Nx. exact Hsz.
  - unfold fsum. rewrite gsum_adel by exact A. fold fsum. fold fval. rewrite V1. lia.
  - unfold osum. rewrite gsum_adel by exact C. fold osum. fold oval. rewrite V2. lia.
  - exact J.
Qed.

Lemma rem_withs_inv wi : forall l files,
  Inv (l, files) -> (forall n, In n wi -> ~ In n (keys (l_without l))) ->
  Inv (fold_left rem_with wi l, adels files wi)
  /\ l_without (fold_left rem_with wi l) = l_without l
  /\ (forall n, In n (keys (l_with (fold_left rem_with wi l))) -> In n (keys (l_with l))).
Proof.
  induction wi as [|n wi IH]; intros l files I H; cbn [fold_left]; [split; [exact I|split; [reflexivity|auto]]|].
  unfold adels. cbn [fold_left]. fold (adels (adel files n) wi).
  destruct (IH (rem_with l n) (adel files n)) as [I' [E S]].
  - apply rem_with_inv; [exact I|apply H; left; reflexivity].
  - intros x Hx. cbn [rem_with l_without]. apply H; right; exact Hx.
  - split; [exact I'|]. split; [exact E|].
    intros x Hx. apply S in Hx. cbn [rem_with l_with] in Hx. apply in_keys_adel in Hx as [_ Hx]. exact Hx.
Qed.

Lemma rem_withouts_inv wo : forall l files,
  Inv (l, files) -> (forall n, In n wo -> ~ In n (keys (l_with l))) ->
  Inv (fold_left rem_without wo l, adels files wo)
  /\ l_with (fold_left rem_without wo l) = l_with l.
Proof.
  induction wo as [|n wo IH]; intros l files I H; cbn [fold_left]; [split; [exact I|reflexivity]|].
  unfold adels. cbn [fold_left]. fold (adels (adel files n) wo).
  destruct (IH (rem_without l n) (adel files n)) as [I' E].
  - apply rem_without_inv; [exact I|apply H; left; reflexivity].
  - intros x Hx. cbn [rem_without l_with]. apply H; right; exact Hx.
  - split; [exact I'|exact E].
Qed.

Lemma removed_inv l files wo wi :
  Inv (l, files) ->
  (forall n, In n wi -> In n (keys (l_with l))) -> (forall n, In n wo -> In n (keys (l_without l))) ->
  Inv (removed l wo wi, adels files (wo ++ wi)).
Proof.
  intros I Hwi Hwo. rewrite removed_eq, adels_app_comm.
  destruct (rem_withs_inv wi l files I) as [I1 [E1 S1]].
  { intros n Hn. apply (inv_disj _ I). apply Hwi; exact Hn. }
  apply rem_withouts_inv; [exact I1|].
  intros n Hn Hc. apply S1 in Hc. apply (inv_disj _ I n Hc). apply Hwo; exact Hn.
Qed.

(* ---------- what a purge selects ---------- *)
Lemma take_spec (items : list (str * Z)) : forall found want ks f,
  take_until_bytes items found want = (ks, f) ->
  exists pre post, items = pre ++ post /\ ks = keys pre /\ f = found + osum pre /\ (want <= f \/ post = []).
Proof.
  induction items as [|[k kib] items IH]; intros found want ks f H; cbn [take_until_bytes] in H.
  - inversion H; subst. exists [], []. repeat split; [cbn; lia|right; reflexivity].
  - destruct (want <=? found + item_bytes kib) eqn:E.
    + inversion H; subst. exists [(k, kib)], items. repeat split; [cbn; lia|left; apply Z.leb_le in E; exact E].
    + destruct (take_until_bytes items (found + item_bytes kib) want) as [ks' f'] eqn:T.
      inversion H; subst. destruct (IH _ _ _ _ T) as [pre [post [E1 [E2 [E3 E4]]]]].
      exists ((k, kib) :: pre), post. subst. repeat split; [|exact E4].
      unfold osum. cbn [gsum snd]. lia.
Qed.

Definition proj (m : list (str * (Z * Z))) : list (str * Z) := map (fun p => (fst p, snd (snd p))) m.

Lemma keys_proj m : keys (proj m) = keys m.
Proof. unfold keys, proj. rewrite map_map. reflexivity. Qed.

Lemma osum_proj m : osum (proj m) = wsum m.
Proof. induction m as [|x m IH]; [reflexivity|]. unfold osum, wsum in *. cbn [proj map gsum snd]. fold (proj m). rewrite IH. reflexivity. Qed.

Lemma oval_proj m n : oval (proj m) n = wval m n.
Proof.
  unfold oval, wval, gval. induction m as [|[k [t kb]] m IH]; [reflexivity|].
  cbn [proj map aget fst snd]. destruct (str_eqb k n); [reflexivity|exact IH].
Qed.

Lemma insert_perm x l : Permutation (x :: l) (insert_by_time x l).
Proof.
  induction l as [|y l IH]; cbn [insert_by_time]; [apply Permutation_refl|].
  destruct (fst (snd x) <? fst (snd y)); [apply Permutation_refl|].
  destruct ((fst (snd x) =? fst (snd y)) && str_leb (fst x) (fst y)); [apply Permutation_refl|].
  eapply perm_trans; [apply perm_swap|]. apply perm_skip. exact IH.
Qed.

Lemma sort_perm l : Permutation l (sort_by_time l).
Proof.
  induction l as [|x l IH]; cbn [sort_by_time fold_right]; [apply perm_nil|].
  eapply perm_trans; [apply perm_skip; exact IH|]. apply insert_perm.
Qed.

Definition lsum (g : str -> Z) (ks : list str) : Z := fold_right (fun n acc => g n + acc) 0 ks.

Lemma lsum_keys {V} (f : V -> Z) (m pre : list (str * V)) :
  NoDup (keys m) -> incl pre m -> lsum (gval f m) (keys pre) = gsum f pre.
Proof.
  intros ND. induction pre as [|[k v] pre IH]; intros Hin; [reflexivity|].
  cbn [keys map fst lsum fold_right gsum snd]. fold (keys pre). fold (lsum (gval f m) (keys pre)).
  rewrite IH by (intros x Hx; apply Hin; right; exact Hx).
  unfold gval at 1. rewrite (in_aget m k v ND) by (apply Hin; left; reflexivity). reflexivity.
Qed.

Lemma size_rem_withs wi : forall l, NoDup wi ->
  l_size (fold_left rem_with wi l) = l_size l - lsum (wval (l_with l)) wi.
Proof.
  induction wi as [|n wi IH]; intros l ND; cbn [fold_left lsum fold_right]; [lia|].
  inversion ND as [|? ? Hn ND']; subst. rewrite IH by exact ND'.
  cbn [rem_with l_size l_with]. fold (lsum (wval (l_with l)) wi).
  assert (E : lsum (wval (adel (l_with l) n)) wi = lsum (wval (l_with l)) wi).
  { clear IH ND ND'. induction wi as [|x wi IH]; [reflexivity|]. cbn [lsum fold_right].
    fold (lsum (wval (adel (l_with l) n)) wi). fold (lsum (wval (l_with l)) wi).
    rewrite IH by (intros H; apply Hn; right; exact H).
    unfold wval, gval. rewrite aget_adel_neq; [reflexivity|]. intros ->. apply Hn; left; reflexivity. }
  rewrite E.
  assert (V : wval (l_with l) n = item_bytes (match aget (l_with l) n with Some (_, k) => k | None => 0 end)).
  { unfold wval, gval. destruct (aget (l_with l) n) as [[t k]|]; reflexivity. }
  rewrite V. lia.
Qed.

Lemma size_rem_withouts wo : forall l, NoDup wo ->
  l_size (fold_left rem_without wo l) = l_size l - lsum (oval (l_without l)) wo.
Proof.
  induction wo as [|n wo IH]; intros l ND; cbn [fold_left lsum fold_right]; [lia|].
  inversion ND as [|? ? Hn ND']; subst. rewrite IH by exact ND'.
  cbn [rem_without l_size l_without]. fold (lsum (oval (l_without l)) wo).
  assert (E : lsum (oval (adel (l_without l) n)) wo = lsum (oval (l_without l)) wo).
  { clear IH ND ND'. induction wo as [|x wo IH]; [reflexivity|]. cbn [lsum fold_right].
    fold (lsum (oval (adel (l_without l) n)) wo). fold (lsum (oval (l_without l)) wo).
    rewrite IH by (intros H; apply Hn; right; exact H).
    unfold oval, gval. rewrite aget_adel_neq; [reflexivity|]. intros ->. apply Hn; left; reflexivity. }
  rewrite E.
  assert (V : oval (l_without l) n = item_bytes (match aget (l_without l) n with Some k => k | None => 0 end)).
  { unfold oval, gval. destruct (aget (l_without l) n) as [k|]; reflexivity. }
  rewrite V. lia.
Qed.

Lemma size_removed l wo wi : NoDup wo -> NoDup wi ->
  l_size (removed l wo wi) = l_size l - lsum (wval (l_with l)) wi - lsum (oval (l_without l)) wo.
Proof.
  intros N1 N2. rewrite removed_eq, size_rem_withouts by exact N1. rewrite size_rem_withs by exact N2.
  assert (E : l_without (fold_left rem_with wi l) = l_without l).
  { clear. revert l. induction wi as [|n wi IH]; intros l; cbn [fold_left]; [reflexivity|]. rewrite IH. reflexivity. }
  rewrite E. reflexivity.
Qed.

Lemma nodup_keys_prefix {V} (pre post : list (str * V)) : NoDup (keys (pre ++ post)) -> NoDup (keys pre).
Proof.
  unfold keys. rewrite map_app. generalize (map fst pre) (map fst post). clear.
  intros a b. induction a as [|x a IH]; cbn [app]; intros H; [constructor|].
  inversion H as [|? ? Hn H']; subst. constructor; [|apply IH; exact H'].
  intros Hc. apply Hn. apply in_or_app; left; exact Hc.
Qed.

(* the selection: names known to the limiter, without repetition, worth at least the wanted bytes
   unless everything is selected *)
Lemma purgeable_spec l excess wo wi :
  NoDup (keys (l_with l)) -> NoDup (keys (l_without l)) ->
  purgeable l excess = (wo, wi) ->
  let want := if max_purge_bytes <? excess then max_purge_bytes else excess in
  (forall n, In n wo -> In n (keys (l_without l))) /\ (forall n, In n wi -> In n (keys (l_with l)))
  /\ NoDup wo /\ NoDup wi
  /\ (want <= lsum (wval (l_with l)) wi + lsum (oval (l_without l)) wo
      \/ lsum (wval (l_with l)) wi + lsum (oval (l_without l)) wo = wsum (l_with l) + osum (l_without l)).
Proof.
  intros NDw NDo H. cbv zeta. unfold purgeable in H.
  set (want := if max_purge_bytes <? excess then max_purge_bytes else excess) in *.
  destruct (take_until_bytes (l_without l) 0 want) as [wo1 found] eqn:T1.
  destruct (take_spec _ _ _ _ _ T1) as [pre [post [E1 [E2 [E3 E4]]]]].
  assert (Hpre : lsum (oval (l_without l)) (keys pre) = osum pre).
  { apply lsum_keys; [exact NDo|]. rewrite E1. intros x Hx. apply in_or_app; left; exact Hx. }
  destruct (want <=? found) eqn:Le.
  - inversion H; subst wo wi. subst wo1. apply Z.leb_le in Le.
    split; [|split; [intros n []|split; [|split; [constructor|]]]].
    + intros n Hn. rewrite E1. unfold keys. rewrite map_app. apply in_or_app; left; exact Hn.
    + rewrite E1 in NDo. apply nodup_keys_prefix in NDo. exact NDo.
    + left. cbn [lsum fold_right]. rewrite Hpre. lia.
  - destruct (take_until_bytes (map (fun p => (fst p, snd (snd p))) (sort_by_time (l_with l))) found want) as [wi1 f2] eqn:T2.
    inversion H; subst wo wi. clear H. fold (proj (sort_by_time (l_with l))) in T2. fold (keys (l_without l)).
    destruct (take_spec _ _ _ _ _ T2) as [pre2 [post2 [F1 [F2 [F3 F4]]]]].
    apply Z.leb_gt in Le. assert (post = []) by (destruct E4 as [E4|E4]; [lia|exact E4]). subst post.
    rewrite app_nil_r in E1. subst pre.
    assert (PP : Permutation (proj (l_with l)) (proj (sort_by_time (l_with l)))) by (apply Permutation_map, sort_perm).
    assert (NDs : NoDup (keys (proj (sort_by_time (l_with l))))).
    { apply (Permutation_NoDup (l := keys (proj (l_with l)))); [apply Permutation_map; exact PP|]. rewrite keys_proj. exact NDw. }
    assert (Hpre2 : lsum (wval (l_with l)) (keys pre2) = osum pre2).
    { unfold osum. rewrite <- (lsum_keys item_bytes (proj (l_with l)) pre2).
      - clear. induction (keys pre2) as [|x ks IH]; [reflexivity|]. cbn [lsum fold_right].
        fold (lsum (wval (l_with l)) ks). fold (lsum (gval item_bytes (proj (l_with l))) ks). rewrite IH.
        fold oval. rewrite oval_proj. reflexivity.
      - rewrite keys_proj. exact NDw.
      - intros x Hx. apply (Permutation_in x (Permutation_sym PP)). rewrite F1. apply in_or_app; left; exact Hx. }
    split; [intros n Hn; exact Hn|]. split; [|split; [exact NDo|split]].
    + intros n Hn. subst wi1. rewrite <- keys_proj.
      apply (Permutation_in n (Permutation_sym (Permutation_map fst PP))).
      rewrite F1. unfold keys. rewrite map_app. apply in_or_app; left; exact Hn.
    + subst wi1. rewrite F1 in NDs. apply nodup_keys_prefix in NDs. exact NDs.
    + subst wi1. rewrite Hpre2. rewrite Hpre in *. subst found.
      destruct F4 as [F4|F4]; [left; lia|]. right. subst post2. rewrite app_nil_r in F1. subst pre2.
      assert (Q : osum (proj (sort_by_time (l_with l))) = wsum (l_with l)).
      { rewrite <- osum_proj. unfold osum. symmetry. apply gsum_perm. exact PP. }
      rewrite Q. reflexivity.
Qed.

(* ---------- a tick ---------- *)
Lemma tick_inv l files :
  Inv (l, files) -> Inv (fst (tick l), adels files (snd (tick l))).
Proof.
  intros I. unfold tick. destruct (l_max l <? l_size l); [|exact I].
  destruct (purgeable l (l_size l - l_max l)) as [wo wi] eqn:P. cbn [fst snd].
  destruct (purgeable_spec l _ wo wi (inv_ndw _ I) (inv_ndo _ I) P) as [H1 [H2 _]].
  apply removed_inv; assumption.
Qed.

Lemma tick_nothing_within_limit l : l_size l <= l_max l -> tick l = (l, []).
Proof. intros H. unfold tick. destruct (l_max l <? l_size l) eqn:E; [apply Z.ltb_lt in E; lia|reflexivity]. Qed.

Lemma tick_size l files :
  Inv (l, files) -> l_size (fst (tick l)) <= Z.max (l_max l) (l_size l - max_purge_bytes).
Proof.
  intros I. unfold tick. destruct (l_max l <? l_size l) eqn:E; [|apply Z.ltb_ge in E; cbn [fst]; lia].
  apply Z.ltb_lt in E.
  destruct (purgeable l (l_size l - l_max l)) as [wo wi] eqn:P. cbn [fst].
  destruct (purgeable_spec l _ wo wi (inv_ndw _ I) (inv_ndo _ I) P) as [_ [_ [N1 [N2 Hamt]]]]. cbv zeta in Hamt.
  rewrite size_removed by assumption.
  pose proof (inv_sm _ I) as SM. pose proof (inv_max _ I) as MX. cbn [fst] in SM, MX.
  destruct (max_purge_bytes <? l_size l - l_max l) eqn:Eb; [apply Z.ltb_lt in Eb|apply Z.ltb_ge in Eb];
    destruct Hamt as [Hamt|Hamt]; lia.
Qed.

(* ---------- the other operations ---------- *)
Lemma add_inv l files n sz t :
  Inv (l, files) -> ok_size sz -> aget files n = None ->
  Inv (fst (lstep l (LAdd n sz t)), aput files n sz).
Proof.
  intros I Hok Hn. pose proof I as [A B C D E F G H J]. cbn [fst snd] in *.
  assert (Nw : ~ In n (keys (l_with l))).
  { intros Hc. destruct (F n (or_introl Hc)) as [s Hs]. congruence. }
  assert (No : ~ In n (keys (l_without l))).
  { intros Hc. destruct (F n (or_intror Hc)) as [s Hs]. congruence. }
  cbn [lstep fst]. rewrite (kib_of_ok sz Hok).
  constructor; cbn [fst snd l_with l_without l_size l_max].
  - apply nodup_keys_aput; exact A.
  - apply nodup_keys_aput; exact B.
  - exact C.
  - intros x Hx. apply in_keys_aput in Hx as [->|Hx]; [exact No|apply D; exact Hx].
  - intros x s Hx. destruct (str_eq_dec x n) as [->|Nx].
    + rewrite aget_aput_eq in Hx. inversion Hx; subst s. split; [exact Hok|].
      unfold kibof. cbn [l_with]. rewrite aget_aput_eq. reflexivity.
    + rewrite aget_aput_neq in Hx by exact Nx. destruct (E x s Hx) as [Hok' K]. split; [exact Hok'|].
      unfold kibof in *. cbn [l_with l_without]. rewrite aget_aput_neq by exact Nx. exact K.
  - intros x Hx. destruct (str_eq_dec x n) as [->|Nx]; [exists sz; apply aget_aput_eq|].
    rewrite aget_aput_neq by exact Nx. apply F.
    destruct Hx as [Hx|Hx]; [left; apply in_keys_aput in Hx as [->|Hx]; [congruence|exact Hx]|right; exact Hx].
  - unfold fsum. rewrite gsum_aput by exact A. fold fsum. unfold gval. rewrite Hn.
    rewrite (item_bytes_ok sz Hok). lia.
  - unfold wsum. rewrite gsum_aput by exact B. fold wsum. unfold gval.
    apply aget_none_notin in Nw. rewrite Nw. cbn [snd]. lia.
  - exact J.
Qed.

Lemma access_inv l files n sz t :
  Inv (l, files) -> aget files n = Some sz ->
  Inv (fst (lstep l (LAccess n sz t)), files).
Proof.
  intros I Hn. pose proof I as [A B C D E F G H J]. cbn [fst snd] in *.
  destruct (E n sz Hn) as [Hok K].
  cbn [lstep fst]. rewrite (kib_of_ok sz Hok).
  constructor; cbn [fst snd l_with l_without l_size l_max].
  - exact A.
  - apply nodup_keys_aput; exact B.
  - apply nodup_keys_adel; exact C.
  - intros x Hx Hx2. apply in_keys_adel in Hx2 as [Nx Hx2].
    apply in_keys_aput in Hx as [->|Hx]; [congruence|exact (D x Hx Hx2)].
  - intros x s Hx. destruct (E x s Hx) as [Hok' K']. split; [exact Hok'|].
    unfold kibof in *. cbn [l_with l_without]. destruct (str_eq_dec x n) as [->|Nx].
    + rewrite aget_aput_eq. congruence.
    + rewrite aget_aput_neq, aget_adel_neq by exact Nx. exact K'.
  - intros x Hx. destruct (str_eq_dec x n) as [->|Nx]; [exists sz; exact Hn|]. apply F.
    destruct Hx as [Hx|Hx]; [left; apply in_keys_aput in Hx as [->|Hx]; [congruence|exact Hx]
                            |right; apply in_keys_adel in Hx as [_ Hx]; exact Hx].
  - exact G.
  - unfold wsum, osum. rewrite gsum_aput by exact B. rewrite gsum_adel by exact C. fold wsum. fold osum.
    cbn [snd]. rewrite (item_bytes_ok sz Hok).
    assert (V : gval (fun v : Z * Z => item_bytes (snd v)) (l_with l) n + gval item_bytes (l_without l) n = sz).
    { unfold gval, kibof in *. destruct (aget (l_with l) n) as [[t0 k0]|] eqn:Ew.
      - assert (aget (l_without l) n = None) as ->.
        { apply aget_none_notin. apply D. eapply aget_some_in_keys; exact Ew. }
        inversion K; subst. cbn [snd]. rewrite (item_bytes_ok sz Hok). lia.
      - rewrite K. rewrite (item_bytes_ok sz Hok). lia. }
    lia.
  - exact J.
Qed.

(* a restart *)
Lemma keys_kibmap (files : list (str * Z)) : keys (map (fun f => (fst f, kib_of (snd f))) files) = keys files.
Proof. unfold keys. rewrite map_map. reflexivity. Qed.

Lemma aget_kibmap (files : list (str * Z)) n :
  aget (map (fun f => (fst f, kib_of (snd f))) files) n = option_map kib_of (aget files n).
Proof.
  induction files as [|[k v] files IH]; [reflexivity|]. cbn [map aget fst snd].
  destruct (str_eqb k n); [reflexivity|exact IH].
Qed.

Lemma osum_kibmap (files : list (str * Z)) :
  (forall n sz, In (n, sz) files -> ok_size sz) ->
  osum (map (fun f => (fst f, kib_of (snd f))) files) = fsum files.
Proof.
  induction files as [|[k v] files IH]; intros H; [reflexivity|].
  unfold osum, fsum in *. cbn [map gsum fst snd]. rewrite IH by (intros n sz Hn; apply (H n sz); right; exact Hn).
  assert (Hok : ok_size v) by (apply (H k v); left; reflexivity).
  rewrite (kib_of_ok v Hok), (item_bytes_ok v Hok). reflexivity.
Qed.

Definition take_over (without : list (str * Z)) (logged : list (str * (Z * Z))) : list (str * (Z * Z)) :=
  flat_map (fun p => match aget without (fst p) with
                     | Some kib => [(fst p, (fst (snd p), kib))]
                     | None => []
                     end) logged.

Lemma keys_take_over without logged :
  keys (take_over without logged) = filter (fun n => match aget without n with Some _ => true | None => false end) (keys logged).
Proof.
  induction logged as [|[k [t kb]] logged IH]; [reflexivity|].
  cbn [take_over flat_map keys map fst snd filter]. destruct (aget without k); cbn [app keys map fst]; [f_equal|]; exact IH.
Qed.

Lemma in_take_over without logged n t k :
  In (n, (t, k)) (take_over without logged) -> aget without n = Some k.
Proof.
  induction logged as [|[k0 [t0 kb]] logged IH]; [intros []|].
  cbn [take_over flat_map fst snd]. intros H. apply in_app_or in H as [H|H]; [|apply IH; exact H].
  destruct (aget without k0) as [kk|] eqn:E; [|destruct H].
  destruct H as [H|[]]. inversion H; subst. exact E.
Qed.

Lemma nodup_logged (log : list (str * Z * Z)) : forall m : list (str * (Z * Z)),
  NoDup (keys m) -> NoDup (keys (fold_left (fun m ln => match ln with (n, t, kib) => aput m n (u32 t, u32 kib) end) log m)).
Proof.
  induction log as [|[[n t] kb] log IH]; intros m H; cbn [fold_left]; [exact H|].
  apply IH. apply nodup_keys_aput. exact H.
Qed.

Lemma fold_adel_pairs {V W} (ws : list (str * W)) (m : list (str * V)) :
  fold_left (fun m p => adel m (fst p)) ws m = adels m (keys ws).
Proof.
  unfold adels, keys. revert m. induction ws as [|x ws IH]; intros m; cbn [fold_left map]; [reflexivity|]. apply IH.
Qed.

Lemma aget_adels_notin {V} (m : list (str * V)) ks n : ~ In n ks -> aget (adels m ks) n = aget m n.
Proof.
  unfold adels. revert m. induction ks as [|k ks IH]; intros m H; cbn [fold_left]; [reflexivity|].
  rewrite IH by (intros Hc; apply H; right; exact Hc).
  apply aget_adel_neq. intros ->. apply H; left; reflexivity.
Qed.

Lemma nodup_keys_adels {V} (m : list (str * V)) ks : NoDup (keys m) -> NoDup (keys (adels m ks)).
Proof.
  unfold adels. revert m. induction ks as [|k ks IH]; intros m H; cbn [fold_left]; [exact H|].
  apply IH. apply nodup_keys_adel. exact H.
Qed.

Lemma move_sum (ws : list (str * (Z * Z))) : forall wo : list (str * Z),
  NoDup (keys ws) -> NoDup (keys wo) ->
  (forall n t k, In (n, (t, k)) ws -> aget wo n = Some k) ->
  wsum ws + osum (adels wo (keys ws)) = osum wo.
Proof.
  induction ws as [|[n [t k]] ws IH]; intros wo N1 N2 H; [cbn; unfold wsum; cbn; lia|].
  cbn [keys map fst]. fold (keys ws). unfold adels. cbn [fold_left]. fold (adels (adel wo n) (keys ws)).
  inversion N1 as [|? ? Hn N1']; subst.
  unfold wsum. cbn [gsum snd]. fold (wsum ws).
  specialize (IH (adel wo n) N1' (nodup_keys_adel wo n N2)).
  rewrite <- Z.add_assoc, IH.
  - unfold osum. rewrite gsum_adel by exact N2. unfold gval. rewrite (H n t k) by (left; reflexivity). lia.
  - intros n' t' k' Hin. rewrite aget_adel_neq; [apply (H n' t' k'); right; exact Hin|].
    intros ->. apply Hn. unfold keys. apply in_map_iff. exists (n, (t', k')). split; [reflexivity|exact Hin].
Qed.

Definition files_ok (files : list (str * Z)) : Prop :=
  NoDup (keys files) /\ forall n sz, In (n, sz) files -> ok_size sz.

Lemma restart_inv log files max :
  files_ok files -> 0 <= max -> Inv (restart log files max, files).
Proof.
  intros [ND OK] Hmax. unfold restart.
  set (without := map (fun f => (fst f, kib_of (snd f))) files).
  set (logged := fold_left (fun m ln => match ln with (n, t, kib) => aput m n (u32 t, u32 kib) end) log []).
  fold (take_over without logged). set (with_at := take_over without logged).
  rewrite fold_adel_pairs.
  assert (NDo : NoDup (keys without)) by (unfold without; rewrite keys_kibmap; exact ND).
  assert (NDl : NoDup (keys logged)) by (apply nodup_logged; constructor).
  assert (NDw : NoDup (keys with_at)) by (unfold with_at; rewrite keys_take_over; apply NoDup_filter; exact NDl).
  assert (Hw : forall n t k, In (n, (t, k)) with_at -> aget without n = Some k) by (intros n t k; apply in_take_over).
  constructor; cbn [fst snd l_with l_without l_size l_max].
  - exact ND.
  - exact NDw.
  - apply nodup_keys_adels; exact NDo.
  - intros n Hn Hc. apply in_keys_adels in Hc as [Hc _]. contradiction.
  - intros n sz Hn. split; [apply (OK n sz); apply aget_in; exact Hn|].
    assert (Hok : ok_size sz) by (apply (OK n sz); apply aget_in; exact Hn).
    unfold kibof. cbn [l_with l_without].
    assert (Ho : aget without n = Some (sz / 1024)).
    { unfold without. rewrite aget_kibmap, Hn. cbn [option_map]. rewrite (kib_of_ok sz Hok). reflexivity. }
    destruct (aget with_at n) as [[t k]|] eqn:Ew.
    + apply aget_in, Hw in Ew. congruence.
    + apply aget_none_notin in Ew. rewrite aget_adels_notin by exact Ew. exact Ho.
  - intros n Hn. apply in_keys_aget. rewrite <- (keys_kibmap files). fold without.
    destruct Hn as [Hn|Hn].
    + apply in_keys_aget in Hn as [[t k] Hn]. apply aget_in, Hw in Hn. eapply aget_some_in_keys; exact Hn.
    + apply in_keys_adels in Hn as [_ Hn]. exact Hn.
  - rewrite fold_left_fsum. lia.
  - rewrite fold_left_fsum. rewrite (move_sum with_at without NDw NDo Hw).
    unfold without. rewrite (osum_kibmap files OK). lia.
  - exact Hmax.
Qed.

Lemma inv_files_ok s : Inv s -> files_ok (snd s).
Proof.
  intros I. split; [exact (inv_ndf _ I)|]. intros n sz Hin.
  apply (in_aget _ _ _ (inv_ndf _ I)) in Hin. exact (proj1 (inv_fk _ I n sz Hin)).
Qed.

(* ---------- histories ---------- *)
Definition in_scope (o : hop) : Prop :=
  match o with
  | HAdd _ sz _ => ok_size sz
  | HExtDel _ | HReplace _ _ => False
  | _ => True
  end.

Theorem step_inv s o : Inv s -> in_scope o -> Inv (fst (hstep s o)).
Proof.
  destruct s as [l files]. intros I Sc. destruct o as [n sz t|n t| | | |n|n sz]; cbn [hstep in_scope] in *.
  - destruct (aget files n) eqn:E; cbn [fst]; [exact I|]. apply add_inv; assumption.
  - destruct (aget files n) as [sz|] eqn:E; cbn [fst]; [|exact I]. apply access_inv; assumption.
  - cbn [fst lstep]. eapply Inv_ext; [| | | |exact I]; reflexivity.
  - cbn [lstep]. pose proof (tick_inv l files I) as T. destruct (tick l) as [l' purged]. cbn [fst snd] in *. exact T.
  - cbn [fst]. apply restart_inv; [apply (inv_files_ok _ I)|exact (inv_max _ I)].
  - destruct Sc.
  - destruct Sc.
Qed.

Definition hrun (s : hstate) (ops : list hop) : hstate := fold_left (fun s o => fst (hstep s o)) ops s.

Theorem reachable_inv files max ops :
  files_ok files -> 0 <= max -> Forall in_scope ops -> Inv (hrun (hinit files max) ops).
Proof.
  intros F M. unfold hrun. assert (I : Inv (hinit files max)) by (apply restart_inv; assumption).
  revert I. generalize (hinit files max). induction ops as [|o ops IH]; intros s I Sc; cbn [fold_left]; [exact I|].
  inversion Sc; subst. apply IH; [apply step_inv; assumption|assumption].
Qed.

(* the two halves of the property, at any state the invariant holds in *)
Theorem no_eviction_within_limit s :
  Inv s -> fsum (snd s) <= l_max (fst s) -> hstep s HTick = (s, []).
Proof.
  destruct s as [l files]. intros I H. cbn [hstep lstep]. rewrite tick_nothing_within_limit.
  - reflexivity.
  - pose proof (inv_sf _ I) as S. cbn [fst snd] in *. rewrite S. exact H.
Qed.

Theorem tick_reclaims s :
  Inv s -> fsum (snd (fst (hstep s HTick))) <= Z.max (l_max (fst s)) (fsum (snd s) - max_purge_bytes).
Proof.
  destruct s as [l files]. intros I.
  pose proof (step_inv (l, files) HTick I Logic.I) as I'.
  pose proof (inv_sf _ I') as S'. pose proof (inv_sf _ I) as S. cbn [hstep lstep fst snd] in *.
  pose proof (tick_size l files I) as T. destruct (tick l) as [l' purged]. cbn [fst snd] in *. lia.
Qed.

Lemma hstep_tick_max s : l_max (fst (fst (hstep s HTick))) = l_max (fst s).
Proof.
  destruct s as [l files]. cbn [hstep lstep]. unfold tick. destruct (l_max l <? l_size l); [|reflexivity].
  destruct (purgeable l (l_size l - l_max l)) as [wo wi]. cbn [fst]. rewrite removed_eq.
  assert (E1 : forall wi l, l_max (fold_left rem_with wi l) = l_max l).
  { clear. induction wi as [|n wi IH]; intros l; cbn [fold_left]; [reflexivity|]. rewrite IH. reflexivity. }
  assert (E2 : forall wo l, l_max (fold_left rem_without wo l) = l_max l).
  { clear. induction wo as [|n wo IH]; intros l; cbn [fold_left]; [reflexivity|]. rewrite IH. reflexivity. }
  rewrite E2, E1. reflexivity.
Qed.

(* bounded time: k passes of the limiter reclaim k * 150 MB or reach the limit *)
Theorem ticks_restore k : forall s,
  Inv s -> fsum (snd (hrun s (repeat HTick k))) <= Z.max (l_max (fst s)) (fsum (snd s) - Z.of_nat k * max_purge_bytes).
Proof.
  induction k as [|k IH]; intros s I; [cbn [repeat hrun fold_left]; lia|].
  cbn [repeat]. unfold hrun. cbn [fold_left]. fold (hrun (fst (hstep s HTick)) (repeat HTick k)).
  pose proof (step_inv s HTick I Logic.I) as I'.
  specialize (IH _ I'). rewrite hstep_tick_max in IH.
  pose proof (tick_reclaims s I) as T.
  assert (0 <= max_purge_bytes) by (unfold max_purge_bytes; lia).
  lia.
Qed.

Lemma hstep_max s o : l_max (fst (fst (hstep s o))) = l_max (fst s).
Proof.
  destruct o as [n sz t|n t| | | |n|n sz]; try apply hstep_tick_max; destruct s as [l files]; cbn [hstep].
  - destruct (aget files n); reflexivity.
  - destruct (aget files n); reflexivity.
  - reflexivity.
  - reflexivity.
  - reflexivity.
  - destruct (aget files n); reflexivity.
Qed.

Lemma hrun_max ops : forall s, l_max (fst (hrun s ops)) = l_max (fst s).
Proof.
  unfold hrun. induction ops as [|o ops IH]; intros s; cbn [fold_left]; [reflexivity|].
  rewrite IH. apply hstep_max.
Qed.

Lemma hinit_max files max : l_max (fst (hinit files max)) = max.
Proof. reflexivity. Qed.
