(* caching/disk.go metadata codec: decode (encode m) = m for every record whose fields keep
   clear of the codec's delimiters (the complement of known finding F6-delimiters). *)
From Coq Require Import String.
From Coq Require Import List NArith ZArith Bool Lia Permutation.
From Verif Require Import GoStr GoNum GoHeader Meta C07Proofs NumRT.
Import ListNotations.
Open Scope N_scope.

(* ---------- Split on a two-byte separator c1 c2 (c1 <> c2) ---------- *)
Section TwoByteSep.
  Variables c1 c2 : N.
  Hypothesis c12 : c1 <> c2.

  (* no c1 immediately followed by c2 *)
  Fixpoint adj_free (a : str) : Prop :=
    match a with
    | [] => True
    | x :: a' => (x = c1 -> match a' with [] => True | y :: _ => y <> c2 end) /\ adj_free a'
    end.

  Lemma adj_free_app_noc1 a b : ~ In c1 a -> adj_free b -> adj_free (a ++ b).
  Proof.
    induction a as [|x a IH]; intros Hn Hb; [exact Hb|]. cbn [app adj_free]. split.
    - intros E. exfalso. apply Hn. left. exact E.
    - apply IH; [intros H; apply Hn; right; exact H | exact Hb].
  Qed.

  Lemma adj_free_snoc_c1 a : adj_free a -> adj_free (a ++ [c1]).
  Proof.
    induction a as [|x a IH]; intros Ha.
    - cbn. split; [intros _; exact I | exact I].
    - cbn [app adj_free] in *. destruct Ha as [H1 H2]. split; [|apply IH; exact H2].
      intros E. specialize (H1 E). destruct a as [|y a']; cbn [app]; [exact c12 | exact H1].
  Qed.

  Lemma has_prefix_sep_false x a r :
    adj_free (x :: a) -> has_prefix (x :: a ++ c1 :: r) [c1; c2] = false.
  Proof.
    cbn [adj_free has_prefix]. intros [H _]. destruct (N.eqb_spec x c1) as [E|E]; [|reflexivity]. cbn [andb].
    specialize (H E). destruct a as [|y a']; cbn [app].
    - destruct (N.eqb_spec c1 c2) as [E2|E2]; [contradiction | reflexivity].
    - destruct (N.eqb_spec y c2) as [E2|E2]; [contradiction | reflexivity].
  Qed.

  Lemma split_aux_sep2 : forall a r fuel cur,
    adj_free a -> (length a + 2 + length r < fuel)%nat ->
    split_aux fuel (a ++ c1 :: c2 :: r) [c1; c2] cur = (rev cur ++ a) :: split_aux (fuel - length a - 1) r [c1; c2] [].
  Proof.
    induction a as [|x a IH]; intros r fuel cur Ha Hf.
    - destruct fuel; [simpl in Hf; lia|]. cbn [app split_aux has_prefix]. rewrite !N.eqb_refl. cbn [andb length skipn].
      rewrite app_nil_r. simpl. rewrite Nat.sub_0_r. reflexivity.
    - destruct fuel; [simpl in Hf; lia|]. cbn [app]. cbn [split_aux].
      replace (has_prefix (x :: a ++ c1 :: c2 :: r) [c1; c2]) with false by (symmetry; apply has_prefix_sep_false; exact Ha).
      rewrite IH; [| destruct Ha as [_ Ha]; exact Ha | simpl in Hf; lia].
      simpl. rewrite <- app_assoc. reflexivity.
  Qed.

  Lemma has_prefix_nosep_false x a : adj_free (x :: a) -> has_prefix (x :: a) [c1; c2] = false.
  Proof.
    cbn [adj_free has_prefix]. intros [H _]. destruct (N.eqb_spec x c1) as [E|E]; [|reflexivity]. cbn [andb].
    specialize (H E). destruct a as [|y a']; [reflexivity|]. destruct (N.eqb_spec y c2) as [E2|E2]; [contradiction | reflexivity].
  Qed.

  Lemma split_aux_nosep2 : forall a fuel cur,
    adj_free a -> (length a < fuel)%nat -> split_aux fuel a [c1; c2] cur = [rev cur ++ a].
  Proof.
    induction a as [|x a IH]; intros fuel cur Ha Hf.
    - destruct fuel; [simpl in Hf; lia|]. simpl. rewrite app_nil_r. reflexivity.
    - destruct fuel; [simpl in Hf; lia|]. cbn [split_aux]. rewrite has_prefix_nosep_false by exact Ha.
      rewrite IH; [| destruct Ha as [_ Ha]; exact Ha | simpl in Hf; lia]. simpl. rewrite <- app_assoc. reflexivity.
  Qed.
End TwoByteSep.

(* contains v "c1c2" = false gives adj_free *)
Lemma adj_free_of_contains c1 c2 v : contains v [c1; c2] = false -> adj_free c1 c2 v.
Proof.
  unfold contains. destruct (index v [c1; c2]) eqn:E; [discriminate|]. intros _.
  pose proof (index_none _ _ E) as Hn. clear E.
  induction v as [|x v IH]; [exact I|]. cbn [adj_free]. split.
  - intros Ex. specialize (Hn 0%nat). cbn [skipn has_prefix] in Hn. subst x. rewrite N.eqb_refl in Hn. cbn [andb] in Hn.
    destruct v as [|y v']; [exact I|]. intros Ey. subst y. rewrite N.eqb_refl in Hn. discriminate.
  - apply IH. intros k. exact (Hn (S k)).
Qed.

(* ---------- pieces of sToHeader ---------- *)
Definition c_colon := 58. Definition c_lbr := 91. Definition c_rbr := 93. Definition c_comma := 44.
Definition c_lbrace := 123. Definition c_rbrace := 125. Definition c_bar := 124.

Lemma index_colon k r : ~ In 58 k -> index (k ++ 58 :: r) [58] = Some (length k).
Proof.
  induction k as [|x k IH]; intros Hn.
  - cbn. reflexivity.
  - cbn [app index has_prefix length]. destruct (N.eqb_spec x 58) as [E|E]; [exfalso; apply Hn; left; exact E|]. cbn [andb].
    rewrite IH; [reflexivity | intros H; apply Hn; right; exact H].
Qed.

Lemma firstn_len_app (k l : str) : firstn (length k) (k ++ l) = k.
Proof. induction k as [|x k IH]; [reflexivity|]. cbn. rewrite IH. reflexivity. Qed.

Lemma skipn_len_app1 (k : str) x r : skipn (length k + 1) (k ++ x :: r) = r.
Proof. induction k as [|y k IH]; [reflexivity|]. cbn. exact IH. Qed.

Lemma split2_colon k r : ~ In 58 k -> split2 (k ++ 58 :: r) s_colon = [k; r].
Proof.
  intros Hn. unfold split2, s_colon. rewrite index_colon by exact Hn. cbn [length].
  rewrite firstn_len_app, skipn_len_app1. reflexivity.
Qed.

(* a value survives Trim "[]" when neither end is a bracket *)
Definition ends_ok (v : str) : Prop :=
  match v with [] => True | x :: _ => mem_byte x s_brackets = false end /\
  match rev v with [] => True | x :: _ => mem_byte x s_brackets = false end.

Lemma trim_left_keep v cut : match v with [] => True | x :: _ => mem_byte x cut = false end -> trim_left v cut = v.
Proof. destruct v as [|x v]; [reflexivity|]. cbn. intros ->. reflexivity. Qed.

Lemma trim_right_keep v cut : match rev v with [] => True | x :: _ => mem_byte x cut = false end -> trim_right v cut = v.
Proof. intros H. unfold trim_right. rewrite trim_left_keep by exact H. apply rev_involutive. Qed.

Lemma trim_open v : ends_ok v -> trim (91 :: v) s_brackets = v.
Proof.
  intros [H1 H2]. unfold trim. cbn [trim_left]. change (mem_byte 91 s_brackets) with true. cbn iota.
  rewrite trim_left_keep by exact H1. apply trim_right_keep. exact H2.
Qed.

Lemma trim_open_close v : ends_ok v -> trim (91 :: v ++ [93]) s_brackets = v.
Proof.
  intros [H1 H2]. unfold trim. cbn [trim_left]. change (mem_byte 91 s_brackets) with true. cbn iota.
  destruct v as [|x v].
  - reflexivity.
  - change (mem_byte x s_brackets = false) in H1. cbn [app trim_left]. rewrite H1.
    change (x :: v ++ [93]) with ((x :: v) ++ [93]). set (w := x :: v) in *.
    unfold trim_right. rewrite rev_app_distr. cbn [rev app trim_left].
    change (mem_byte 93 s_brackets) with true. cbn iota.
    rewrite trim_left_keep by exact H2. apply rev_involutive.
Qed.

(* ---------- the list of (name, value) pairs behind header_items ---------- *)
Definition pairs_of (l : hdrs) : list (str * str) := flat_map (fun kv => map (fun v => (fst kv, v)) (snd kv)) l.

Lemma header_items_pairs h : header_items h = map (fun p => header_item (fst p) (snd p)) (pairs_of (sort_hdrs h)).
Proof.
  unfold header_items, pairs_of. induction (sort_hdrs h) as [|[k vs] l IH]; [reflexivity|].
  cbn [flat_map]. rewrite map_app, IH, map_map. reflexivity.
Qed.

Definition key_ok (k : str) : Prop :=
  canon_key k = k /\ Forall (fun c => c <> 58 /\ c <> 93 /\ c <> 123 /\ c <> 125 /\ c <> 124) k.
Definition val_ok (v : str) : Prop :=
  ~ In 124 v /\ contains v s_close_comma = false /\ ends_ok v.
Definition pair_ok (p : str * str) : Prop := key_ok (fst p) /\ val_ok (snd p).

(* what Split(ts, "],") returns: every item but the last has lost its closing bracket *)
Fixpoint parts_of (ps : list (str * str)) : list str :=
  match ps with
  | [] => []
  | [p] => [header_item (fst p) (snd p)]
  | p :: ps' => (fst p ++ [58; 91] ++ snd p) :: parts_of ps'
  end.

Lemma key_no c k : key_ok k -> (c = 58 \/ c = 93 \/ c = 123 \/ c = 125 \/ c = 124) -> ~ In c k.
Proof.
  intros [_ Hk] Hc Hin. rewrite Forall_forall in Hk. specialize (Hk c Hin). intuition congruence.
Qed.

Lemma item_open_adj_free k v : key_ok k -> val_ok v -> adj_free 93 44 (k ++ [58; 91] ++ v).
Proof.
  intros Hk [_ [Hv _]]. apply adj_free_app_noc1; [apply (key_no 93 k Hk); auto|].
  apply (adj_free_app_noc1 93 44 [58; 91]); [cbn; intuition discriminate|].
  apply adj_free_of_contains. exact Hv.
Qed.

Lemma item_adj_free k v : key_ok k -> val_ok v -> adj_free 93 44 (header_item k v).
Proof.
  intros Hk Hv. unfold header_item. replace (k ++ [58; 91] ++ v ++ [93]) with ((k ++ [58; 91] ++ v) ++ [93]) by (rewrite <- !app_assoc; reflexivity).
  apply adj_free_snoc_c1; [discriminate|]. apply item_open_adj_free; assumption.
Qed.

Lemma join_cons2 (a b : str) l sep : join (a :: b :: l) sep = a ++ sep ++ join (b :: l) sep.
Proof. reflexivity. Qed.

Lemma split_items : forall ps fuel,
  ps <> [] -> Forall pair_ok ps ->
  (length (join (map (fun p => header_item (fst p) (snd p)) ps) [44%N]) < fuel)%nat ->
  split_aux fuel (join (map (fun p => header_item (fst p) (snd p)) ps) [44]) [93; 44] [] = parts_of ps.
Proof.
  induction ps as [|p ps IH]; intros fuel Hne Hall Hf; [congruence|].
  inversion Hall as [|? ? [Hk Hv] Hrest]; subst.
  destruct ps as [|q ps].
  - cbn [map join parts_of]. cbn [map join] in Hf.
    rewrite split_aux_nosep2; [reflexivity | discriminate | apply item_adj_free; assumption | exact Hf].
  - cbn [map] in *. rewrite join_cons2 in *. unfold header_item at 1. unfold header_item at 1 in Hf.
    replace ((fst p ++ [58; 91] ++ snd p ++ [93]) ++ [44] ++ join (header_item (fst q) (snd q) :: map (fun p0 => header_item (fst p0) (snd p0)) ps) [44])
      with ((fst p ++ [58; 91] ++ snd p) ++ 93 :: 44 :: join (header_item (fst q) (snd q) :: map (fun p0 => header_item (fst p0) (snd p0)) ps) [44]) in *
      by (rewrite <- !app_assoc; reflexivity).
    rewrite app_length in Hf. cbn [length] in Hf.
    rewrite split_aux_sep2; [| discriminate | apply item_open_adj_free; assumption | lia].
    cbn [rev app]. change (parts_of (p :: q :: ps)) with ((fst p ++ [58; 91] ++ snd p) :: parts_of (q :: ps)). f_equal.
    apply IH; [discriminate | exact Hrest | cbn [map app] in *; lia].
Qed.

Definition add_pair (h : hdrs) (p : str * str) : hdrs := hadd h (fst p) (snd p).

Lemma firstn_drop_last (a : str) x : firstn (length (a ++ [x]) - 1) (a ++ [x]) = a.
Proof.
  rewrite app_length. cbn [length]. replace (length a + 1 - 1)%nat with (length a) by lia. apply firstn_len_app.
Qed.

Lemma part_open k v h rest i n :
  key_ok k -> val_ok v ->
  (i = 0%nat \/ i <> (n - 1)%nat) ->
  s_to_header_parts ((k ++ [58; 91] ++ v) :: rest) i n h = s_to_header_parts rest (S i) n (hadd h k v).
Proof.
  intros Hk [_ [_ He]] Hi. cbn [s_to_header_parts].
  destruct (Nat.eqb_spec i 0) as [E0|E0]; [|destruct (Nat.eqb_spec i (n - 1)) as [E1|E1]; [destruct Hi; contradiction|]];
    change (k ++ [58; 91] ++ v) with (k ++ 58 :: 91 :: v);
    rewrite split2_colon by (apply (key_no 58 k Hk); auto); rewrite trim_open by exact He; reflexivity.
Qed.

Lemma part_closed k v h i :
  key_ok k -> val_ok v ->
  s_to_header_parts [header_item k v] i (i + 1) h = Some (hadd h k v).
Proof.
  intros Hk [_ [_ He]]. cbn [s_to_header_parts]. unfold header_item.
  destruct (Nat.eqb_spec i 0) as [E0|E0].
  - change (k ++ [58; 91] ++ v ++ [93]) with (k ++ 58 :: 91 :: v ++ [93]).
    rewrite split2_colon by (apply (key_no 58 k Hk); auto). rewrite trim_open_close by exact He. reflexivity.
  - replace (i + 1 - 1)%nat with i by lia. rewrite Nat.eqb_refl.
    replace (k ++ [58; 91] ++ v ++ [93]) with ((k ++ [58; 91] ++ v) ++ [93]) by (rewrite <- !app_assoc; reflexivity).
    rewrite firstn_drop_last. change ((k ++ [58; 91] ++ v)) with (k ++ 58 :: 91 :: v).
    rewrite split2_colon by (apply (key_no 58 k Hk); auto). rewrite trim_open by exact He. reflexivity.
Qed.

Lemma parts_process : forall ps i h0,
  Forall pair_ok ps ->
  s_to_header_parts (parts_of ps) i (i + length ps) h0 = Some (fold_left add_pair ps h0).
Proof.
  induction ps as [|p ps IH]; intros i h0 Hall; [reflexivity|].
  inversion Hall as [|? ? [Hk Hv] Hrest]; subst. destruct ps as [|q ps].
  - cbn [parts_of length fold_left]. apply part_closed; assumption.
  - change (parts_of (p :: q :: ps)) with ((fst p ++ [58; 91] ++ snd p) :: parts_of (q :: ps)).
    rewrite part_open; [| exact Hk | exact Hv | right; cbn [length]; lia].
    cbn [fold_left]. replace (i + length (p :: q :: ps))%nat with (S i + length (q :: ps))%nat by (cbn [length]; lia).
    apply IH. exact Hrest.
Qed.

(* ---------- hadd over the pairs of a duplicate-free, canonical list rebuilds that list ---------- *)
Lemma hadd_raw_new acc k v : ~ In k (map fst acc) -> hadd_raw acc k v = acc ++ [(k, [v])].
Proof.
  induction acc as [|[k' vs] acc IH]; intros Hn; [reflexivity|]. cbn [hadd_raw app].
  destruct (str_eqb k' k) eqn:E; [apply str_eqb_eq in E; exfalso; apply Hn; left; exact E|].
  rewrite IH; [reflexivity | intros H; apply Hn; right; exact H].
Qed.

Lemma hadd_raw_last acc k ws v : ~ In k (map fst acc) -> hadd_raw (acc ++ [(k, ws)]) k v = acc ++ [(k, ws ++ [v])].
Proof.
  induction acc as [|[k' vs] acc IH]; intros Hn.
  - cbn. rewrite str_eqb_refl. reflexivity.
  - cbn [hadd_raw app]. destruct (str_eqb k' k) eqn:E; [apply str_eqb_eq in E; exfalso; apply Hn; left; exact E|].
    rewrite IH; [reflexivity | intros H; apply Hn; right; exact H].
Qed.

Lemma add_pair_canon k v h : canon_key k = k -> add_pair h (k, v) = hadd_raw h k v.
Proof. intros Hc. unfold add_pair, hadd. cbn [fst snd]. rewrite Hc. reflexivity. Qed.

Lemma fold_add_same k : canon_key k = k -> forall vs acc ws, ~ In k (map fst acc) ->
  fold_left add_pair (map (fun v => (k, v)) vs) (acc ++ [(k, ws)]) = acc ++ [(k, ws ++ vs)].
Proof.
  intros Hc. induction vs as [|v vs IH]; intros acc ws Hn; [cbn; rewrite app_nil_r; reflexivity|].
  cbn [map fold_left]. rewrite add_pair_canon by exact Hc.
  rewrite hadd_raw_last by exact Hn. rewrite IH by exact Hn. rewrite <- app_assoc. reflexivity.
Qed.

Definition canon_nodup (l : hdrs) : Prop :=
  NoDup (map fst l) /\ Forall (fun kv => canon_key (fst kv) = fst kv /\ snd kv <> []) l.

Lemma fold_add_pairs : forall l acc,
  canon_nodup l -> (forall k, In k (map fst l) -> ~ In k (map fst acc)) ->
  fold_left add_pair (pairs_of l) acc = acc ++ l.
Proof.
  induction l as [|[k vs] l IH]; intros acc [Hnd Hall] Hdis; [cbn; rewrite app_nil_r; reflexivity|].
  inversion Hnd as [|? ? Hk Hnd']; subst. inversion Hall as [|? ? [Hc Hne] Hall']; subst. cbn [fst snd] in *.
  unfold pairs_of. cbn [flat_map]. fold (pairs_of l). rewrite fold_left_app. cbn [fst snd].
  destruct vs as [|v vs]; [congruence|]. cbn [map fold_left]. rewrite add_pair_canon by exact Hc.
  assert (Hnk : ~ In k (map fst acc)) by (apply Hdis; left; reflexivity).
  rewrite hadd_raw_new by exact Hnk. rewrite fold_add_same by assumption. cbn [app].
  rewrite IH.
  - rewrite <- app_assoc. reflexivity.
  - split; assumption.
  - intros k' Hin. rewrite map_app, in_app_iff. cbn [map fst In]. intros [H|[H|[]]].
    + apply (Hdis k'); [right; exact Hin | exact H].
    + subst k'. contradiction.
Qed.

(* sort_hdrs permutes *)
Lemma insert_sorted_perm {V} (kv : str * V) l : Permutation (insert_sorted kv l) (kv :: l).
Proof.
  induction l as [|kv' l IH]; [apply Permutation_refl|]. cbn [insert_sorted].
  destruct (str_leb (fst kv) (fst kv')); [apply Permutation_refl|].
  eapply Permutation_trans; [apply perm_skip; exact IH | apply perm_swap].
Qed.

Lemma sort_hdrs_perm {V} (h : list (str * V)) : Permutation (sort_hdrs h) h.
Proof.
  induction h as [|kv h IH]; [apply Permutation_refl|]. unfold sort_hdrs. cbn [fold_right]. fold (sort_hdrs h).
  eapply Permutation_trans; [apply insert_sorted_perm | apply perm_skip; exact IH].
Qed.

Lemma canon_nodup_sort h : canon_nodup h -> canon_nodup (sort_hdrs h).
Proof.
  intros [Hnd Hall]. pose proof (sort_hdrs_perm h) as P. split.
  - eapply Permutation_NoDup; [apply Permutation_map; apply Permutation_sym; exact P | exact Hnd].
  - eapply Permutation_Forall; [apply Permutation_sym; exact P | exact Hall].
Qed.

(* ---------- sToHeader (headerToS h) ---------- *)
Definition hdrs_ok (h : hdrs) : Prop :=
  NoDup (map fst h) /\ Forall (fun kv => key_ok (fst kv) /\ snd kv <> [] /\ Forall val_ok (snd kv)) h.

Lemma hdrs_ok_canon h : hdrs_ok h -> canon_nodup h.
Proof.
  intros [Hnd Hall]. split; [exact Hnd|]. eapply Forall_impl; [|exact Hall].
  intros kv [[Hc _] [Hne _]]. split; assumption.
Qed.

Lemma hdrs_ok_sort h : hdrs_ok h -> hdrs_ok (sort_hdrs h).
Proof.
  intros [Hnd Hall]. pose proof (sort_hdrs_perm h) as P. split.
  - eapply Permutation_NoDup; [apply Permutation_map; apply Permutation_sym; exact P | exact Hnd].
  - eapply Permutation_Forall; [apply Permutation_sym; exact P | exact Hall].
Qed.

Lemma pairs_ok l : Forall (fun kv => key_ok (fst kv) /\ snd kv <> [] /\ Forall val_ok (snd kv)) l -> Forall pair_ok (pairs_of l).
Proof.
  induction l as [|[k vs] l IH]; intros Hall; [constructor|]. inversion Hall as [|? ? [Hk [_ Hv]] Hrest]; subst.
  unfold pairs_of. cbn [flat_map fst snd]. apply Forall_app. split; [|apply IH; exact Hrest].
  cbn [fst snd] in *. rewrite Forall_forall in *. intros p Hin. apply in_map_iff in Hin as [v [E Hin]]. subst p.
  split; [exact Hk | apply Hv; exact Hin].
Qed.

Lemma parts_of_length ps : length (parts_of ps) = length ps.
Proof.
  induction ps as [|p ps IH]; [reflexivity|]. destruct ps as [|q ps]; [reflexivity|].
  change (parts_of (p :: q :: ps)) with ((fst p ++ [58; 91] ++ snd p) :: parts_of (q :: ps)). cbn [length]. rewrite IH. reflexivity.
Qed.

Lemma join_items_last ps : ps <> [] ->
  exists J1, join (map (fun p => header_item (fst p) (snd p)) ps) [44] = J1 ++ [93].
Proof.
  induction ps as [|p ps IH]; intros Hne; [congruence|]. destruct ps as [|q ps].
  - cbn [map join]. unfold header_item. exists (fst p ++ [58; 91] ++ snd p). rewrite <- !app_assoc. reflexivity.
  - cbn [map]. rewrite join_cons2. destruct (IH ltac:(discriminate)) as [J1 E]. cbn [map] in E. rewrite E.
    exists (header_item (fst p) (snd p) ++ [44] ++ J1). rewrite <- !app_assoc. reflexivity.
Qed.

Lemma join_items_head p ps : key_ok (fst p) ->
  exists x J0, join (map (fun p => header_item (fst p) (snd p)) (p :: ps)) [44] = x :: J0 /\ mem_byte x s_braces = false.
Proof.
  intros Hk. assert (H : exists x r, header_item (fst p) (snd p) = x :: r /\ mem_byte x s_braces = false).
  { unfold header_item. destruct (fst p) as [|x k] eqn:Ek.
    - exists 58, (91 :: snd p ++ [93]). split; reflexivity.
    - exists x, (k ++ [58; 91] ++ snd p ++ [93]). split; [reflexivity|].
      destruct (mem_byte x s_braces) eqn:Em; [|reflexivity]. apply mem_byte_spec in Em.
      destruct Hk as [_ Hk]. rewrite Forall_forall in Hk. specialize (Hk x (or_introl eq_refl)).
      cbn in Em. intuition congruence. }
  destruct H as [x [r [E Hm]]]. destruct ps as [|q ps].
  - exists x, r. cbn [map join]. split; assumption.
  - exists x, (r ++ [44] ++ join (map (fun p => header_item (fst p) (snd p)) (q :: ps)) [44]).
    cbn [map]. rewrite join_cons2, E. split; [reflexivity | exact Hm].
Qed.

Lemma trim_braces x J0 : mem_byte x s_braces = false -> (exists J1, x :: J0 = J1 ++ [93]) ->
  trim (123 :: (x :: J0) ++ [125]) s_braces = x :: J0.
Proof.
  intros Hm [J1 E]. unfold trim. cbn [trim_left]. change (mem_byte 123 s_braces) with true. cbn iota.
  cbn [app trim_left]. rewrite Hm. change (x :: J0 ++ [125]) with ((x :: J0) ++ [125]). rewrite E.
  unfold trim_right. rewrite !rev_app_distr. cbn [rev app trim_left].
  change (mem_byte 125 s_braces) with true. change (mem_byte 93 s_braces) with false. cbn iota.
  change (rev (93 :: rev J1)) with (rev (rev J1) ++ [93]). rewrite rev_involutive. reflexivity.
Qed.

Theorem s_to_header_roundtrip h : hdrs_ok h -> s_to_header (header_to_s h) = Some (sort_hdrs h).
Proof.
  intros Hok. destruct h as [|kv h']; [reflexivity|].
  set (h := kv :: h') in *. pose proof (hdrs_ok_sort h Hok) as [Hnd Hall].
  pose proof (pairs_ok _ Hall) as Hps.
  assert (Hne : pairs_of (sort_hdrs h) <> []).
  { pose proof (sort_hdrs_perm h) as P. destruct (sort_hdrs h) as [|[k vs] l] eqn:Es.
    - apply Permutation_nil in P. discriminate.
    - inversion Hall as [|? ? [_ [Hv _]] _]; subst. cbn [snd] in Hv. destruct vs as [|v vs]; [congruence|]. discriminate. }
  unfold header_to_s. change (match h with [] => s_braces | _ :: _ => [123] ++ join (header_items h) [44] ++ [125] end)
    with (123 :: join (header_items h) [44] ++ [125]).
  rewrite header_items_pairs. set (ps := pairs_of (sort_hdrs h)) in *.
  destruct ps as [|p ps'] eqn:Eps; [congruence|].
  inversion Hps as [|? ? [Hk Hv] _]; subst.
  destruct (join_items_head p ps' Hk) as [x [J0 [EJ Hm]]].
  destruct (join_items_last (p :: ps') ltac:(discriminate)) as [J1 EJ1].
  unfold s_to_header. cbn [has_prefix]. rewrite N.eqb_refl. cbn [andb negb].
  rewrite EJ. rewrite trim_braces; [| exact Hm | exists J1; rewrite <- EJ; exact EJ1].
  rewrite <- EJ. unfold split, s_close_comma. change (bytes "],") with [93; 44].
  rewrite split_items; [| discriminate | exact Hps | lia].
  rewrite parts_of_length.
  change (length (p :: ps')) with (0 + length (p :: ps'))%nat.
  rewrite parts_process by exact Hps. f_equal.
  rewrite <- Eps. unfold ps. rewrite fold_add_pairs; [reflexivity | apply canon_nodup_sort; apply hdrs_ok_canon; exact Hok | intros k _ []].
Qed.

(* ---------- no '|' inside an encoded header block ---------- *)
Lemma in_join c l sep : In c (join l sep) -> In c sep \/ exists a, In a l /\ In c a.
Proof.
  induction l as [|a l IH]; [intros []|]. destruct l as [|b l].
  - cbn [join]. intros H. right. exists a. split; [left; reflexivity | exact H].
  - rewrite join_cons2. rewrite !in_app_iff. intros [H|[H|H]].
    + right. exists a. split; [left; reflexivity | exact H].
    + left. exact H.
    + destruct (IH H) as [H'|[a' [Ha Hc]]]; [left; exact H' | right; exists a'; split; [right; exact Ha | exact Hc]].
Qed.

Lemma header_to_s_no_bar h : hdrs_ok h -> ~ In 124 (header_to_s h).
Proof.
  intros Hok Hin. destruct h as [|kv h']; [cbn in Hin; intuition discriminate|].
  set (h := kv :: h') in *. pose proof (hdrs_ok_sort h Hok) as [_ Hall]. pose proof (pairs_ok _ Hall) as Hps.
  unfold header_to_s in Hin. change (match h with [] => s_braces | _ :: _ => [123] ++ join (header_items h) [44] ++ [125] end)
    with (123 :: join (header_items h) [44] ++ [125]) in Hin.
  destruct Hin as [E|Hin]; [discriminate|]. apply in_app_iff in Hin as [Hin|Hin]; [|cbn in Hin; intuition discriminate].
  apply in_join in Hin as [Hin|[a [Ha Hc]]]; [cbn in Hin; intuition discriminate|].
  rewrite header_items_pairs in Ha. apply in_map_iff in Ha as [p [E Hp]]. subst a.
  rewrite Forall_forall in Hps. destruct (Hps p Hp) as [Hk [Hv _]].
  unfold header_item in Hc. rewrite !in_app_iff in Hc. destruct Hc as [Hc|[Hc|[Hc|Hc]]].
  - apply (key_no 124 _ Hk) in Hc; auto.
  - cbn in Hc. intuition discriminate.
  - contradiction.
  - cbn in Hc. intuition discriminate.
Qed.

(* ---------- decode (encode m) ---------- *)
Definition in_int64 (z : Z) : Prop := (int64_min <= z <= int64_max)%Z.

Definition meta_ok (m : meta) : Prop :=
  ~ In 124 (m_host m) /\ ~ In 124 (m_path m) /\ ~ In 124 (m_redirect m) /\
  hdrs_ok (m_reqh m) /\ hdrs_ok (m_resph m) /\
  in_int64 (m_status m) /\ in_int64 (m_created m) /\ in_int64 (m_revalidated m) /\ in_int64 (m_size m).

(* the record a decoder returns: the same, with each header block in the order of its names *)
Definition meta_sorted (m : meta) : meta :=
  mkMeta (m_host m) (m_path m) (sort_hdrs (m_reqh m)) (sort_hdrs (m_resph m)) (m_status m)
         (m_redirect m) (m_created m) (m_revalidated m) (m_size m).

Theorem codec_roundtrip m : meta_ok m -> decode_meta (encode_meta m) = Some (meta_sorted m).
Proof.
  intros [Hh [Hp [Hr [Hq [Hs [I1 [I2 [I3 I4]]]]]]]]. unfold decode_meta, encode_meta.
  rewrite framing_roundtrip.
  - rewrite !s_to_header_roundtrip by assumption. rewrite !parse_format_int by assumption. reflexivity.
  - repeat constructor; try assumption; try apply format_int_no_bar; apply header_to_s_no_bar; assumption.
Qed.

(* non-vacuity: a realistic record with a repeated name, commas, quotes, '=' and ';' meets the hypothesis *)
Example meta_ok_sample :
  meta_ok (mkMeta (bytes "example.com") (bytes "/a/b?x=1&y=[2]") [(bytes "Accept-Encoding", [bytes "gzip, br"])]
                  [(bytes "Set-Cookie", [bytes "a=1; Path=/"; bytes "b=2"]); (bytes "Etag", [bytes """abc"""]);
                   (bytes "Cache-Control", [bytes "max-age=60, public"]); (bytes "Vary", [bytes "Origin"; bytes "Accept-Encoding"])]
                  200 [] 1700000000 0 42).
Proof.
  unfold meta_ok, hdrs_ok, key_ok, val_ok, ends_ok, in_int64, int64_min, int64_max. cbn -[canon_key contains].
  repeat split; try lia; try (intros H; repeat destruct H as [H|H]; try discriminate H; exact H);
    try (repeat constructor; cbn; intuition discriminate); try reflexivity; try discriminate.
Qed.
