(* C07: the framing of the metadata codec; the header encoding is refuted (F6). *)
From Coq Require Import String.
From Coq Require Import List NArith ZArith Bool Lia.
From Verif Require Import GoStr GoNum GoHeader Meta.
Import ListNotations.
Open Scope N_scope.

Lemma split_aux_nodelim c : forall a fuel cur,
  ~ In c a -> (length a < fuel)%nat -> split_aux fuel a [c] cur = [rev cur ++ a].
Proof.
  induction a as [|x a IH]; intros fuel cur Hn Hf.
  - destruct fuel; [simpl in Hf; lia|]. simpl. rewrite app_nil_r. reflexivity.
  - destruct fuel; [simpl in Hf; lia|]. cbn [split_aux has_prefix].
    destruct (N.eqb_spec x c) as [E|E]; [exfalso; apply Hn; left; exact E|]. cbn [andb].
    rewrite IH; [|intros H; apply Hn; right; exact H | simpl in Hf; lia].
    simpl. rewrite <- app_assoc. reflexivity.
Qed.

Lemma split_aux_delim c : forall a r fuel cur,
  ~ In c a -> (length a + 1 + length r < fuel)%nat ->
  split_aux fuel (a ++ c :: r) [c] cur = (rev cur ++ a) :: split_aux (fuel - length a - 1) r [c] [].
Proof.
  induction a as [|x a IH]; intros r fuel cur Hn Hf.
  - destruct fuel; [simpl in Hf; lia|]. cbn [app split_aux has_prefix]. rewrite N.eqb_refl. cbn [andb].
    rewrite app_nil_r. simpl. rewrite Nat.sub_0_r. reflexivity.
  - destruct fuel; [simpl in Hf; lia|]. cbn [app split_aux has_prefix].
    destruct (N.eqb_spec x c) as [E|E]; [exfalso; apply Hn; left; exact E|]. cbn [andb].
    rewrite IH; [|intros H; apply Hn; right; exact H | simpl in Hf; lia].
    simpl. rewrite <- app_assoc. reflexivity.
Qed.

(* Fields free of the separator byte survive join + Split, for any number of fields. *)
Lemma split_aux_join c : forall fs f fuel,
  Forall (fun a => ~ In c a) (f :: fs) -> (length (join (f :: fs) [c]) < fuel)%nat ->
  split_aux fuel (join (f :: fs) [c]) [c] [] = f :: fs.
Proof.
  induction fs as [|g fs IH]; intros f fuel Hall Hf.
  - inversion Hall; subst. cbn [join] in *. rewrite split_aux_nodelim; auto.
  - inversion Hall as [|? ? Hf0 Hrest]; subst.
    assert (E : join (f :: g :: fs) [c] = f ++ c :: join (g :: fs) [c]) by reflexivity.
    rewrite E in *. rewrite app_length in Hf. cbn [length] in Hf.
    rewrite split_aux_delim; [|exact Hf0 | lia]. cbn [rev app]. f_equal.
    apply IH; [exact Hrest | lia].
Qed.

Lemma split_join_free c fs f :
  Forall (fun a => ~ In c a) (f :: fs) -> split (join (f :: fs) [c]) [c] = f :: fs.
Proof. intros H. unfold split. apply split_aux_join; [exact H | lia]. Qed.

(* The nine '|'-separated fields of an encoded record are recovered exactly whenever none
   of them contains '|' - this is the framing half of decode (encode m) = m. *)
Lemma framing_roundtrip (f1 f2 f3 f4 f5 f6 f7 f8 f9 : str) :
  Forall (fun a => ~ In 124 a) [f1; f2; f3; f4; f5; f6; f7; f8; f9] ->
  split (f1 ++ s_bar ++ f2 ++ s_bar ++ f3 ++ s_bar ++ f4 ++ s_bar ++ f5 ++ s_bar ++ f6 ++ s_bar ++ f7 ++ s_bar ++ f8 ++ s_bar ++ f9) s_bar
  = [f1; f2; f3; f4; f5; f6; f7; f8; f9].
Proof. intros H. apply (split_join_free 124 [f2; f3; f4; f5; f6; f7; f8; f9] f1 H). Qed.

(* F6: the full statement decode (encode m) = Some m is false. Four witnesses. *)
Definition m0 (resph : hdrs) : meta := mkMeta (bytes "h") (bytes "/p") [] resph 200 [] 1 0 3.

(* since fix F6-multi-valued: every value of a repeated name is kept, in order *)
Lemma C07_two_values_kept :
  decode_meta (encode_meta (m0 [(bytes "Set-Cookie", [bytes "a=1"; bytes "b=2"])]))
  = Some (m0 [(bytes "Set-Cookie", [bytes "a=1"; bytes "b=2"])]).
Proof. vm_compute. reflexivity. Qed.

Lemma C07_refuted_brackets :
  decode_meta (encode_meta (m0 [(bytes "X-A", [bytes "[two]"])])) = Some (m0 [(bytes "X-A", [bytes "two"])]).
Proof. vm_compute. reflexivity. Qed.

Lemma C07_refuted_close_comma :
  decode_meta (encode_meta (m0 [(bytes "X-A", [bytes "a],b"])])) = None.
Proof. vm_compute. reflexivity. Qed.

Lemma C07_refuted_bar :
  decode_meta (encode_meta (m0 [(bytes "X-A", [bytes "a|b"])])) = None.
Proof. vm_compute. reflexivity. Qed.

(* ... while an ordinary record does round-trip (a test on one literal, not a theorem) *)
Example C07_roundtrip_sample :
  let m := mkMeta (bytes "example.com") (bytes "/a/b?x=1") [(bytes "Accept-Encoding", [bytes "gzip"])]
                  [(bytes "Cache-Control", [bytes "max-age=60"]); (bytes "Content-Type", [bytes "text/html"]); (bytes "Etag", [bytes """abc"""])]
                  200 [] 1700000000 0 42 in
  match decode_meta (encode_meta m) with
  | Some m' => sort_hdrs (m_resph m') = sort_hdrs (m_resph m) /\ m_size m' = 42%Z /\ m_host m' = m_host m
  | None => False
  end.
Proof. vm_compute. repeat split; reflexivity. Qed.
