(* strconv.FormatInt / ParseInt round trip, for every int64. *)
From Coq Require Import List NArith ZArith Bool Lia.
From Verif Require Import GoStr GoNum.
Import ListNotations.
Open Scope Z_scope.

Fixpoint ndigits (fuel : nat) (z : Z) : Z :=
  match fuel with
  | O => 0
  | S f => if z <? 10 then 1 else 1 + ndigits f (z / 10)
  end.

Lemma digit_char_digit d : 0 <= d < 10 -> is_digit (digit_char d) = true /\ Z.of_N (digit_char d) - 48 = d.
Proof.
  intros Hd. unfold digit_char, is_digit. rewrite Z2N.id by lia. split; [|lia].
  apply andb_true_iff. split; apply N.leb_le; lia.
Qed.

Lemma ndigits_nonneg fuel : forall z, 0 <= ndigits fuel z.
Proof. induction fuel as [|f IH]; intros z; cbn [ndigits]; [lia|]. destruct (z <? 10); [lia|]. specialize (IH (z / 10)). lia. Qed.

Lemma digits_val_fmt_pos : forall fuel z acc a,
  0 <= z < 10 ^ Z.of_nat fuel ->
  digits_val (fmt_pos fuel z acc) a = digits_val acc (a * 10 ^ ndigits fuel z + z).
Proof.
  induction fuel as [|f IH]; intros z acc a Hz.
  - cbn [fmt_pos ndigits]. change (10 ^ Z.of_nat 0) with 1 in Hz. f_equal. lia.
  - cbn [fmt_pos ndigits]. destruct (Z.ltb_spec z 10) as [Hlt|Hge].
    + cbn [digits_val]. destruct (digit_char_digit z ltac:(lia)) as [Hd Hv]. rewrite Hd, Hv.
      f_equal; change (10 ^ 1) with 10; lia.
    + assert (Hdiv : 0 <= z / 10 < 10 ^ Z.of_nat f).
      { rewrite Nat2Z.inj_succ, Z.pow_succ_r in Hz by lia. split; [apply Z.div_pos; lia|].
        apply Z.div_lt_upper_bound; lia. }
      rewrite IH by exact Hdiv. cbn [digits_val].
      destruct (digit_char_digit (z mod 10) ltac:(apply Z.mod_pos_bound; lia)) as [Hd Hv]. rewrite Hd, Hv.
      f_equal. pose proof (ndigits_nonneg f (z / 10)) as Hn.
      rewrite Z.pow_add_r by lia. change (10 ^ 1) with 10.
      pose proof (Z.div_mod z 10 ltac:(lia)). lia.
Qed.

Lemma fmt_pos_head : forall fuel z acc,
  0 <= z ->
  match acc with [] => (0 < fuel)%nat | d :: _ => is_digit d = true end ->
  exists d r, fmt_pos fuel z acc = d :: r /\ is_digit d = true.
Proof.
  induction fuel as [|f IH]; intros z acc Hz Hacc.
  - destruct acc as [|d r]; [lia|]. exists d, r. split; [reflexivity | exact Hacc].
  - cbn [fmt_pos]. destruct (Z.ltb_spec z 10) as [Hlt|Hge].
    + exists (digit_char z), acc. split; [reflexivity|]. apply digit_char_digit. lia.
    + apply IH; [apply Z.div_pos; lia|]. apply digit_char_digit. apply Z.mod_pos_bound. lia.
Qed.

Lemma fmt_pos_digits : forall fuel z acc c,
  0 <= z -> In c (fmt_pos fuel z acc) -> is_digit c = true \/ In c acc.
Proof.
  induction fuel as [|f IH]; intros z acc c Hz Hin.
  - right. exact Hin.
  - cbn [fmt_pos] in Hin. destruct (Z.ltb_spec z 10) as [Hlt|Hge].
    + destruct Hin as [E|Hin]; [left; subst; apply digit_char_digit; lia | right; exact Hin].
    + apply IH in Hin; [|apply Z.div_pos; lia]. destruct Hin as [H|[E|H]]; [left; exact H | | right; exact H].
      left. subst. apply digit_char_digit. apply Z.mod_pos_bound. lia.
Qed.

Lemma int64_lt_pow70 z : int64_min <= z <= int64_max -> Z.abs z < 10 ^ Z.of_nat 70.
Proof.
  intros H. assert (E : 10 ^ Z.of_nat 70 = 10000000000000000000000000000000000000000000000000000000000000000000000) by reflexivity.
  rewrite E. unfold int64_min, int64_max in H. lia.
Qed.

Lemma is_digit_not_sign c : is_digit c = true -> N.eqb c 45 = false /\ N.eqb c 43 = false.
Proof.
  unfold is_digit. intros H. apply andb_true_iff in H as [H1 H2]. apply N.leb_le in H1, H2.
  split; apply N.eqb_neq; lia.
Qed.

(* strconv.ParseInt(strconv.FormatInt(z, 10), 10, 64) = z for every int64 *)
Theorem parse_format_int z : int64_min <= z <= int64_max -> parse_int (format_int z) = Some z.
Proof.
  intros Hr. pose proof (int64_lt_pow70 z Hr) as Hp. unfold format_int.
  destruct (Z.ltb_spec z 0) as [Hneg|Hpos].
  - destruct (fmt_pos_head 70 (- z) [] ltac:(lia) ltac:(cbn; lia)) as [d [r [E Hd]]].
    unfold parse_int. rewrite N.eqb_refl. rewrite E. rewrite <- E.
    rewrite digits_val_fmt_pos by lia. cbn [digits_val].
    replace (0 * 10 ^ ndigits 70 (- z) + - z) with (- z) by lia. rewrite Z.opp_involutive.
    destruct ((int64_min <=? z) && (z <=? int64_max)) eqn:Eb; [reflexivity|].
    apply andb_false_iff in Eb as [Eb|Eb]; apply Z.leb_gt in Eb; lia.
  - destruct (fmt_pos_head 70 z [] ltac:(lia) ltac:(cbn; lia)) as [d [r [E Hd]]].
    unfold parse_int. rewrite E. destruct (is_digit_not_sign d Hd) as [E1 E2]. rewrite E1, E2. rewrite <- E.
    rewrite digits_val_fmt_pos by lia. cbn [digits_val].
    replace (0 * 10 ^ ndigits 70 z + z) with z by lia.
    destruct ((int64_min <=? z) && (z <=? int64_max)) eqn:Eb; [reflexivity|].
    apply andb_false_iff in Eb as [Eb|Eb]; apply Z.leb_gt in Eb; lia.
Qed.

Lemma format_int_chars z c : In c (format_int z) -> c = 45%N \/ is_digit c = true.
Proof.
  unfold format_int. destruct (Z.ltb_spec z 0) as [Hneg|Hpos]; intros Hin.
  - destruct Hin as [E|Hin]; [left; symmetry; exact E|]. apply fmt_pos_digits in Hin; [|lia]. destruct Hin as [H|[]]. right; exact H.
  - apply fmt_pos_digits in Hin; [|lia]. destruct Hin as [H|[]]. right; exact H.
Qed.

Lemma format_int_no_bar z : ~ In 124%N (format_int z).
Proof. intros H. apply format_int_chars in H as [H|H]; [discriminate | vm_compute in H; discriminate]. Qed.
