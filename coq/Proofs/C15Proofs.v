From Coq Require Import List NArith ZArith Bool Lia.
From Verif Require Import GoStr GoNum Range SpecC15.
Import ListNotations.
Open Scope Z_scope.

(* the parsed form getRange produces for each of the three syntactic forms *)
Definition to_rr (r : brange) : rrange :=
  match r with
  | FromTo a b => mkRange (Some a) (Some b)
  | From a => mkRange (Some a) None
  | Suffix s => mkRange None (Some (- s))
  end.

(* what the client receives on the fixed-length path (hit, or miss with Content-Length):
   setRangedHeaders decides status and headers, sendBody seeks and copies *)
Definition parse_cr (r : rrange) (cl : Z) : Z * Z * Z := (rr_start r cl, rr_end r cl, cl).

Definition range_answer (r : rrange) (resource : str) : option answer :=
  let n := Z.of_nat (length resource) in
  match set_ranged_headers (Some r) n 200 with
  | (206, Some _) =>
    match send_slice resource (rr_start r n) (rr_size r n) with
    | Some b => Some (mkAnswer 206 (Some (rr_size r n)) (Some (parse_cr r n)) b)
    | None => None   (* seek error after the header is out *)
    end
  | (st, _) => if st =? 200 then Some (mkAnswer 200 (Some n) None resource)
               else Some (mkAnswer st None None [])
  end.

(* Known-finding region of C15 (F13): suffix ranges longer than the resource or of length 0,
   and empty resources. *)
Definition kf_C15_suffix (r : brange) (n : Z) : bool :=
  match r with Suffix s => (s <=? 0) || (n <? s) | _ => false end.

Lemma range_exact r resource :
  let n := Z.of_nat (length resource) in
  0 < n -> wholly_inside r n = true ->
  exists a, range_answer (to_rr r) resource = Some a /\ answer_ok r resource a = true /\ an_status a = 206.
Proof.
  intros n Hn Hw. unfold range_answer, set_ranged_headers. fold n.
  assert (Hcl : (n <=? 0) = false) by (apply Z.leb_gt; lia).
  destruct r as [a b|a|s]; simpl in Hw; cbn [to_rr rr_s rr_e negb Z.eqb orb]; rewrite Hcl; cbn [orb].
  - apply andb_true_iff in Hw as [Hw Hb]. apply andb_true_iff in Hw as [Ha Hab].
    apply Z.leb_le in Ha, Hab. apply Z.ltb_lt in Hb.
    replace (n - 1 <? a) with false by (symmetry; apply Z.ltb_ge; lia).
    replace (n - 1 <? b) with false by (symmetry; apply Z.ltb_ge; lia). cbn [orb].
    unfold send_slice. cbn [rr_start rr_size rr_s rr_e].
    replace (a <? 0) with false by (symmetry; apply Z.ltb_ge; lia).
    eexists. split; [reflexivity|]. split; [|reflexivity].
    unfold answer_ok. cbn [an_status an_cr an_cl an_body]. fold n. cbn [Z.eqb].
    unfold resolve, parse_cr. cbn [rr_start rr_end rr_s rr_e].
    replace (0 <=? a) with true by (symmetry; apply Z.leb_le; lia).
    replace (a <=? b) with true by (symmetry; apply Z.leb_le; lia).
    replace (a <? n) with true by (symmetry; apply Z.ltb_lt; lia). cbn [andb].
    rewrite Z.min_l by lia. rewrite !Z.eqb_refl. cbn [andb].
    unfold slice. apply str_eqb_refl.
  - apply andb_true_iff in Hw as [Ha Hb]. apply Z.leb_le in Ha. apply Z.ltb_lt in Hb.
    replace (n - 1 <? a) with false by (symmetry; apply Z.ltb_ge; lia). cbn [orb].
    unfold send_slice. cbn [rr_start rr_size rr_s rr_e].
    replace (a <? 0) with false by (symmetry; apply Z.ltb_ge; lia).
    eexists. split; [reflexivity|]. split; [|reflexivity].
    unfold answer_ok. cbn [an_status an_cr an_cl an_body]. fold n. cbn [Z.eqb].
    unfold resolve, parse_cr. cbn [rr_start rr_end rr_s rr_e].
    replace (0 <=? a) with true by (symmetry; apply Z.leb_le; lia).
    replace (a <? n) with true by (symmetry; apply Z.ltb_lt; lia). cbn [andb].
    rewrite !Z.eqb_refl. cbn [andb].
    replace (n - 1 - a + 1) with (n - a) by lia. rewrite Z.eqb_refl. cbn [andb].
    unfold slice. replace (n - 1 - a + 1) with (n - a) by lia. apply str_eqb_refl.
  - apply andb_true_iff in Hw as [Hs Hb]. apply Z.ltb_lt in Hs. apply Z.leb_le in Hb.
    replace (n - 1 <? - s) with false by (symmetry; apply Z.ltb_ge; lia). cbn [orb].
    unfold send_slice. cbn [rr_start rr_size rr_s rr_e].
    replace (n + - s <? 0) with false by (symmetry; apply Z.ltb_ge; lia).
    eexists. split; [reflexivity|]. split; [|reflexivity].
    unfold answer_ok. cbn [an_status an_cr an_cl an_body]. fold n. cbn [Z.eqb].
    unfold resolve, parse_cr. cbn [rr_start rr_end rr_s rr_e].
    replace (0 <? s) with true by (symmetry; apply Z.ltb_lt; lia).
    replace (0 <? n) with true by (symmetry; apply Z.ltb_lt; lia). cbn [andb].
    rewrite Z.max_r by lia.
    replace (n - s =? n + - s) with true by (symmetry; apply Z.eqb_eq; lia).
    rewrite !Z.eqb_refl. cbn [andb].
    replace (n - 1 - (n + - s - 1) =? n - 1 - (n - s) + 1) with true by (symmetry; apply Z.eqb_eq; lia). cbn [andb].
    unfold slice.
    replace (n - 1 - (n + - s - 1)) with (n - 1 - (n - s) + 1) by lia.
    replace (n + - s) with (n - s) by lia. apply str_eqb_refl.
Qed.

(* a from-to or from range that reaches beyond the resource is answered 416 *)
Lemma out_of_range_416 r resource :
  let n := Z.of_nat (length resource) in
  0 < n -> wholly_inside r n = false ->
  match r with
  | FromTo a b => 0 <= a <= b
  | From a => 0 <= a
  | Suffix _ => False
  end ->
  exists a, range_answer (to_rr r) resource = Some a /\ an_status a = 416.
Proof.
  intros n Hn Hw Hf. unfold range_answer, set_ranged_headers. fold n.
  assert (Hcl : (n <=? 0) = false) by (apply Z.leb_gt; lia).
  destruct r as [a b|a|s]; [| |contradiction]; simpl in Hw; cbn [to_rr rr_s rr_e negb Z.eqb orb]; rewrite Hcl; cbn [orb].
  - replace (0 <=? a) with true in Hw by (symmetry; apply Z.leb_le; lia).
    replace (a <=? b) with true in Hw by (symmetry; apply Z.leb_le; lia). cbn [andb] in Hw.
    apply Z.ltb_ge in Hw.
    replace (n - 1 <? b) with true by (symmetry; apply Z.ltb_lt; lia). rewrite orb_true_r.
    eexists. split; reflexivity.
  - replace (0 <=? a) with true in Hw by (symmetry; apply Z.leb_le; lia). cbn [andb] in Hw.
    apply Z.ltb_ge in Hw.
    replace (n - 1 <? a) with true by (symmetry; apply Z.ltb_lt; lia). cbn [orb].
    eexists. split; reflexivity.
Qed.

(* every answer the fixed-length path produces for a non-empty resource is acceptable,
   outside the suffix region *)
Lemma range_answer_ok_partial r resource :
  let n := Z.of_nat (length resource) in
  0 < n -> kf_C15_suffix r n = false ->
  match r with FromTo a b => 0 <= a <= b | From a => 0 <= a | Suffix _ => True end ->
  exists a, range_answer (to_rr r) resource = Some a /\ answer_ok r resource a = true.
Proof.
  intros n Hn Hk Hf.
  destruct (wholly_inside r n) eqn:Hw.
  - destruct (range_exact r resource Hn Hw) as [a [H1 [H2 _]]]. exists a. auto.
  - destruct r as [a b|a|s].
    + destruct (out_of_range_416 (FromTo a b) resource Hn Hw Hf) as [x [H1 H2]].
      exists x. split; [exact H1|]. unfold answer_ok. rewrite H2. cbn [Z.eqb]. fold n. rewrite Hw. reflexivity.
    + destruct (out_of_range_416 (From a) resource Hn Hw Hf) as [x [H1 H2]].
      exists x. split; [exact H1|]. unfold answer_ok. rewrite H2. cbn [Z.eqb]. fold n. rewrite Hw. reflexivity.
    + simpl in Hk, Hw. apply orb_false_iff in Hk as [K1 K2].
      apply Z.leb_gt in K1. apply Z.ltb_ge in K2.
      replace (0 <? s) with true in Hw by (symmetry; apply Z.ltb_lt; lia).
      replace (s <=? n) with true in Hw by (symmetry; apply Z.leb_le; lia). discriminate.
Qed.

(* F13: the full statement is false. A 20-byte suffix of a 10-byte resource is answered
   with a header announcing bytes -10..9 and no body at all (the seek fails). *)
Lemma C15_refuted_suffix :
  range_answer (to_rr (Suffix 20)) (repeat 120%N 10) = None /\
  fst (set_ranged_headers (Some (to_rr (Suffix 20))) 10 200) = 206.
Proof. vm_compute. split; reflexivity. Qed.

Lemma C15_refuted_suffix0 :
  exists a, range_answer (to_rr (Suffix 0)) (repeat 120%N 10) = Some a /\ answer_ok (Suffix 0) (repeat 120%N 10) a = false.
Proof. eexists. split; vm_compute; reflexivity. Qed.
