From Coq Require Import List NArith ZArith Bool Lia.
From Verif Require Import GoStr GoNum Range SpecC15.
Import ListNotations.
Open Scope Z_scope.

(* the parsed form getRange produces for each of the three syntactic forms *)
Definition to_rr (r : brange) : rrange :=
  match r with
  | FromTo a b => mkRange (Some a) (Some b)
  | From a => mkRange (Some a) None
  | Suffix s => mkRange None (Some (- s))
  end.

Definition parse_cr (r : rrange) (cl : Z) : Z * Z * Z := (rr_start r cl, rr_end r cl, cl).

(* what the client receives on the cache-file path (hit, or miss of known length):
   setRangedHeaders decides status and headers, sendBody seeks and copies; when no 206 is
   announced the whole resource is sent *)
Definition range_answer (r : rrange) (resource : str) : option answer :=
  let n := Z.of_nat (length resource) in
  match set_ranged_headers (Some r) n 200 with
  | (206, Some _, Some r') =>
    match send_slice resource (rr_start r' n) (rr_size r' n) with
    | Some b => Some (mkAnswer 206 (Some (rr_size r' n)) (Some (parse_cr r' n)) b)
    | None => None
    end
  | (st, _, _) => if st =? 200 then Some (mkAnswer 200 (Some n) None resource)
                  else Some (mkAnswer st None None [])
  end.

Definition wellformed (r : brange) : Prop :=
  match r with FromTo a b => 0 <= a <= b | From a => 0 <= a | Suffix s => 0 <= s end.

Ltac zb :=
  repeat match goal with
         | |- context [?a <? ?b] => let H := fresh in destruct (Z.ltb_spec a b) as [H|H]; try lia
         | |- context [?a <=? ?b] => let H := fresh in destruct (Z.leb_spec a b) as [H|H]; try lia
         | |- context [?a =? ?b] => let H := fresh in destruct (Z.eqb_spec a b) as [H|H]; try lia
         end.

(* Every well-formed single range over every resource is answered acceptably: exactly the
   named bytes with matching headers, the whole resource, or 416 when the range is not
   wholly inside. *)
Lemma range_answer_ok r resource :
  wellformed r -> exists a, range_answer (to_rr r) resource = Some a /\ answer_ok r resource a = true.
Proof.
  intros Hw. unfold range_answer, set_ranged_headers.
  set (n := Z.of_nat (length resource)).
  assert (Hn : 0 <= n) by (unfold n; lia).
  change (negb (200 =? 200)) with false. cbn [orb].
  destruct (Z.leb_spec n 0) as [Hz|Hz].
  - (* empty resource: the whole (empty) response *)
    cbn [orb]. eexists. split; [reflexivity|]. unfold answer_ok. cbn [an_status an_cr an_cl an_body Z.eqb]. fold n.
    rewrite str_eqb_refl, Z.eqb_refl. reflexivity.
  - cbn [orb].
    destruct r as [a b|a|s]; simpl in Hw; cbn [to_rr rr_s rr_e clamp_suffix].
    + (* from-to *)
      destruct (Z.ltb_spec (n - 1) a) as [Ha|Ha]; cbn [orb].
      * eexists. split; [reflexivity|]. unfold answer_ok. cbn [an_status Z.eqb wholly_inside]. fold n. zb; reflexivity.
      * destruct (Z.ltb_spec (n - 1) b) as [Hb|Hb]; cbn [orb].
        -- eexists. split; [reflexivity|]. unfold answer_ok. cbn [an_status Z.eqb wholly_inside]. fold n. zb; reflexivity.
        -- unfold send_slice. cbn [rr_start rr_size rr_s rr_e].
           destruct (Z.ltb_spec a 0) as [H0|H0]; [lia|].
           eexists. split; [reflexivity|]. unfold answer_ok. cbn [an_status an_cr an_cl an_body Z.eqb]. fold n.
           unfold resolve, parse_cr. cbn [rr_start rr_end rr_s rr_e].
           replace (0 <=? a) with true by (symmetry; apply Z.leb_le; lia).
           replace (a <=? b) with true by (symmetry; apply Z.leb_le; lia).
           replace (a <? n) with true by (symmetry; apply Z.ltb_lt; lia). cbn [andb].
           rewrite Z.min_l by lia. rewrite !Z.eqb_refl. cbn [andb]. unfold slice. apply str_eqb_refl.
    + (* from *)
      destruct (Z.ltb_spec (n - 1) a) as [Ha|Ha]; cbn [orb].
      * eexists. split; [reflexivity|]. unfold answer_ok. cbn [an_status Z.eqb wholly_inside]. fold n. zb; reflexivity.
      * unfold send_slice. cbn [rr_start rr_size rr_s rr_e].
        destruct (Z.ltb_spec a 0) as [H0|H0]; [lia|].
        eexists. split; [reflexivity|]. unfold answer_ok. cbn [an_status an_cr an_cl an_body Z.eqb]. fold n.
        unfold resolve, parse_cr. cbn [rr_start rr_end rr_s rr_e].
        replace (0 <=? a) with true by (symmetry; apply Z.leb_le; lia).
        replace (a <? n) with true by (symmetry; apply Z.ltb_lt; lia). cbn [andb].
        rewrite !Z.eqb_refl. cbn [andb].
        replace (n - 1 - a + 1) with (n - a) by lia. rewrite Z.eqb_refl. cbn [andb].
        unfold slice. replace (n - 1 - a + 1) with (n - a) by lia. apply str_eqb_refl.
    + (* suffix *)
      destruct (Z.leb_spec 0 (- s)) as [Hs|Hs].
      * (* s = 0: unsatisfiable *)
        eexists. split; [reflexivity|]. unfold answer_ok. cbn [an_status Z.eqb wholly_inside]. fold n.
        replace (0 <? s) with false by (symmetry; apply Z.ltb_ge; lia). reflexivity.
      * rewrite Z.opp_involutive.
        destruct (Z.ltb_spec n s) as [Hc|Hc]; cbn [rr_s rr_e].
        -- (* longer than the resource: clamped to all of it *)
           replace (n - 1 <? - n) with false by (symmetry; apply Z.ltb_ge; lia). cbn [orb].
           unfold send_slice. cbn [rr_start rr_size rr_s rr_e].
           replace (n + - n <? 0) with false by (symmetry; apply Z.ltb_ge; lia).
           eexists. split; [reflexivity|]. unfold answer_ok. cbn [an_status an_cr an_cl an_body Z.eqb]. fold n.
           unfold resolve, parse_cr. cbn [rr_start rr_end rr_s rr_e].
           replace (0 <? s) with true by (symmetry; apply Z.ltb_lt; lia).
           replace (0 <? n) with true by (symmetry; apply Z.ltb_lt; lia). cbn [andb].
           rewrite Z.max_l by lia.
           replace (0 =? n + - n) with true by (symmetry; apply Z.eqb_eq; lia).
           rewrite !Z.eqb_refl. cbn [andb].
           replace (n - 1 - (n + - n - 1) =? n - 1 - 0 + 1) with true by (symmetry; apply Z.eqb_eq; lia). cbn [andb].
           unfold slice. replace (n - 1 - (n + - n - 1)) with (n - 1 - 0 + 1) by lia.
           replace (n + - n) with 0 by lia. apply str_eqb_refl.
        -- replace (n - 1 <? - s) with false by (symmetry; apply Z.ltb_ge; lia). cbn [orb].
           unfold send_slice. cbn [rr_start rr_size rr_s rr_e].
           replace (n + - s <? 0) with false by (symmetry; apply Z.ltb_ge; lia).
           eexists. split; [reflexivity|]. unfold answer_ok. cbn [an_status an_cr an_cl an_body Z.eqb]. fold n.
           unfold resolve, parse_cr. cbn [rr_start rr_end rr_s rr_e].
           replace (0 <? s) with true by (symmetry; apply Z.ltb_lt; lia).
           replace (0 <? n) with true by (symmetry; apply Z.ltb_lt; lia). cbn [andb].
           rewrite Z.max_r by lia.
           replace (n - s =? n + - s) with true by (symmetry; apply Z.eqb_eq; lia).
           rewrite !Z.eqb_refl. cbn [andb].
           replace (n - 1 - (n + - s - 1) =? n - 1 - (n - s) + 1) with true by (symmetry; apply Z.eqb_eq; lia). cbn [andb].
           unfold slice. replace (n - 1 - (n + - s - 1)) with (n - 1 - (n - s) + 1) by lia.
           replace (n + - s) with (n - s) by lia. apply str_eqb_refl.
Qed.

(* a range wholly inside a non-empty resource gets the exact 206 *)
Lemma range_exact r resource :
  let n := Z.of_nat (length resource) in
  0 < n -> wholly_inside r n = true ->
  exists a, range_answer (to_rr r) resource = Some a /\ answer_ok r resource a = true /\ an_status a = 206.
Proof.
  intros n Hn Hw.
  assert (Wf : wellformed r).
  { destruct r; simpl in *; repeat (apply andb_true_iff in Hw as [Hw ?]);
      repeat match goal with H : (_ <=? _) = true |- _ => apply Z.leb_le in H | H : (_ <? _) = true |- _ => apply Z.ltb_lt in H end; lia. }
  destruct (range_answer_ok r resource Wf) as [a [Ha Hok]]. exists a. split; [exact Ha|]. split; [exact Hok|].
  (* the answer cannot be 200-full or 416 when the range is inside... it is 206 by computation *)
  unfold range_answer, set_ranged_headers in Ha. fold n in Ha. change (negb (200 =? 200)) with false in Ha. cbn [orb] in Ha.
  destruct (Z.leb_spec n 0); [lia|]. cbn [orb] in Ha.
  destruct r as [x y|x|s]; simpl in Hw; cbn [to_rr rr_s rr_e clamp_suffix] in Ha.
  - apply andb_true_iff in Hw as [Hw Hy]. apply andb_true_iff in Hw as [Hx Hxy].
    apply Z.leb_le in Hx, Hxy. apply Z.ltb_lt in Hy.
    destruct (Z.ltb_spec (n - 1) x); [lia|]. destruct (Z.ltb_spec (n - 1) y); [lia|]. cbn [orb] in Ha.
    unfold send_slice in Ha. cbn [rr_start rr_s rr_e] in Ha. destruct (Z.ltb_spec x 0); [lia|]. inversion Ha. reflexivity.
  - apply andb_true_iff in Hw as [Hx Hy]. apply Z.leb_le in Hx. apply Z.ltb_lt in Hy.
    destruct (Z.ltb_spec (n - 1) x); [lia|]. cbn [orb] in Ha.
    unfold send_slice in Ha. cbn [rr_start rr_s rr_e] in Ha. destruct (Z.ltb_spec x 0); [lia|]. inversion Ha. reflexivity.
  - apply andb_true_iff in Hw as [Hs Hy]. apply Z.ltb_lt in Hs. apply Z.leb_le in Hy.
    destruct (Z.leb_spec 0 (- s)); [lia|]. rewrite Z.opp_involutive in Ha.
    destruct (Z.ltb_spec n s); [lia|]. cbn [rr_s rr_e] in Ha.
    destruct (Z.ltb_spec (n - 1) (- s)); [lia|]. cbn [orb] in Ha.
    unfold send_slice in Ha. cbn [rr_start rr_s rr_e] in Ha. destruct (Z.ltb_spec (n + - s) 0); [lia|]. inversion Ha. reflexivity.
Qed.
