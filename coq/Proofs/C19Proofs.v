(* C19: configurations are accepted or rejected whole; a reload keeps the last good one. *)
From Coq Require Import String.
From Coq Require Import List NArith ZArith Bool Lia.
From Verif Require Import GoStr GoNum GoHeader Sx Tables Route Config.
Import ListNotations.
Open Scope Z_scope.

(* the tables the model's literals stand for: a change of the source lists breaks these *)
Lemma known_types_are : known_types = [bytes "copy_traffic"; bytes "proxy"] \/ known_types = [bytes "proxy"; bytes "copy_traffic"].
Proof. vm_compute. auto. Qed.

(* ---------- accepted rules are well-formed, retry rules included ---------- *)
Fixpoint rule_wf (fuel : nat) (dest_ok : str -> bool) (r : rule) : Prop :=
  r_path r <> [] /\ r_dest r <> [] /\ wildcard_ok (to_lower (r_path r)) = true /\ dest_ok (r_dest r) = true
  /\ forallb known_method (r_methods r) = true /\ 0 <= r_force_reval r
  /\ match fuel, r_retry r with
     | S f, Some rr => rule_wf f dest_ok rr
     | _, _ => True
     end.

Lemma bind_ok {A B} (r : res A) (f : A -> res B) b : bind r f = Ok b -> exists a, r = Ok a /\ f a = Ok b.
Proof. destruct r as [a|]; cbn [bind]; intros H; [exists a; split; [reflexivity|exact H]|discriminate]. Qed.

Lemma str_eqb_nil_false s : str_eqb s [] = false -> s <> [].
Proof. intros H E. subst. discriminate. Qed.

Lemma new_rule_wf fuel : forall dest_ok s r, new_rule fuel dest_ok s = Ok r -> rule_wf fuel dest_ok r.
Proof.
  induction fuel as [|f IH]; intros dest_ok s r H; cbn [new_rule] in H; [discriminate|].
  destruct (str_eqb (s_path s) [] || str_eqb (s_dest s) []) eqn:E1; [discriminate|].
  apply orb_false_iff in E1 as [Ep Ed].
  destruct (forallb known_method (s_methods s)) eqn:Em; cbn [negb] in H; [|discriminate].
  apply bind_ok in H as [ty [_ H]]. apply bind_ok in H as [retry [Hr H]].
  destruct (wildcard_ok (to_lower (s_path s))) eqn:Ew; cbn [negb] in H; [|discriminate].
  destruct (dest_ok (s_dest s)) eqn:Eo; cbn [negb] in H; [|discriminate].
  inversion H; subst r. cbn [rule_wf r_path r_dest r_methods r_force_reval r_retry].
  repeat split; try assumption; try (apply str_eqb_nil_false; assumption).
  - destruct (0 <? s_force s) eqn:Ef; [apply Z.ltb_lt in Ef; lia|lia].
  - destruct retry as [rr|]; [|destruct f; exact Logic.I].
    destruct (s_retry s) as [srr|]; [|discriminate].
    apply bind_ok in Hr as [r' [Hr E]]. inversion E; subst r'.
    destruct f as [|f']; [cbn in Hr; discriminate|]. apply (IH dest_ok srr rr Hr).
Qed.

Lemma map_res_forall {A B} (f : A -> res B) (P : B -> Prop) :
  (forall a b, f a = Ok b -> P b) -> forall l l', map_res f l = Ok l' -> Forall P l'.
Proof.
  intros Hf. induction l as [|a l IH]; intros l' H; cbn [map_res] in H.
  - inversion H. constructor.
  - apply bind_ok in H as [b [Hb H]]. apply bind_ok in H as [bs [Hbs H]]. inversion H; subst.
    constructor; [apply (Hf a b Hb)|apply IH; exact Hbs].
Qed.

Theorem accepted_rules_wellformed dest_ok v rules :
  parse_rules dest_ok v = Ok rules -> rules <> [] /\ Forall (rule_wf 8 dest_ok) rules.
Proof.
  unfold parse_rules. intros H. apply bind_ok in H as [srcs [_ H]].
  destruct srcs as [|s srcs]; [discriminate|]. unfold new_rules in H. split.
  - cbn [map_res] in H. apply bind_ok in H as [b [_ H]]. apply bind_ok in H as [bs [_ H]]. inversion H. discriminate.
  - apply (map_res_forall (new_rule 8 dest_ok) (rule_wf 8 dest_ok) (new_rule_wf 8 dest_ok) (s :: srcs) rules H).
Qed.

(* accepted caches: distinct ids and distinct paths, none empty *)
Definition storages_ok (cs : list storage_cfg) : Prop :=
  NoDup (map sc_id cs) /\ NoDup (map sc_path cs) /\ Forall (fun c => sc_id c <> [] /\ sc_path c <> []) cs.

Lemma existsb_false_notin {A} (f : A -> bool) l : existsb f l = false -> forall x, In x l -> f x = false.
Proof.
  induction l as [|y l IH]; cbn [existsb]; intros H x Hx; [destruct Hx|].
  apply orb_false_iff in H as [H1 H2]. destruct Hx as [->|Hx]; [exact H1|apply IH; assumption].
Qed.

Lemma nodup_snoc {A} (l : list A) x : NoDup l -> ~ In x l -> NoDup (l ++ [x]).
Proof.
  induction l as [|y l IH]; cbn [app]; intros N H; [constructor; [intros []|constructor]|].
  inversion N as [|? ? Hy N']; subst. constructor.
  - intros Hc. apply in_app_or in Hc as [Hc|[Hc|[]]]; [contradiction|]. subst. apply H; left; reflexivity.
  - apply IH; [exact N'|]. intros Hc; apply H; right; exact Hc.
Qed.

Lemma collect_storages_ok size_of l : forall acc cs,
  storages_ok acc -> collect_storages size_of l acc = Ok cs -> storages_ok cs.
Proof.
  induction l as [|[[size path] id] l IH]; intros acc cs Hacc H; cbn [collect_storages] in H.
  - inversion H; subst. exact Hacc.
  - destruct (str_eqb path [] || str_eqb id []) eqn:E0; [apply (IH acc cs Hacc H)|].
    apply orb_false_iff in E0 as [Ep Ei].
    destruct (existsb (fun c => str_eqb (sc_path c) path || str_eqb (sc_id c) id) acc) eqn:E1; [discriminate|].
    destruct (size_of size) as [n|]; [|apply (IH acc cs Hacc H)].
    apply (IH (acc ++ [mkStorage id path n]) cs); [|exact H].
    destruct Hacc as [N1 [N2 F]]. pose proof (existsb_false_notin _ _ E1) as Hno.
    unfold storages_ok. rewrite !map_app. cbn [map sc_id sc_path]. repeat split.
    + apply nodup_snoc; [exact N1|]. intros Hc. apply in_map_iff in Hc as [c [Ec Hc]].
      specialize (Hno c Hc). apply orb_false_iff in Hno as [_ Hno]. rewrite Ec, str_eqb_refl in Hno. discriminate.
    + apply nodup_snoc; [exact N2|]. intros Hc. apply in_map_iff in Hc as [c [Ec Hc]].
      specialize (Hno c Hc). apply orb_false_iff in Hno as [Hno _]. rewrite Ec, str_eqb_refl in Hno. discriminate.
    + apply Forall_app. split; [exact F|]. constructor; [|constructor]. cbn [sc_id sc_path].
      split; apply str_eqb_nil_false; assumption.
Qed.

Theorem accepted_storages_wellformed size_of v cs : parse_storages size_of v = Ok cs -> storages_ok cs.
Proof.
  unfold parse_storages. intros H. apply bind_ok in H as [l [_ H]].
  apply (collect_storages_ok size_of l [] cs); [|exact H]. repeat split; constructor.
Qed.

(* ---------- the reload step ---------- *)
Section Reload.
Variable dest_ok : str -> bool.
Variable size_of : str -> option Z.

Definition acceptable (d : fetched) : Prop := exists st, start dest_ok size_of d = Some st.

Lemma start_some d st :
  start dest_ok size_of d = Some st ->
  exists v rules caches, f_tree d = Some v /\ parse_rules dest_ok v = Ok rules /\ parse_storages size_of v = Ok caches
                         /\ st = mkRState rules caches (f_sum d).
Proof.
  unfold start. destruct (f_tree d) as [v|]; [|discriminate].
  destruct (parse_rules dest_ok v) as [rules|] eqn:E1; [|discriminate].
  destruct (parse_storages size_of v) as [caches|] eqn:E2; [|discriminate].
  intros H. inversion H. exists v, rules, caches. split; [reflexivity|]. split; [exact E1|]. split; [exact E2|reflexivity].
Qed.

(* a fetch that fails, a text that is neither YAML nor JSON, rules or caches that do not validate:
   the state is untouched *)
Theorem failed_reload_keeps_everything st f :
  match f with
  | None => True
  | Some d => start dest_ok size_of d = None
  end -> reload dest_ok size_of st f = st.
Proof.
  destruct f as [d|]; [|reflexivity]. unfold reload, start. intros H.
  destruct (str_eqb (f_sum d) (rs_sum st)); [reflexivity|].
  destruct (f_tree d) as [v|]; [|reflexivity].
  destruct (parse_rules dest_ok v); [|reflexivity].
  destruct (parse_storages size_of v); [discriminate|reflexivity].
Qed.

(* a document that validates as a whole and is not the one in force: the state is what a start on
   that document gives *)
Theorem good_reload_is_a_restart st d st' :
  start dest_ok size_of d = Some st' -> f_sum d <> rs_sum st ->
  reload dest_ok size_of st (Some d) = st'.
Proof.
  intros H Hs. apply start_some in H as [v [rules [caches [E1 [E2 [E3 E4]]]]]]. subst st'.
  unfold reload. destruct (str_eqb (f_sum d) (rs_sum st)) eqn:E; [apply str_eqb_eq in E; contradiction|].
  rewrite E1, E2, E3. reflexivity.
Qed.

(* sequences: after any sequence of reloads the state is that of a start on the last acceptable
   document (the start-up one if none), provided equal checksums mean equal documents *)
Definition run (st : rstate) (fs : list (option fetched)) : rstate := fold_left (reload dest_ok size_of) fs st.

Fixpoint last_acceptable (fs : list (option fetched)) (cur : rstate) : rstate :=
  match fs with
  | [] => cur
  | None :: rest => last_acceptable rest cur
  | Some d :: rest =>
    match start dest_ok size_of d with
    | Some st => last_acceptable rest st
    | None => last_acceptable rest cur
    end
  end.

Definition sums_faithful (d0 : fetched) (fs : list (option fetched)) : Prop :=
  forall d d', (d = d0 \/ In (Some d) fs) -> (d' = d0 \/ In (Some d') fs) -> f_sum d = f_sum d' -> f_tree d = f_tree d'.

Lemma start_same_sum_tree d d' : f_sum d = f_sum d' -> f_tree d = f_tree d' -> start dest_ok size_of d = start dest_ok size_of d'.
Proof. unfold start. intros E1 E2. rewrite E1, E2. reflexivity. Qed.

Theorem reloads_keep_last_acceptable fs : forall d0 st0,
  start dest_ok size_of d0 = Some st0 -> sums_faithful d0 fs ->
  run st0 fs = last_acceptable fs st0.
Proof.
  induction fs as [|f fs IH]; intros d0 st0 H0 SF; [reflexivity|].
  unfold run. cbn [fold_left last_acceptable]. fold (run (reload dest_ok size_of st0 f) fs).
  destruct f as [d|].
  - destruct (start dest_ok size_of d) as [st|] eqn:Es.
    + destruct (str_eq_dec (f_sum d) (rs_sum st0)) as [Esum|Nsum].
      * (* the document in force again: nothing happens, and nothing needs to *)
        assert (Hs0 : rs_sum st0 = f_sum d0).
        { apply start_some in H0 as [v [r [c [_ [_ [_ E]]]]]]. subst st0. reflexivity. }
        assert (Et : f_tree d = f_tree d0).
        { apply SF; [right; left; reflexivity|left; reflexivity|congruence]. }
        assert (st = st0).
        { rewrite (start_same_sum_tree d d0) in Es by congruence. congruence. }
        subst st. unfold reload. rewrite Esum, str_eqb_refl.
        apply (IH d0 st0 H0). intros a b Ha Hb. apply SF; [destruct Ha as [Ha|Ha]; [left; exact Ha|right; right; exact Ha]
                                                         |destruct Hb as [Hb|Hb]; [left; exact Hb|right; right; exact Hb]].
      * rewrite (good_reload_is_a_restart st0 d st Es Nsum).
        apply (IH d st Es). intros a b Ha Hb. apply SF; [destruct Ha as [Ha|Ha]; [right; left; congruence|right; right; exact Ha]
                                                       |destruct Hb as [Hb|Hb]; [right; left; congruence|right; right; exact Hb]].
    + rewrite (failed_reload_keeps_everything st0 (Some d) Es).
      apply (IH d0 st0 H0). intros a b Ha Hb. apply SF; [destruct Ha as [Ha|Ha]; [left; exact Ha|right; right; exact Ha]
                                                       |destruct Hb as [Hb|Hb]; [left; exact Hb|right; right; exact Hb]].
  - cbn [reload]. apply (IH d0 st0 H0). intros a b Ha Hb. apply SF; [destruct Ha as [Ha|Ha]; [left; exact Ha|right; right; exact Ha]
                                                                   |destruct Hb as [Hb|Hb]; [left; exact Hb|right; right; exact Hb]].
Qed.

End Reload.

(* the two spellings: whatever texts produce the same tree are the same configuration *)
Theorem same_tree_same_configuration dest_ok size_of (v1 v2 : jv) :
  v1 = v2 -> parse_rules dest_ok v1 = parse_rules dest_ok v2 /\ parse_storages size_of v1 = parse_storages size_of v2.
Proof. intros ->. split; reflexivity. Qed.
