(* C12, the lock protocol of caching/caching.go at the grain of its own steps:
   getReaderOrWriter (take the key or queue up), the fetch, the releases a writer sends (the storage
   writer's on Close/Delete and the handler's deferred cache.Finish - any number of them, at any
   later time), releases by requests that hold nothing (readers' cache.Finish on error paths), and
   readerNotifier processing one release at a time. Any number of requests, any interleaving.
   Definitions and proofs (the file is self-contained: the protocol is small). *)
From Coq Require Import List Arith Bool Lia.
Import ListNotations.

Inductive pstate :=
| PNew                      (* about to look the key up (also: woken up, looking again) *)
| PWaiting                  (* queued behind the holder *)
| PFetching (tok : nat)     (* holds the key under this number, its origin fetch is in flight *)
| PHolding (tok : nat)      (* its fetch is over; it still has its number and may send releases *)
| PDone.

Record st := mkSt {
  lock : option nat;        (* waitingReaders has the key: held under this owner number *)
  ntok : nat;               (* lastLockOwner *)
  waiters : list nat;       (* requests queued on the key *)
  notifs : list nat;        (* releases sent and not yet processed by readerNotifier, with the number they carry *)
  procs : list pstate
}.

Inductive label :=
| LLookup (p : nat)         (* getReaderOrWriter *)
| LFetchDone (p : nat)      (* the origin answered; the body is stored or the fetch failed *)
| LRelease (p : nat)        (* the holder's number is sent as a release (storageWriter.notify, cache.Finish) *)
| LStrayRelease (t : nat)   (* a release by someone who holds nothing: carries 0 or a number that was released before *)
| LFinish (p : nat)         (* the handler returns *)
| LNotify.                  (* readerNotifier takes the next release *)

Definition pget (s : st) (p : nat) : pstate := nth p (procs s) PDone.
Fixpoint pset (l : list pstate) (p : nat) (x : pstate) : list pstate :=
  match l, p with
  | [], _ => []
  | _ :: l', O => x :: l'
  | y :: l', S p' => y :: pset l' p' x
  end.
Definition wake_all (l : list pstate) (ws : list nat) : list pstate := fold_left (fun l w => pset l w PNew) ws l.

(* owner_checked = true: the repaired protocol. false: a release drops the lock whoever sent it. *)
Definition step (owner_checked : bool) (s : st) (a : label) : st :=
  match a with
  | LLookup p =>
    match pget s p with
    | PNew =>
      match lock s with
      | None => mkSt (Some (S (ntok s))) (S (ntok s)) (waiters s) (notifs s) (pset (procs s) p (PFetching (S (ntok s))))
      | Some _ => mkSt (lock s) (ntok s) (waiters s ++ [p]) (notifs s) (pset (procs s) p PWaiting)
      end
    | _ => s
    end
  | LFetchDone p =>
    match pget s p with
    | PFetching t => mkSt (lock s) (ntok s) (waiters s) (notifs s) (pset (procs s) p (PHolding t))
    | _ => s
    end
  | LRelease p =>
    match pget s p with
    | PHolding t => mkSt (lock s) (ntok s) (waiters s) (notifs s ++ [t]) (procs s)
    | _ => s
    end
  | LStrayRelease t =>
    (* a release by a request that holds nothing: it carries 0 or a number handed out earlier whose
       fetch is over (a reader's key, a woken waiter's copy of the previous holder's key) *)
    if Nat.leb t (ntok s) && negb (existsb (fun q => match q with PFetching t' => Nat.eqb t t' | _ => false end) (procs s))
    then mkSt (lock s) (ntok s) (waiters s) (notifs s ++ [t]) (procs s)
    else s
  | LFinish p =>
    match pget s p with
    | PHolding t => mkSt (lock s) (ntok s) (waiters s) (notifs s) (pset (procs s) p PDone)
    | _ => s
    end
  | LNotify =>
    match notifs s with
    | [] => s
    | t :: rest =>
      match lock s with
      | Some o =>
        if negb owner_checked || Nat.eqb o t
        then mkSt None (ntok s) [] rest (wake_all (procs s) (waiters s))
        else mkSt (lock s) (ntok s) (waiters s) rest (procs s)
      | None => mkSt None (ntok s) (waiters s) rest (procs s)
      end
    end
  end.

Definition init (n : nat) : st := mkSt None 0 [] [] (repeat PNew n).
Definition run (oc : bool) (s : st) (l : list label) : st := fold_left (step oc) l s.

Definition in_flight (s : st) : nat :=
  length (filter (fun q => match q with PFetching _ => true | _ => false end) (procs s)).

(* ---------- the invariant ---------- *)
Definition at_ (s : st) (p : nat) (x : pstate) : Prop := nth_error (procs s) p = Some x.
Definition has_tok (s : st) (p t : nat) : Prop := at_ s p (PFetching t) \/ at_ s p (PHolding t).

Record Inv (s : st) : Prop := mkInv {
  inv_lock : forall p t, at_ s p (PFetching t) -> lock s = Some t;      (* whoever fetches holds the key *)
  inv_notif : forall p t, at_ s p (PFetching t) -> ~ In t (notifs s);   (* no release carrying its number is under way *)
  inv_uniq : forall p q t, has_tok s p t -> has_tok s q t -> p = q;     (* a number belongs to one request *)
  inv_le_p : forall p t, has_tok s p t -> t <= ntok s;
  inv_le_n : forall t, In t (notifs s) -> t <= ntok s;
  inv_le_l : forall t, lock s = Some t -> t <= ntok s
}.

Lemma nth_error_pset_same l p x : p < length l -> nth_error (pset l p x) p = Some x.
Proof.
  revert p. induction l as [|y l IH]; intros p H; cbn in H; [lia|].
  destruct p; cbn; [reflexivity|]. apply IH. lia.
Qed.
Lemma nth_error_pset_other l p q x : p <> q -> nth_error (pset l p x) q = nth_error l q.
Proof.
  revert p q. induction l as [|y l IH]; intros p q H; [destruct p; reflexivity|].
  destruct p, q; cbn; try reflexivity; [congruence|]. apply IH. congruence.
Qed.
Lemma length_pset l p x : length (pset l p x) = length l.
Proof. revert p. induction l as [|y l IH]; intros p; [destruct p; reflexivity|]. destruct p; cbn; [reflexivity|]. rewrite IH. reflexivity. Qed.

Lemma pget_at s p x : pget s p = x -> x <> PDone -> at_ s p x /\ p < length (procs s).
Proof.
  unfold pget, at_. intros H N. destruct (nth_error (procs s) p) as [y|] eqn:E.
  - rewrite (nth_error_nth _ _ PDone E) in H. subst. split; [reflexivity|]. apply nth_error_Some. congruence.
  - apply nth_error_None in E. rewrite nth_overflow in H by exact E. congruence.
Qed.

(* the state of every request but p is what it was *)
Lemma at_pset_other s l p q x y : l = pset (procs s) p y -> p <> q ->
  nth_error l q = Some x -> at_ s q x.
Proof. intros -> N H. unfold at_. rewrite nth_error_pset_other in H by exact N. exact H. Qed.

Lemma wake_keeps ws : forall l p x, x <> PNew ->
  nth_error (wake_all l ws) p = Some x -> nth_error l p = Some x.
Proof.
  unfold wake_all. induction ws as [|w ws IH]; intros l p x Nx H; cbn [fold_left] in H; [exact H|].
  apply IH in H; [|exact Nx]. destruct (Nat.eq_dec w p) as [->|N].
  - destruct (Nat.lt_ge_cases p (length l)) as [L|L].
    + rewrite nth_error_pset_same in H by exact L. congruence.
    + assert (nth_error (pset l p PNew) p = None) by (apply nth_error_None; rewrite length_pset; exact L). congruence.
  - rewrite nth_error_pset_other in H by exact N. exact H.
Qed.

Lemma existsb_fetching_false l t :
  existsb (fun q => match q with PFetching t' => Nat.eqb t t' | _ => false end) l = false ->
  forall p, nth_error l p <> Some (PFetching t).
Proof.
  intros H p E. apply nth_error_In in E.
  assert (existsb (fun q => match q with PFetching t' => Nat.eqb t t' | _ => false end) l = true).
  { apply existsb_exists. exists (PFetching t). split; [exact E|apply Nat.eqb_refl]. }
  congruence.
Qed.

Ltac other_proc H N := unfold at_, has_tok in *; cbn [procs] in *; rewrite ?nth_error_pset_other in H by exact N.

Theorem step_inv s a : Inv s -> Inv (step true s a).
Proof.
  intros I. pose proof I as [A B C D E F]. destruct a as [p|p|p|t|p|]; cbn [step].
  - (* lookup *)
    destruct (pget s p) eqn:Ep; try exact I.
    destruct (pget_at s p PNew Ep ltac:(discriminate)) as [Ep' Lp].
    assert (NT : forall t, ~ has_tok s p t) by (intros t [H|H]; unfold at_ in *; congruence).
    destruct (lock s) as [o|] eqn:El.
    + (* queues up: no state with a number changes *)
      assert (K : forall q x, x <> PWaiting -> nth_error (pset (procs s) p PWaiting) q = Some x -> at_ s q x).
      { intros q x Nx H. destruct (Nat.eq_dec p q) as [->|N]; [rewrite nth_error_pset_same in H by exact Lp; congruence|].
        unfold at_. rewrite nth_error_pset_other in H by exact N. exact H. }
      assert (KT : forall q t, has_tok (mkSt (Some o) (ntok s) (waiters s ++ [p]) (notifs s) (pset (procs s) p PWaiting)) q t -> has_tok s q t).
      { intros q t [H|H]; [left|right]; apply K; try discriminate; exact H. }
      constructor; cbn [lock notifs ntok].
      * intros q t H. apply (A q t). apply K; [discriminate|exact H].
      * intros q t H. apply (B q t). apply K; [discriminate|exact H].
      * intros q r t H1 H2. apply (C q r t); apply KT; assumption.
      * intros q t H. apply (D q t). apply KT; exact H.
      * exact E.
      * exact F.
    + (* takes the key under a fresh number; nobody is fetching, for a fetcher would hold the lock *)
      assert (NoF : forall q t, at_ s q (PFetching t) -> False) by (intros q t H; specialize (A q t H); congruence).
      set (s' := mkSt (Some (S (ntok s))) (S (ntok s)) (waiters s) (notifs s) (pset (procs s) p (PFetching (S (ntok s))))).
      assert (K : forall q x, q <> p -> nth_error (procs s') q = Some x -> at_ s q x).
      { intros q x N H. unfold at_. cbn [s' procs] in H. rewrite nth_error_pset_other in H by congruence. exact H. }
      assert (Kp : nth_error (procs s') p = Some (PFetching (S (ntok s)))) by (cbn [s' procs]; apply nth_error_pset_same; exact Lp).
      constructor; cbn [lock notifs ntok].
      * intros q t H. destruct (Nat.eq_dec q p) as [->|N]; [unfold at_ in H; rewrite Kp in H; inversion H; reflexivity|].
        exfalso. apply (NoF q t). apply K; assumption.
      * intros q t H. destruct (Nat.eq_dec q p) as [->|N].
        -- unfold at_ in H. rewrite Kp in H. inversion H; subst t. intros Hc. apply E in Hc. lia.
        -- exfalso. apply (NoF q t). apply K; assumption.
      * intros q r t H1 H2.
        assert (G : forall x u, has_tok s' x u -> x <> p -> has_tok s x u /\ u <= ntok s).
        { intros x u [H|H] N; [assert (has_tok s x u) by (left; apply K; assumption)|assert (has_tok s x u) by (right; apply K; assumption)];
            (split; [assumption|apply (D x u); assumption]). }
        assert (Gp : forall u, has_tok s' p u -> u = S (ntok s)).
        { intros u [H|H]; unfold at_ in H; rewrite Kp in H; inversion H; reflexivity. }
        destruct (Nat.eq_dec q p) as [->|N1]; destruct (Nat.eq_dec r p) as [->|N2]; try reflexivity.
        -- apply Gp in H1. destruct (G r t H2 N2) as [_ L]. lia.
        -- apply Gp in H2. destruct (G q t H1 N1) as [_ L]. lia.
        -- apply (C q r t); [apply (G q t H1 N1)|apply (G r t H2 N2)].
      * intros q t H. unfold s'; cbn [ntok]. destruct (Nat.eq_dec q p) as [->|N].
        -- destruct H as [H|H]; unfold at_ in H; rewrite Kp in H; inversion H; lia.
        -- assert (has_tok s q t) by (destruct H as [H|H]; [left|right]; apply K; assumption). specialize (D q t H0). lia.
      * intros t H. unfold s' in *; cbn [ntok notifs] in *. specialize (E t H). lia.
      * intros t H. unfold s' in *; cbn [ntok lock] in *. inversion H. lia.
  - (* the fetch is over *)
    destruct (pget s p) as [| |t| |] eqn:Ep; try exact I.
    destruct (pget_at s p (PFetching t) Ep ltac:(discriminate)) as [Ep' Lp].
    set (s' := mkSt (lock s) (ntok s) (waiters s) (notifs s) (pset (procs s) p (PHolding t))).
    assert (K : forall q x, q <> p -> nth_error (procs s') q = Some x -> at_ s q x).
    { intros q x N H. unfold at_. cbn [s' procs] in H. rewrite nth_error_pset_other in H by congruence. exact H. }
    assert (Kp : nth_error (procs s') p = Some (PHolding t)) by (cbn [s' procs]; apply nth_error_pset_same; exact Lp).
    assert (KT : forall q u, has_tok s' q u -> has_tok s q u).
    { intros q u H. destruct (Nat.eq_dec q p) as [->|N].
      - destruct H as [H|H]; unfold at_ in H; rewrite Kp in H; inversion H; subst. left; exact Ep'.
      - destruct H as [H|H]; [left|right]; apply K; assumption. }
    constructor; cbn [lock notifs ntok].
    + intros q u H. destruct (Nat.eq_dec q p) as [->|N]; [unfold at_ in H; rewrite Kp in H; discriminate|]. apply (A q u). apply K; assumption.
    + intros q u H. destruct (Nat.eq_dec q p) as [->|N]; [unfold at_ in H; rewrite Kp in H; discriminate|]. apply (B q u). apply K; assumption.
    + intros q r u H1 H2. apply (C q r u); apply KT; assumption.
    + intros q u H. apply (D q u). apply KT; exact H.
    + exact E.
    + exact F.
  - (* the holder sends a release under its number *)
    destruct (pget s p) as [| | |t|] eqn:Ep; try exact I.
    destruct (pget_at s p (PHolding t) Ep ltac:(discriminate)) as [Ep' Lp].
    constructor; cbn [lock notifs ntok procs]; try assumption.
    + intros q u H Hc. apply in_app_or in Hc as [Hc|[<-|[]]]; [exact (B q u H Hc)|].
      (* the number is p's, and p is not fetching *)
      assert (q = p) by (apply (C q p t); [left; exact H|right; exact Ep']). subst q.
      unfold at_ in *. cbn [procs] in *. congruence.
    + intros u Hc. apply in_app_or in Hc as [Hc|[<-|[]]]; [exact (E u Hc)|]. apply (D p t). right; exact Ep'.
  - (* a release by a request that holds nothing *)
    destruct (Nat.leb t (ntok s) && negb (existsb (fun q => match q with PFetching t' => Nat.eqb t t' | _ => false end) (procs s))) eqn:G; [|exact I].
    apply andb_true_iff in G as [G1 G2]. apply Nat.leb_le in G1. apply negb_true_iff in G2.
    constructor; cbn [lock notifs ntok procs]; try assumption.
    + intros q u H Hc. apply in_app_or in Hc as [Hc|[<-|[]]]; [exact (B q u H Hc)|].
      exact (existsb_fetching_false _ _ G2 q H).
    + intros u Hc. apply in_app_or in Hc as [Hc|[<-|[]]]; [exact (E u Hc)|exact G1].
  - (* the handler returns *)
    destruct (pget s p) as [| | |t|] eqn:Ep; try exact I.
    destruct (pget_at s p (PHolding t) Ep ltac:(discriminate)) as [Ep' Lp].
    set (s' := mkSt (lock s) (ntok s) (waiters s) (notifs s) (pset (procs s) p PDone)).
    assert (K : forall q x, x <> PDone -> nth_error (procs s') q = Some x -> at_ s q x).
    { intros q x Nx H. cbn [s' procs] in H. destruct (Nat.eq_dec p q) as [->|N]; [rewrite nth_error_pset_same in H by exact Lp; congruence|].
      unfold at_. rewrite nth_error_pset_other in H by exact N. exact H. }
    assert (KT : forall q u, has_tok s' q u -> has_tok s q u) by (intros q u [H|H]; [left|right]; apply K; try discriminate; exact H).
    constructor; cbn [lock notifs ntok].
    + intros q u H. apply (A q u). apply K; [discriminate|exact H].
    + intros q u H. apply (B q u). apply K; [discriminate|exact H].
    + intros q r u H1 H2. apply (C q r u); apply KT; assumption.
    + intros q u H. apply (D q u). apply KT; exact H.
    + exact E.
    + exact F.
  - (* readerNotifier takes the next release *)
    destruct (notifs s) as [|t rest] eqn:En; [exact I|].
    destruct (lock s) as [o|] eqn:El.
    + cbn [negb orb]. destruct (Nat.eqb o t) eqn:Eo.
      * (* the holder's own release: nobody is fetching under it, so nobody is fetching at all *)
        apply Nat.eqb_eq in Eo. subst o.
        assert (NoF : forall q u, at_ s q (PFetching u) -> False).
        { intros q u H. assert (u = t) by (specialize (A q u H); congruence). subst u. apply (B q t H). left; reflexivity. }
        set (s' := mkSt None (ntok s) [] rest (wake_all (procs s) (waiters s))).
        assert (K : forall q x, x <> PNew -> nth_error (procs s') q = Some x -> at_ s q x).
        { intros q x Nx H. unfold at_. cbn [s' procs] in H. eapply wake_keeps; eassumption. }
        assert (KT : forall q u, has_tok s' q u -> has_tok s q u) by (intros q u [H|H]; [left|right]; apply K; try discriminate; exact H).
        constructor; cbn [lock notifs ntok].
        -- intros q u H. exfalso. apply (NoF q u). apply K; [discriminate|exact H].
        -- intros q u H. exfalso. apply (NoF q u). apply K; [discriminate|exact H].
        -- intros q r u H1 H2. apply (C q r u); apply KT; assumption.
        -- intros q u H. apply (D q u). apply KT; exact H.
        -- intros u H. apply E. right; exact H.
        -- intros u H. discriminate.
      * (* somebody else's release: ignored *)
        constructor; cbn [lock notifs ntok procs].
        -- intros q u H. exact (A q u H).
        -- intros q u H Hc. apply (B q u H). right; exact Hc.
        -- exact C.
        -- exact D.
        -- intros u H. apply E. right; exact H.
        -- exact F.
    + (* nothing is held: nothing happens; nobody is fetching either *)
      constructor; cbn [lock notifs ntok procs].
      * intros q u H. specialize (A q u H). congruence.
      * intros q u H. specialize (A q u H). congruence.
      * exact C.
      * exact D.
      * intros u H. apply E. right; exact H.
      * intros u H. discriminate.
Qed.

Lemma inv_init n : Inv (init n).
Proof.
  assert (H : forall p x, nth_error (repeat PNew n) p = Some x -> x = PNew).
  { intros p x E. apply nth_error_In in E. apply repeat_spec in E. exact E. }
  constructor; unfold at_, has_tok; cbn [init procs lock notifs ntok].
  - intros p t E. apply H in E. discriminate.
  - intros p t E. apply H in E. discriminate.
  - intros p q t [E|E]; apply H in E; discriminate.
  - intros p t [E|E]; apply H in E; discriminate.
  - intros t [].
  - intros t E. discriminate.
Qed.

Theorem run_inv l : forall s, Inv s -> Inv (run true s l).
Proof. unfold run. induction l as [|a l IH]; intros s I; cbn [fold_left]; [exact I|]. apply IH. apply step_inv. exact I. Qed.

(* at most one request is fetching *)
Lemma in_flight_le_one s : Inv s -> in_flight s <= 1.
Proof.
  intros I. unfold in_flight.
  assert (U : forall p q t u, nth_error (procs s) p = Some (PFetching t) -> nth_error (procs s) q = Some (PFetching u) -> p = q).
  { intros p q t u H1 H2. assert (lock s = Some t) by (apply (inv_lock _ I p t H1)). assert (lock s = Some u) by (apply (inv_lock _ I q u H2)).
    assert (t = u) by congruence. subst u. apply (inv_uniq _ I p q t); left; assumption. }
  revert U. generalize (procs s). clear. intros l.
  induction l as [|x l IH]; intros U; [cbn; lia|].
  cbn [filter]. destruct x as [| |t| |]; try (apply IH; intros p q t u H1 H2; assert (S p = S q) by (apply (U (S p) (S q) t u); assumption); lia).
  cbn [length].
  assert (Z : filter (fun q => match q with PFetching _ => true | _ => false end) l = []).
  { destruct (filter (fun q => match q with PFetching _ => true | _ => false end) l) as [|y f] eqn:Ef; [reflexivity|].
    assert (In y (filter (fun q => match q with PFetching _ => true | _ => false end) l)) by (rewrite Ef; left; reflexivity).
    apply filter_In in H as [Hin Hy]. destruct y as [| |u| |]; try discriminate.
    apply In_nth_error in Hin as [k Hk]. assert (0 = S k) by (apply (U 0 (S k) t u); [reflexivity|exact Hk]). lia. }
  rewrite Z. cbn. lia.
Qed.

(* C12, the lock protocol: for any number of requests and EVERY interleaving of lookups, fetches,
   releases by holders (as many as they like, whenever they like), releases by non-holders and
   steps of readerNotifier, at most one origin fetch is in flight. *)
Theorem one_fetch_in_flight n l : in_flight (run true (init n) l) <= 1.
Proof. apply in_flight_le_one. apply run_inv. apply inv_init. Qed.

(* Without the owner check (the code before fix 8b57726) the same statement is false: a writer's
   second release drops the lock of the request that took the key after the first. *)
Theorem refuted_without_owner_check :
  exists n l, in_flight (run false (init n) l) = 2.
Proof.
  exists 3, [LLookup 0; LFetchDone 0; LRelease 0; LNotify; LLookup 1; LRelease 0; LNotify; LLookup 2].
  vm_compute. reflexivity.
Qed.
