(* C02: the outgoing URL keeps the rule's scheme and authority whatever the client sends,
   and carries the client's query verbatim. *)
From Coq Require Import List NArith ZArith Bool Lia Arith.
From Verif Require Import GoStr GoHeader Tables Route Forward SpecC01 SpecC02 C01Proofs.
Import ListNotations.
Open Scope N_scope.

Lemma index_byte_app_notin a b c :
  ~ In c a -> index_byte (a ++ b) c = match index_byte b c with Some i => Some (length a + i)%nat | None => None end.
Proof.
  induction a as [|x a IH]; simpl; intros H.
  - destruct (index_byte b c); reflexivity.
  - destruct (N.eqb_spec x c) as [E|E]; [exfalso; apply H; left; exact E|].
    rewrite IH by (intros Hin; apply H; right; exact Hin).
    destruct (index_byte b c); reflexivity.
Qed.

Lemma firstn_app_plus {X} (a b : list X) n : firstn (length a + n) (a ++ b) = a ++ firstn n b.
Proof. induction a; simpl; [reflexivity | f_equal; assumption]. Qed.

Lemma skipn_app_plus {X} (a b : list X) n : skipn (length a + n) (a ++ b) = skipn n b.
Proof. induction a; simpl; [reflexivity | assumption]. Qed.

Lemma cut_at_app_notin a b c :
  ~ In c a -> cut_at (a ++ b) c = (a ++ fst (cut_at b c), snd (cut_at b c)).
Proof.
  intros H. unfold cut_at. rewrite index_byte_app_notin by exact H.
  destruct (index_byte b c) as [i|]; cbn [fst snd].
  - rewrite firstn_app_plus. replace (S (length a + i)) with (length a + S i)%nat by lia.
    rewrite skipn_app_plus. reflexivity.
  - reflexivity.
Qed.

Lemma cut_at_fst_notin s c : ~ In c (fst (cut_at s c)).
Proof.
  unfold cut_at. destruct (index_byte s c) as [i|] eqn:E; simpl.
  - revert i E. induction s as [|x s IH]; intros i E; simpl in E; [discriminate|].
    destruct (N.eqb_spec x c) as [Ex|Ex].
    + inversion E; subst. simpl. tauto.
    + destruct (index_byte s c) as [j|] eqn:Ej; [|discriminate]. inversion E; subst. simpl.
      intros [H|H]; [contradiction | eapply IH; eauto].
  - revert E. induction s as [|x s IH]; simpl; intros E; [tauto|].
    destruct (N.eqb_spec x c) as [Ex|Ex]; [discriminate|].
    destruct (index_byte s c); [discriminate|]. intros [H|H]; [contradiction | apply IH; auto].
Qed.

Lemma has_prefix_head_ne x s y p : x <> y -> has_prefix (x :: s) (y :: p) = false.
Proof. intros H. simpl. destruct (N.eqb_spec x y); [contradiction | reflexivity]. Qed.

(* nothing is replaced inside a prefix that does not contain the first byte of `old` *)
Lemma replace_first_keeps_prefix a b y old new :
  ~ In y a -> replace_first (a ++ b) (y :: old) new = a ++ replace_first b (y :: old) new.
Proof.
  induction a as [|x a IH]; intros H; [reflexivity|].
  cbn [app replace_first]. rewrite has_prefix_head_ne by (intros E; apply H; left; exact E).
  rewrite IH by (intros Hin; apply H; right; exact Hin). reflexivity.
Qed.

Lemma index_app_notin a b y sub :
  ~ In y a -> has_prefix b (y :: sub) = true -> index (a ++ b) (y :: sub) = Some (length a).
Proof.
  induction a as [|x a IH]; intros H Hb.
  - simpl app. apply index_prefix_zero. exact Hb.
  - cbn [app index]. rewrite has_prefix_head_ne by (intros E; apply H; left; exact E).
    rewrite IH; [reflexivity | intros Hin; apply H; right; exact Hin | exact Hb].
Qed.

Lemma take_until_app a x b stop :
  (forall c, In c a -> mem_byte c stop = false) -> mem_byte x stop = true ->
  take_until (a ++ x :: b) stop = a.
Proof.
  induction a as [|y a IH]; intros Ha Hx; simpl.
  - rewrite Hx. reflexivity.
  - rewrite (Ha y (or_introl eq_refl)). f_equal. apply IH; [|exact Hx]. intros c Hc. apply Ha. right. exact Hc.
Qed.

Definition free_of (s : str) (bad : str) : Prop := forall c, In c s -> mem_byte c bad = false.

Lemma free_of_notin s bad c : free_of s bad -> mem_byte c bad = true -> ~ In c s.
Proof. intros F Hc Hin. rewrite (F c Hin) in Hc. discriminate. Qed.

Lemma free_of_app a b bad : free_of a bad -> free_of b bad -> free_of (a ++ b) bad.
Proof. intros Fa Fb c Hc. apply in_app_or in Hc as [H|H]; auto. Qed.

(* out_url never touches a prefix free of '?' and '#' that is followed by more text *)
Lemma out_url_keeps_prefix pre tail q :
  ~ In 35 pre -> ~ In 63 pre ->
  exists tail', out_url (pre ++ tail) q = pre ++ tail'.
Proof.
  intros H35 H63. unfold out_url.
  rewrite (cut_at_app_notin pre tail 35 H35). cbn [fst snd].
  destruct (cut_at (pre ++ fst (cut_at tail 35)) 63) as [base qpart] eqn:E.
  rewrite (cut_at_app_notin pre _ 63 H63) in E. inversion E; subst.
  eexists. rewrite <- app_assoc. reflexivity.
Qed.

(* The authority theorem. For a destination scheme://authority/rest whose scheme and
   authority contain no placeholder and no delimiter, every capture and every query give
   an outgoing URL with that same scheme and authority. *)
Lemma authority_fixed sch auth rest capture q :
  free_of sch [35; 36; 47; 58; 63] -> free_of auth [35; 36; 47; 63] ->
  exists t, split_abs (out_url (replace_first (sch ++ s_css ++ auth ++ 47 :: rest) s_dollar1 capture) q)
            = Some (sch, auth, 47 :: t).
Proof.
  intros Fs Fa.
  assert (Fc : free_of s_css [35; 36; 63]) by (intros c [H|[H|[H|[]]]]; subst; reflexivity).
  set (pre := sch ++ s_css ++ auth).
  assert (Fp : free_of pre [35; 36; 63]).
  { unfold pre. apply free_of_app; [|apply free_of_app; [exact Fc|]].
    - intros c Hc. specialize (Fs c Hc). unfold mem_byte in *. simpl in *.
      repeat (apply orb_false_iff in Fs as [? Fs]). repeat (apply orb_false_iff; split; auto).
    - intros c Hc. specialize (Fa c Hc). unfold mem_byte in *. simpl in *.
      repeat (apply orb_false_iff in Fa as [? Fa]). repeat (apply orb_false_iff; split; auto). }
  replace (sch ++ s_css ++ auth ++ 47 :: rest) with (pre ++ 47 :: rest)
    by (unfold pre; rewrite <- !app_assoc; reflexivity).
  unfold s_dollar1.
  rewrite replace_first_keeps_prefix by (apply (free_of_notin _ _ _ Fp); reflexivity).
  (* the byte after the prefix is '/', so the placeholder cannot start there either *)
  cbn [replace_first]. rewrite has_prefix_head_ne by discriminate.
  destruct (out_url_keeps_prefix (pre ++ [47]) (replace_first rest [36; 49] capture) q) as [t Ht].
  { intros Hin. apply in_app_or in Hin as [Hin|[Hin|[]]]; [|discriminate].
    revert Hin. apply (free_of_notin _ _ _ Fp). reflexivity. }
  { intros Hin. apply in_app_or in Hin as [Hin|[Hin|[]]]; [|discriminate].
    revert Hin. apply (free_of_notin _ _ _ Fp). reflexivity. }
  rewrite <- app_assoc in Ht. cbn [app] in Ht. rewrite Ht.
  exists t. unfold split_abs, pre. rewrite <- !app_assoc. unfold s_css.
  rewrite (index_app_notin sch ([58; 47; 47] ++ auth ++ [47] ++ t) 58 [47; 47]).
  2:{ apply (free_of_notin _ _ _ Fs). reflexivity. }
  2:{ reflexivity. }
  rewrite skipn_app_plus. cbn [skipn app].
  rewrite (take_until_app auth 47 t [47; 63; 35]).
  2:{ intros c Hc. specialize (Fa c Hc). unfold mem_byte in *. simpl in *.
      repeat (apply orb_false_iff in Fa as [? Fa]). repeat (apply orb_false_iff; split; auto). }
  2:{ reflexivity. }
  rewrite firstn_app_exact.
  replace (length auth) with (length auth + 0)%nat by lia. rewrite skipn_app_plus. reflexivity.
Qed.

(* The query string of the outgoing URL is the client's, byte for byte. *)
Lemma out_url_query_verbatim target q :
  q <> [] -> url_query (out_url target q) = Some q.
Proof.
  intros Hq. unfold url_query, out_url.
  destruct (cut_at target 35) as [nofrag fr]. destruct (cut_at nofrag 63) as [base qpart] eqn:E.
  assert (Hb : ~ In 63 base) by (pose proof (cut_at_fst_notin nofrag 63) as H; rewrite E in H; exact H).
  assert (Hn : nonempty q = true) by (destruct q; [contradiction | reflexivity]).
  rewrite Hn, orb_true_r.
  rewrite (cut_at_app_notin base (63 :: q) 63 Hb). reflexivity.
Qed.

(* Without a query the outgoing URL has none either, unless the target itself ends in a bare '?'. *)
Lemma out_url_no_query target :
  (forall t, snd (cut_at (fst (cut_at target 35)) 63) <> Some t \/ t <> []) ->
  url_query (out_url target []) = None.
Proof.
  intros H. unfold url_query, out_url.
  destruct (cut_at target 35) as [nofrag fr]. cbn [fst] in H.
  destruct (cut_at nofrag 63) as [base qpart] eqn:E. cbn [snd] in H.
  assert (Hb : ~ In 63 base) by (pose proof (cut_at_fst_notin nofrag 63) as H'; rewrite E in H'; exact H').
  assert (Hf : match qpart with Some [] => true | _ => false end = false).
  { destruct qpart as [[|x t]|]; try reflexivity. destruct (H []) as [H1|H1]; [exfalso; apply H1; reflexivity | contradiction]. }
  rewrite Hf. simpl. rewrite app_nil_r. unfold cut_at. rewrite (index_byte_notin _ _ Hb). reflexivity.
Qed.

(* The capture is exactly the request-target after the wildcard prefix. *)
Lemma capture_is_suffix r scheme host uri pre t :
  r_path r = pre ++ [42] -> ~ In 42 pre ->
  attempt_match r scheme host uri = Some t ->
  (uri = [47] /\ (r_path r = [42] \/ r_path r = [47; 42]) /\ t = replace_first (r_dest r) s_dollar1 []) \/
  (exists cap, uri = pre ++ cap /\ cap <> [] /\ t = replace_first (r_dest r) s_dollar1 cap).
Proof.
  intros Hp V. unfold attempt_match.
  destruct (_ || _); [discriminate|].
  rewrite Hp, (wc_index_valid_some _ V), firstn_app_exact. rewrite <- Hp.
  destruct (str_eqb uri s_slash && (str_eqb (r_path r) s_star || str_eqb (r_path r) s_slashstar)) eqn:R.
  - apply andb_true_iff in R as [R1 R2]. apply str_eqb_eq in R1. apply orb_true_iff in R2.
    intros H; inversion H; subst. left. split; [reflexivity|]. split; [|reflexivity].
    destruct R2 as [R2|R2]; apply str_eqb_eq in R2; [left|right]; exact R2.
  - destruct (Nat.leb_spec (length uri) (length pre)) as [Hl|Hl]; [discriminate|].
    destruct (has_prefix uri pre) eqn:P; [|discriminate].
    apply has_prefix_spec in P as [cap Hc]. intros H; inversion H; subst. right.
    exists cap. split; [reflexivity|]. split.
    + intros ->. rewrite app_nil_r in Hl. lia.
    + replace (length pre) with (length pre + 0)%nat by lia. rewrite skipn_app_plus. reflexivity.
Qed.

(* no placeholder: the destination is used unchanged *)
Lemma replace_first_absent s old new : index s old = None -> replace_first s old new = s.
Proof. intros H. rewrite replace_first_index, H. reflexivity. Qed.

(* take_until t "?#" is the part before the first '?' of the part before the first '#' *)
Lemma take_until_cut t : forall nofrag fr base qpart,
  cut_at t 35 = (nofrag, fr) -> cut_at nofrag 63 = (base, qpart) -> base = take_until t [63; 35].
Proof.
  induction t as [|x t IH]; intros nofrag fr base qpart E35 E63.
  - inversion E35; subst. inversion E63; subst. reflexivity.
  - unfold cut_at in E35. simpl in E35. simpl.
    destruct (N.eqb_spec x 35) as [Ex|Ex].
    + subst x. inversion E35; subst. inversion E63; subst. reflexivity.
    + destruct (index_byte t 35) as [i|] eqn:Ei.
      * inversion E35; subst. clear E35. unfold cut_at in E63. simpl in E63.
        destruct (N.eqb_spec x 63) as [Eq|Eq].
        -- subst x. inversion E63; subst. reflexivity.
        -- assert (M : mem_byte x [63; 35] = false).
           { unfold mem_byte. simpl. destruct (N.eqb_spec x 63); [contradiction|]. destruct (N.eqb_spec x 35); [contradiction|]. reflexivity. }
           cbn [orb].
           destruct (index_byte (firstn i t) 63) as [j|] eqn:Ej.
           ++ inversion E63; subst. f_equal.
              eapply (IH (firstn i t) (Some (skipn (S i) t)) (firstn j (firstn i t)) (Some (skipn (S j) (firstn i t)))).
              ** unfold cut_at. rewrite Ei. reflexivity.
              ** unfold cut_at. rewrite Ej. reflexivity.
           ++ inversion E63; subst. f_equal.
              eapply (IH (firstn i t) (Some (skipn (S i) t)) (firstn i t) None).
              ** unfold cut_at. rewrite Ei. reflexivity.
              ** unfold cut_at. rewrite Ej. reflexivity.
      * inversion E35; subst. clear E35. unfold cut_at in E63. simpl in E63.
        destruct (N.eqb_spec x 63) as [Eq|Eq].
        -- subst x. inversion E63; subst. reflexivity.
        -- assert (M : mem_byte x [63; 35] = false).
           { unfold mem_byte. simpl. destruct (N.eqb_spec x 63); [contradiction|]. destruct (N.eqb_spec x 35); [contradiction|]. reflexivity. }
           cbn [orb].
           destruct (index_byte t 63) as [j|] eqn:Ej.
           ++ inversion E63; subst. f_equal.
              eapply (IH t None (firstn j t) (Some (skipn (S j) t))).
              ** unfold cut_at. rewrite Ei. reflexivity.
              ** unfold cut_at. rewrite Ej. reflexivity.
           ++ inversion E63; subst. f_equal.
              eapply (IH t None t None).
              ** unfold cut_at. rewrite Ei. reflexivity.
              ** unfold cut_at. rewrite Ej. reflexivity.
Qed.

Lemma out_url_alt t q :
  out_url t q = before_any t [63; 35] ++
    (if (match cut_at (fst (cut_at t 35)) 63 with (_, Some []) => true | _ => false end) || nonempty q then 63 :: q else []).
Proof.
  unfold out_url, before_any.
  destruct (cut_at t 35) as [nofrag fr] eqn:E35. cbn [fst].
  destruct (cut_at nofrag 63) as [base qpart] eqn:E63.
  rewrite (take_until_cut t nofrag fr base qpart E35 E63). reflexivity.
Qed.

(* the model's outgoing URL is the property's expected URL *)
Lemma expected_url_is_model r scheme host uri t q :
  rule_valid r -> attempt_match r scheme host uri = Some t ->
  out_url t q = expected_url (r_dest r) (r_path r) uri q.
Proof.
  intros V Ha. rewrite out_url_alt. unfold expected_url, spec_capture.
  revert Ha. unfold attempt_match. destruct (_ || _); [discriminate|].
  destruct V as [V|[pre [Hp V]]].
  - rewrite (wildcard_prefix_notin _ V), (wc_index_valid_none _ V).
    destruct (str_eqb (r_path r) uri); [|discriminate]. intros H; inversion H; reflexivity.
  - rewrite Hp, wildcard_prefix_app, (wc_index_valid_some _ V). rewrite <- Hp.
    unfold s_slash, s_star, s_slashstar.
    destruct (str_eqb uri [47] && (str_eqb (r_path r) [42] || str_eqb (r_path r) [47; 42])).
    + intros H; inversion H; reflexivity.
    + destruct (Nat.leb (length uri) (length pre)); [discriminate|].
      destruct (has_prefix uri _); [|discriminate]. intros H; inversion H; reflexivity.
Qed.
