(* C06: every cell of the recompression decision keeps the decoded content and delivers an
   encoding the client listed (or the origin's own, or none) - for all header strings. *)
From Coq Require Import List NArith ZArith Bool Lia.
From Verif Require Import GoStr Recompress SpecC06.
Import ListNotations.

Lemma contains_self_br : forall ae, accepts_of ae = ABrotli -> contains ae s_br = true.
Proof.
  intros ae. unfold accepts_of. destruct (contains ae s_semicolon); [discriminate|].
  destruct (contains ae s_br); [reflexivity|]. destruct (contains ae s_gzip); discriminate.
Qed.

Lemma contains_self_gzip : forall ae, accepts_of ae = AGzip -> contains ae s_gzip = true.
Proof.
  intros ae. unfold accepts_of. destruct (contains ae s_semicolon); [discriminate|].
  destruct (contains ae s_br); [discriminate|]. destruct (contains ae s_gzip); [reflexivity | discriminate].
Qed.

Lemma fallback_ok ae ce ct def :
  (def = CNone \/ contains ae (enc_name def) = true) ->
  decision_ok ae ce (fst (fallback ce ct def)) (snd (fallback ce ct def)) = true.
Proof.
  intros Hd. unfold fallback, decision_ok, content_preserved, encoding_allowed, delivered_encoding, is_identity.
  destruct ((str_eqb ce [] || str_eqb ce s_identity) && (str_eqb ct s_app_json || has_prefix ct s_text_slash)) eqn:E; cbn [fst snd].
  - apply andb_true_iff in E as [E _].
    destruct def; cbn [enc_name].
    + rewrite str_eqb_refl. reflexivity.
    + unfold is_identity. rewrite E. destruct Hd as [Hd|Hd]; [discriminate|]. cbn [enc_name] in Hd. rewrite Hd.
      rewrite !orb_true_r. reflexivity.
    + unfold is_identity. rewrite E. destruct Hd as [Hd|Hd]; [discriminate|]. cbn [enc_name] in Hd. rewrite Hd.
      rewrite !orb_true_r. reflexivity.
  - rewrite str_eqb_refl. reflexivity.
Qed.

Lemma decision_always_ok ae ce ct :
  decision_ok ae ce (fst (get_recompression ae ce ct)) (snd (get_recompression ae ce ct)) = true.
Proof.
  unfold get_recompression. destruct (accepts_of ae) eqn:A.
  - apply fallback_ok. left. reflexivity.
  - destruct (str_eqb ce s_gzip) eqn:E1; cbn [fst snd].
    + unfold decision_ok, content_preserved, encoding_allowed, delivered_encoding. rewrite str_eqb_refl. reflexivity.
    + destruct (str_eqb ce s_br) eqn:E2; cbn [fst snd].
      * unfold decision_ok, content_preserved, encoding_allowed, delivered_encoding. rewrite str_eqb_refl. reflexivity.
      * apply fallback_ok. right. apply contains_self_gzip. exact A.
  - destruct (str_eqb ce s_br) eqn:E1; cbn [fst snd].
    + unfold decision_ok, content_preserved, encoding_allowed, delivered_encoding. rewrite str_eqb_refl. reflexivity.
    + destruct (str_eqb ce s_gzip) eqn:E2; cbn [fst snd].
      * unfold decision_ok, content_preserved, encoding_allowed, delivered_encoding. cbn [enc_name].
        rewrite E2. rewrite (contains_self_br ae A). rewrite !orb_true_r. reflexivity.
      * apply fallback_ok. right. apply contains_self_br. exact A.
  - destruct (str_eqb ce s_gzip) eqn:E1; cbn [fst snd].
    + unfold decision_ok, content_preserved, encoding_allowed, delivered_encoding, is_identity. cbn [enc_name].
      rewrite E1. simpl. destruct ce; reflexivity.
    + unfold decision_ok, content_preserved, encoding_allowed, delivered_encoding. rewrite str_eqb_refl. reflexivity.
Qed.

(* abstract codecs: the only assumption is that decoding undoes encoding *)
Section Codecs.
  Variable enc : ctype -> str -> str.
  Variable dec : ctype -> str -> option str.
  Hypothesis dec_enc : forall c x, dec c (enc c x) = Some x.
  Hypothesis dec_none : forall x, dec CNone x = Some x.

  Definition codec_of (ce : str) : ctype :=
    if str_eqb ce s_gzip then CGzip else if str_eqb ce s_br then CBrotli else CNone.

  (* what requestHandler does to the body *)
  Definition transform (ad rm : ctype) (body : str) : option str :=
    match (match rm with CNone => Some body | c => dec c body end) with
    | Some b => Some (match ad with CNone => b | c => enc c b end)
    | None => None
    end.

  (* If the origin body is content encoded by ce's codec, then whenever the decision
     satisfies content_preserved, decoding the delivered body by the delivered encoding
     yields that same content. *)
  Lemma decoded_content_equal ce ad rm content :
    content_preserved ce ad rm = true ->
    (is_identity ce = true \/ str_eqb ce s_gzip = true \/ str_eqb ce s_br = true) ->
    match transform ad rm (enc (codec_of ce) content) with
    | Some delivered => dec (codec_of (delivered_encoding ce ad rm)) delivered = Some content
    | None => False
    end.
  Proof.
    intros Hp Hce. unfold transform, content_preserved, delivered_encoding in *.
    assert (Hid : is_identity ce = true -> codec_of ce = CNone).
    { unfold is_identity, codec_of. intros H. apply orb_true_iff in H as [H|H]; apply str_eqb_eq in H; subst; reflexivity. }
    assert (Cg : codec_of s_gzip = CGzip) by reflexivity.
    assert (Cb : codec_of s_br = CBrotli) by reflexivity.
    assert (Cn : codec_of [] = CNone) by reflexivity.
    assert (En : forall x, enc CNone x = x).
    { intros x. pose proof (dec_enc CNone x) as H1. rewrite dec_none in H1. inversion H1 as [H2]. rewrite H2. exact H2. }
    destruct rm.
    - destruct ad; cbn [enc_name].
      + rewrite dec_enc. reflexivity.
      + rewrite (Hid Hp), Cg, En. apply dec_enc.
      + rewrite (Hid Hp), Cb, En. apply dec_enc.
    - apply str_eqb_eq in Hp. subst ce. cbn [enc_name]. rewrite Cg, dec_enc.
      destruct ad; cbn [enc_name]; rewrite ?Cn, ?Cg, ?Cb; [apply dec_none | apply dec_enc | apply dec_enc].
    - apply str_eqb_eq in Hp. subst ce. cbn [enc_name]. rewrite Cb, dec_enc.
      destruct ad; cbn [enc_name]; rewrite ?Cn, ?Cg, ?Cb; [apply dec_none | apply dec_enc | apply dec_enc].
  Qed.
End Codecs.
