(* C05: what the client receives of a relayed origin response, and rrrouter's own answers. *)
From Coq Require Import String.
From Coq Require Import List NArith ZArith Bool Lia.
From Verif Require Import GoStr GoNum GoHeader Tables Route Forward Serve Meta Fresh Key Cache HeaderFacts.
Import ListNotations.
Open Scope Z_scope.

(* The body reaches the client whole, and the response is not cut, whenever the declared
   length (if any) is the real one. *)
Lemma wire_body_complete method status h body :
  str_eqb method s_HEADm = false -> status <> 304 -> status <> 204 ->
  (parse_int (hget h s_content_length) = None \/ parse_int (hget h s_content_length) = Some (Z.of_nat (length body))) ->
  wire_body method status h body = (body, false).
Proof.
  intros Hm H1 H2 Hcl. unfold wire_body. rewrite Hm.
  destruct (Z.eqb_spec status 304) as [E|_]; [contradiction|].
  destruct (Z.eqb_spec status 204) as [E|_]; [contradiction|]. cbn [orb].
  destruct Hcl as [Hcl|Hcl]; rewrite Hcl; [reflexivity|]. rewrite Z.eqb_refl. reflexivity.
Qed.

(* clearAndCopyHeaders: a name rrrouter does not set keeps the origin's value list *)
Lemma inner_fold_other (k : str) (name : str) (vs : list str) (h : hdrs) :
  canon_key k <> canon_key name ->
  hvalues (fold_left (fun h v => hset h name v) vs h) k = hvalues h k.
Proof.
  intros Hne. revert h. induction vs as [|v vs IH]; intros h; simpl; [reflexivity|].
  rewrite IH. apply hvalues_hset_other. exact Hne.
Qed.

Lemma clear_and_copy_frame origin always k :
  (forall kv, In kv always -> canon_key k <> canon_key (fst kv)) ->
  hvalues (clear_and_copy origin always) k = hvalues origin k.
Proof.
  unfold clear_and_copy. revert origin. induction always as [|kv always IH]; intros origin H; simpl; [reflexivity|].
  rewrite IH by (intros kv' Hin; apply H; right; exact Hin).
  apply inner_fold_other. apply H. left. reflexivity.
Qed.

(* ... and a name rrrouter sets carries exactly the last value set *)
Lemma inner_fold_same name vs v h :
  hvalues (fold_left (fun h v => hset h name v) (vs ++ [v]) h) name = [v].
Proof. rewrite fold_left_app. simpl. apply hvalues_hset_same. Qed.

(* rrrouter's own answers are error statuses in one of two well-formed shapes *)
Lemma write_error_wellformed e :
  e <> EPanic -> e <> EOutOfFuel ->
  400 <= cl_status (write_error e) /\ (cl_kind (write_error e) = KErrorJson \/ cl_kind (write_error e) = KBare)
  /\ cl_aborted (write_error e) = false.
Proof. intros H1 H2. destruct e; simpl; try contradiction; repeat split; auto; lia. Qed.

(* relaying: status and (token-named) headers are the origin's plus the always-include set,
   the body is whole *)
Lemma mk_client_relays method status h body :
  str_eqb method s_HEADm = false -> status <> 304 -> status <> 204 ->
  (parse_int (hget h s_content_length) = None \/ parse_int (hget h s_content_length) = Some (Z.of_nat (length body))) ->
  mk_client method status h body = mkClient KOrigin status (wire_hdrs h) body false.
Proof. intros. unfold mk_client. rewrite wire_body_complete by assumption. reflexivity. Qed.
