(* C14: a crash at any point of a fill, a revalidation, a key change, a refill after eviction or an
   access-log rewrite leaves a directory from which storage.Get serves only complete, correctly
   labelled versions, and every name can be filled again. For all bodies and all chunkings. *)
From Coq Require Import String.
From Coq Require Import List NArith ZArith Bool Lia.
From Verif Require Import GoStr GoNum GoHeader Sx Tables Crash.
Import ListNotations.
Open Scope Z_scope.

Lemma slot_eqb_eq a b : slot_eqb a b = true <-> a = b.
Proof. destruct a, b; cbn; split; intros H; try reflexivity; try discriminate. Qed.
Lemma slot_eqb_refl a : slot_eqb a a = true.
Proof. destruct a; reflexivity. Qed.
Lemma slot_eqb_neq a b : a <> b -> slot_eqb a b = false.
Proof. intros H. destruct (slot_eqb a b) eqn:E; [apply slot_eqb_eq in E; contradiction|reflexivity]. Qed.

Lemma dget_ddel_same d s : dget (ddel d s) s = None.
Proof.
  unfold ddel. induction d as [|[s' f] d IH]; cbn [filter dget fst]; [reflexivity|].
  destruct (slot_eqb s' s) eqn:E; cbn [negb dget]; [exact IH|]. rewrite E. exact IH.
Qed.
Lemma dget_ddel_other d s t : t <> s -> dget (ddel d s) t = dget d t.
Proof.
  intros N. unfold ddel. induction d as [|[s' f] d IH]; cbn [filter dget fst]; [reflexivity|].
  destruct (slot_eqb s' s) eqn:E; cbn [negb dget].
  - apply slot_eqb_eq in E. subst s'. rewrite (slot_eqb_neq s t) by congruence. exact IH.
  - destruct (slot_eqb s' t); [reflexivity|exact IH].
Qed.
Lemma dget_dset_same d s f : dget (dset d s f) s = Some f.
Proof. unfold dset. cbn [dget]. rewrite slot_eqb_refl. reflexivity. Qed.
Lemma dget_dset_other d s f t : t <> s -> dget (dset d s f) t = dget d t.
Proof. intros N. unfold dset. cbn [dget]. rewrite (slot_eqb_neq s t) by congruence. apply dget_ddel_other. exact N. Qed.

(* which names an effect can change *)
Definition touches (e : effect) (t : slot) : bool :=
  match e with
  | ECreate s | EWrite s _ | ESetX s _ _ | ERemove s => slot_eqb s t
  | EOpen _ => false
  | ERename a b => slot_eqb a t || slot_eqb b t
  end.

Lemma apply_frame d e t : touches e t = false -> dget (apply d e) t = dget d t.
Proof.
  destruct e as [s|s|s b|s v n|a b|s]; cbn [touches apply]; intros H.
  - apply dget_dset_other. intros ->. rewrite slot_eqb_refl in H. discriminate.
  - reflexivity.
  - destruct (dget d s); [|reflexivity]. apply dget_dset_other. intros ->. rewrite slot_eqb_refl in H. discriminate.
  - destruct (dget d s); [|reflexivity]. apply dget_dset_other. intros ->. rewrite slot_eqb_refl in H. discriminate.
  - apply orb_false_iff in H as [H1 H2]. destruct (dget d a); [|reflexivity].
    rewrite dget_dset_other by (intros ->; rewrite slot_eqb_refl in H2; discriminate).
    apply dget_ddel_other. intros ->. rewrite slot_eqb_refl in H1. discriminate.
  - apply dget_ddel_other. intros ->. rewrite slot_eqb_refl in H. discriminate.
Qed.

Lemma run_frame es : forall d t, forallb (fun e => negb (touches e t)) es = true -> dget (run_effects d es) t = dget d t.
Proof.
  unfold run_effects. induction es as [|e es IH]; intros d t H; cbn [fold_left]; [reflexivity|].
  cbn [forallb] in H. apply andb_true_iff in H as [H1 H2]. rewrite IH by exact H2.
  apply apply_frame. apply negb_true_iff. exact H1.
Qed.

Lemma run_app d a b : run_effects d (a ++ b) = run_effects (run_effects d a) b.
Proof. unfold run_effects. apply fold_left_app. Qed.

Lemma run_single d e : run_effects d [e] = apply d e.
Proof. reflexivity. Qed.
Lemma run_nil d : run_effects d [] = d.
Proof. reflexivity. Qed.
Lemma run_cons d e es : run_effects d (e :: es) = run_effects (apply d e) es.
Proof. reflexivity. Qed.
Lemma apply_setx d s f v n : dget d s = Some f -> dget (apply d (ESetX s v n)) s = Some (mkFile (f_data f) (Some (v, n))).
Proof. intros H. cbn [apply]. rewrite H. apply dget_dset_same. Qed.
Lemma apply_create d s : dget (apply d (ECreate s)) s = Some (mkFile [] None).
Proof. apply dget_dset_same. Qed.

(* ---------- a fill, cut anywhere ---------- *)
Lemma writes_prefix s chunks : forall j d data m,
  dget d s = Some (mkFile data m) ->
  dget (run_effects d (firstn j (map (EWrite s) chunks))) s = Some (mkFile (data ++ concat (firstn j chunks)) m).
Proof.
  induction chunks as [|c chunks IH]; intros j d data m H.
  - destruct j; cbn [map firstn run_effects fold_left concat]; rewrite app_nil_r; exact H.
  - destruct j as [|j]; [cbn [firstn run_effects fold_left concat]; rewrite app_nil_r; exact H|].
    cbn [map firstn concat]. unfold run_effects. cbn [fold_left]. fold (run_effects (apply d (EWrite s c)) (firstn j (map (EWrite s) chunks))).
    rewrite (IH j (apply d (EWrite s c)) (data ++ c) m).
    + rewrite <- app_assoc. reflexivity.
    + cbn [apply]. rewrite H. cbn [f_data f_meta]. apply dget_dset_same.
Qed.

Lemma firstn_all_map {A B} (f : A -> B) l : firstn (length l) (map f l) = map f l.
Proof. rewrite <- (map_length f l). apply firstn_all. Qed.

Inductive fill_stage (s : slot) (chunks : list str) (v : version) (d0 d : disk) : Prop :=
| FsNothing : dget d s = dget d0 s -> fill_stage s chunks v d0 d
| FsPartial data : dget d s = Some (mkFile data None) -> fill_stage s chunks v d0 d
| FsDone : dget d s = Some (mkFile (concat chunks) (Some (v, slen (concat chunks)))) -> fill_stage s chunks v d0 d.

Lemma fill_prefix s chunks v d0 k :
  fill_stage s chunks v d0 (run_effects d0 (firstn k (fill_effects s chunks v))).
Proof.
  unfold fill_effects. destruct k as [|k]; [apply FsNothing; reflexivity|].
  cbn [firstn]. rewrite run_cons.
  pose proof (writes_prefix s chunks k (apply d0 (ECreate s)) [] None (apply_create d0 s)) as W. cbn [app] in W.
  rewrite firstn_app, run_app, map_length.
  destruct (Nat.leb k (length chunks)) eqn:Ek.
  - apply Nat.leb_le in Ek. replace (k - length chunks)%nat with O by lia. cbn [firstn]. rewrite run_nil.
    eapply FsPartial. exact W.
  - apply Nat.leb_gt in Ek.
    assert (A1 : firstn k chunks = chunks) by (apply firstn_all2; lia).
    assert (A2 : firstn k (map (EWrite s) chunks) = map (EWrite s) chunks) by (apply firstn_all2; rewrite map_length; lia).
    rewrite A1, A2 in W. rewrite A2.
    destruct (k - length chunks)%nat as [|m] eqn:Em; [lia|]. cbn [firstn]. rewrite firstn_nil, run_single.
    apply FsDone. rewrite (apply_setx _ _ _ _ _ W). reflexivity.
Qed.

Lemma fill_whole s chunks v d0 :
  dget (run_effects d0 (fill_effects s chunks v)) s = Some (mkFile (concat chunks) (Some (v, slen (concat chunks)))).
Proof.
  unfold fill_effects. rewrite run_cons, run_app, run_single.
  pose proof (writes_prefix s chunks (length chunks) (apply d0 (ECreate s)) [] None (apply_create d0 s)) as W.
  rewrite firstn_all_map, firstn_all in W. cbn [app] in W.
  rewrite (apply_setx _ _ _ _ _ W). reflexivity.
Qed.

Lemma in_firstn {A} (x : A) k l : In x (firstn k l) -> In x l.
Proof.
  revert l. induction k as [|k IH]; intros l H; [destruct H|]. destruct l as [|y l]; [destruct H|].
  cbn [firstn] in H. destruct H as [->|H]; [left; reflexivity|right; apply IH; exact H].
Qed.

Lemma fill_frame s chunks v k t : t <> s -> forall d, dget (run_effects d (firstn k (fill_effects s chunks v))) t = dget d t.
Proof.
  intros N d. apply run_frame. apply forallb_forall. intros e He. apply negb_true_iff.
  apply in_firstn in He. unfold fill_effects in He. destruct He as [<-|He].
  - cbn [touches]. apply slot_eqb_neq. congruence.
  - apply in_app_or in He as [He|[<-|[]]].
    + apply in_map_iff in He as [c [<- _]]. cbn [touches]. apply slot_eqb_neq. congruence.
    + cbn [touches]. apply slot_eqb_neq. congruence.
Qed.

(* ---------- what Get makes of a name ---------- *)
Definition served_ok (allowed : list version) (g : got) : Prop :=
  match g with
  | Miss => True
  | Hit v data => In v allowed /\ data = v_body v
  end.

(* after Get the name is served, or a new fill is granted its writer (GetWriter refuses only a name that holds an
   entry; a file an interrupted fill left behind is cleared away by it) *)
Definition refillable (d : disk) (s : slot) : Prop :=
  match fst (recover d s) with
  | Hit _ _ => True
  | Miss => writer_granted (snd (recover d s)) s = true
  end.

Lemma recover_absent d s : dget d s = None -> fst (recover d s) = Miss /\ refillable d s.
Proof. intros H. unfold refillable, recover, writer_granted. rewrite H. cbn [fst snd]. rewrite H. split; reflexivity. Qed.

Lemma recover_partial d s data : dget d s = Some (mkFile data None) -> fst (recover d s) = Miss /\ refillable d s.
Proof.
  intros H. unfold refillable, recover, writer_granted. rewrite H. cbn [f_meta fst snd]. rewrite H. cbn [f_meta]. split; reflexivity.
Qed.

Lemma recover_complete d s v : dget d s = Some (complete_entry v) -> fst (recover d s) = Hit v (v_body v) /\ refillable d s.
Proof.
  intros H. unfold refillable, recover, complete_entry in *. rewrite H. cbn [f_meta f_data].
  destruct (v_has_cl v); rewrite Z.eqb_refl; cbn [fst]; split; try reflexivity; exact Logic.I.
Qed.

Lemma complete_new chunks cl : mkFile (concat chunks) (Some (new_version chunks cl, slen (concat chunks))) = complete_entry (new_version chunks cl).
Proof. reflexivity. Qed.

Definition new_of (o : op) (old : version) : version :=
  match o with
  | OFill ch cl | ORevalBody ch cl | OChangeKey ch cl | ORefill ch cl => new_version ch cl
  | OReval304 v => v
  | OAtimesRewrite _ _ => old
  end.

Definition in_scope_op (o : op) (old : version) : Prop :=
  match o with OReval304 v => v = old | _ => True end.

Ltac finish_with H :=
  first [ destruct (recover_absent _ _ H) as [-> ?] | destruct (recover_partial _ _ _ H) as [-> ?]
        | destruct (recover_complete _ _ _ H) as [-> ?] ].

Theorem crash_safe o old k s :
  in_scope_op o old -> (s = SEntry \/ s = SNew) ->
  let d := run_effects (pre_state o old) (firstn k (effects o)) in
  served_ok [old; new_of o old] (fst (recover d s)) /\ refillable d s.
Proof.
  intros Sc Hs d. subst d.
  assert (Done : forall d v, dget d s = Some (complete_entry v) -> In v [old; new_of o old] ->
                             served_ok [old; new_of o old] (fst (recover d s)) /\ refillable d s).
  { intros d v H Hin. destruct (recover_complete d s v H) as [E R]. rewrite E. split; [split; [exact Hin|reflexivity]|exact R]. }
  assert (Part : forall d data, dget d s = Some (mkFile data None) -> served_ok [old; new_of o old] (fst (recover d s)) /\ refillable d s).
  { intros d data H. destruct (recover_partial d s data H) as [E R]. rewrite E. split; [exact Logic.I|exact R]. }
  assert (Abs : forall d, dget d s = None -> served_ok [old; new_of o old] (fst (recover d s)) /\ refillable d s).
  { intros d H. destruct (recover_absent d s H) as [E R]. rewrite E. split; [exact Logic.I|exact R]. }
  destruct o as [ch cl|ch cl|v|ch cl|ch cl|lines kept]; cbn [effects pre_state new_of in_scope_op] in *.
  - (* fill *)
    destruct Hs as [->| ->].
    + destruct (fill_prefix SEntry ch (new_version ch cl) [] k) as [H|data H|H].
      * apply Abs. rewrite H. reflexivity.
      * eapply Part; exact H.
      * rewrite complete_new in H. eapply Done; [exact H|right; left; reflexivity].
    + apply Abs. rewrite fill_frame by discriminate. reflexivity.
  - (* a revalidation that stores a new body *)
    rewrite firstn_app, run_app.
    set (d1 := run_effects [(SEntry, complete_entry old)] (firstn k (fill_effects STmp ch (new_version ch cl)))).
    assert (E1 : dget d1 SEntry = Some (complete_entry old)) by (unfold d1; rewrite fill_frame by discriminate; reflexivity).
    assert (N1 : dget d1 SNew = None) by (unfold d1; rewrite fill_frame by discriminate; reflexivity).
    destruct (firstn (k - length (fill_effects STmp ch (new_version ch cl))) [ERename STmp SEntry]) as [|e l] eqn:Ef.
    + rewrite run_nil. destruct Hs as [->| ->]; [eapply Done; [exact E1|left; reflexivity]|apply Abs; exact N1].
    + destruct (k - length (fill_effects STmp ch (new_version ch cl)))%nat as [|m] eqn:Em; [discriminate|].
      cbn [firstn] in Ef. rewrite firstn_nil in Ef. inversion Ef; subst e l.
      (* the fill is whole *)
      assert (Hk : (length (fill_effects STmp ch (new_version ch cl)) <= k)%nat) by lia.
      unfold d1. rewrite (firstn_all2 (n := k)) by exact Hk.
      set (d2 := run_effects [(SEntry, complete_entry old)] (fill_effects STmp ch (new_version ch cl))) in *.
      assert (T : dget d2 STmp = Some (complete_entry (new_version ch cl))) by (unfold d2; rewrite fill_whole; reflexivity).
      rewrite run_single.
      assert (R : apply d2 (ERename STmp SEntry) = dset (ddel d2 STmp) SEntry (complete_entry (new_version ch cl))) by (cbn [apply]; rewrite T; reflexivity).
      rewrite R.
      destruct Hs as [->| ->].
      * eapply Done; [apply dget_dset_same|right; left; reflexivity].
      * apply Abs. rewrite dget_dset_other by discriminate. rewrite dget_ddel_other by discriminate.
        unfold d2. rewrite <- (firstn_all (fill_effects STmp ch (new_version ch cl))). rewrite fill_frame by discriminate. reflexivity.
  - (* a 304: the metadata is rewritten in place *)
    subst v. destruct k as [|k]; cbn [firstn].
    + unfold run_effects. cbn [fold_left]. destruct Hs as [->| ->]; [eapply Done; [reflexivity|left; reflexivity]|apply Abs; reflexivity].
    + rewrite firstn_nil. unfold run_effects. cbn [fold_left apply dget slot_eqb complete_entry f_data].
      destruct Hs as [->| ->]; [eapply Done; [apply dget_dset_same|left; reflexivity]|apply Abs; reflexivity].
  - (* the key was changed before the head was written: the fill goes to the new name *)
    destruct Hs as [->| ->].
    + apply Abs. rewrite fill_frame by discriminate. reflexivity.
    + destruct (fill_prefix SNew ch (new_version ch cl) [] k) as [H|data H|H].
      * apply Abs. rewrite H. reflexivity.
      * eapply Part; exact H.
      * rewrite complete_new in H. eapply Done; [exact H|right; left; reflexivity].
  - (* evicted, then filled again *)
    destruct k as [|k]; cbn [firstn].
    + unfold run_effects. cbn [fold_left]. destruct Hs as [->| ->]; [eapply Done; [reflexivity|left; reflexivity]|apply Abs; reflexivity].
    + unfold run_effects. cbn [fold_left]. fold (run_effects (apply [(SEntry, complete_entry old)] (ERemove SEntry)) (firstn k (fill_effects SEntry ch (new_version ch cl)))).
      set (d0 := apply [(SEntry, complete_entry old)] (ERemove SEntry)).
      destruct Hs as [->| ->].
      * destruct (fill_prefix SEntry ch (new_version ch cl) d0 k) as [H|data H|H].
        -- apply Abs. rewrite H. reflexivity.
        -- eapply Part; exact H.
        -- rewrite complete_new in H. eapply Done; [exact H|right; left; reflexivity].
      * apply Abs. rewrite fill_frame by discriminate. reflexivity.
  - (* the access log is rewritten: the entries are not touched *)
    assert (F : forall t, t = SEntry \/ t = SNew ->
                dget (run_effects [(SEntry, complete_entry old); (SAtimes, mkFile [] None)]
                        (firstn k [EWrite SAtimes lines; ECreate STrunc; EWrite STrunc kept; ERemove SAtimes; ERename STrunc SAtimes])) t
                = dget [(SEntry, complete_entry old); (SAtimes, mkFile [] None)] t).
    { intros t Ht. apply run_frame. apply forallb_forall. intros e He. apply in_firstn in He.
      destruct Ht as [->| ->]; repeat (destruct He as [<-|He]; [reflexivity|]); destruct He. }
    destruct Hs as [->| ->].
    + eapply Done; [rewrite F by (left; reflexivity); reflexivity|left; reflexivity].
    + apply Abs. rewrite F by (right; reflexivity). reflexivity.
Qed.
