(* C10: a bare no-store / no-cache / private member anywhere in any Cache-Control line,
   in any letter case and with any SP/HTAB padding, makes the response uncacheable. *)
From Coq Require Import String.
From Coq Require Import List NArith ZArith Bool Lia.
From Verif Require Import GoStr GoNum GoHeader Tables Fresh.
Import ListNotations.

Definition flag_of (which : nat) (d : dirs) : bool :=
  match which with 0%nat => d_nostore d | 1%nat => d_nocache d | _ => d_private d end.
Definition name_of (which : nat) : str :=
  match which with 0%nat => bytes "no-store" | 1%nat => bytes "no-cache" | _ => bytes "private" end.

Lemma apply_directive_mono which d tok : flag_of which d = true -> flag_of which (apply_directive d tok) = true.
Proof.
  intros H. unfold apply_directive.
  destruct (contains tok s_eq).
  - destruct (split tok s_eq) as [|k [|v [|x l]]]; try exact H.
    destruct (atoi (trim v s_sp)); [|exact H].
    repeat match goal with |- context [if ?c then _ else _] => destruct c end;
      destruct which as [|[|w]]; simpl in *; assumption.
  - repeat match goal with |- context [if ?c then _ else _] => destruct c end;
      destruct which as [|[|w]]; simpl in *; try assumption; reflexivity.
Qed.

Lemma fold_apply_mono which toks d :
  flag_of which d = true -> flag_of which (fold_left apply_directive toks d) = true.
Proof.
  revert d. induction toks as [|t toks IH]; intros d H; simpl; [exact H|].
  apply IH. apply apply_directive_mono. exact H.
Qed.

Lemma apply_directive_sets which d :
  (which <= 2)%nat -> flag_of which (apply_directive d (name_of which)) = true.
Proof.
  intros Hw. destruct which as [|[|[|w]]]; [| | |lia]; vm_compute; reflexivity.
Qed.

Lemma split_name which : (which <= 2)%nat -> split (name_of which) s_comma = [name_of which].
Proof. intros Hw. destruct which as [|[|[|w]]]; [| | |lia]; vm_compute; reflexivity. Qed.

Lemma outer_fold_mono which ds d :
  flag_of which d = true ->
  flag_of which (fold_left (fun d dd => fold_left apply_directive (split dd s_comma) d) ds d) = true.
Proof.
  revert d. induction ds as [|dd ds IH]; intros d H; cbn [fold_left]; [exact H|].
  apply IH. apply fold_apply_mono. exact H.
Qed.

Lemma outer_fold_sets which ds d :
  (which <= 2)%nat -> In (name_of which) ds ->
  flag_of which (fold_left (fun d dd => fold_left apply_directive (split dd s_comma) d) ds d) = true.
Proof.
  intros Hw. revert d. induction ds as [|dd ds IH]; intros d Hin; cbn [fold_left]; [contradiction|].
  destruct Hin as [E|Hin].
  - subst dd. apply outer_fold_mono. rewrite (split_name which Hw). cbn [fold_left].
    apply apply_directive_sets. exact Hw.
  - apply IH. exact Hin.
Qed.

Lemma bare_directive_forbids which h :
  (which <= 2)%nat ->
  In (name_of which) (all_header_values s_cache_control h) ->
  do_not_cache (get_directives h) = true.
Proof.
  intros Hw Hin. unfold do_not_cache, get_directives. cbn [d_nocache d_private d_nostore d_smaxage d_maxage].
  pose proof (outer_fold_sets which _ empty_dirs Hw Hin) as H.
  destruct which as [|[|w]]; cbn [flag_of] in H; rewrite H; rewrite ?orb_true_r; reflexivity.
Qed.
