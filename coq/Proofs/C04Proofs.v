From Coq Require Import List NArith ZArith Bool Lia.
From Verif Require Import GoStr GoHeader Tables Route Forward SpecC04 HeaderFacts.
Import ListNotations.

(* facts about the generated constants, re-checked on every run *)
Lemma secret_ne_id : canon_key hdr_secret <> canon_key hdr_req_id.  Proof. vm_compute. discriminate. Qed.
Lemma secret_ne_ip : canon_key hdr_secret <> canon_key hdr_orig_ip. Proof. vm_compute. discriminate. Qed.
Lemma id_ne_ip : canon_key hdr_req_id <> canon_key hdr_orig_ip.     Proof. vm_compute. discriminate. Qed.
Lemma id_ne_secret : canon_key hdr_req_id <> canon_key hdr_secret.  Proof. vm_compute. discriminate. Qed.
Lemma ip_ne_secret : canon_key hdr_orig_ip <> canon_key hdr_secret. Proof. vm_compute. discriminate. Qed.
Lemma ip_ne_id : canon_key hdr_orig_ip <> canon_key hdr_req_id.     Proof. vm_compute. discriminate. Qed.

Definition is_fw_name (k : str) : Prop :=
  canon_key k = canon_key hdr_secret \/ canon_key k = canon_key hdr_req_id \/ canon_key k = canon_key hdr_orig_ip.

Ltac hsimp :=
  repeat first
    [ rewrite hget_hset_same
    | rewrite hget_hset_other by (first [apply secret_ne_id | apply secret_ne_ip | apply id_ne_ip
                                        | apply id_ne_secret | apply ip_ne_secret | apply ip_ne_id])
    | rewrite hget_hdel_other by (first [apply secret_ne_id | apply secret_ne_ip | apply id_ne_ip
                                        | apply id_ne_secret | apply ip_ne_secret | apply ip_ne_id]) ].

(* The decision and the delivered headers, for every header set and secret list. *)
Lemma ensure_internal_correct h pass secrets a uuid :
  uuid <> [] -> a <> [] -> (pass = true -> secrets <> []) ->
  match ensure_internal h pass secrets a uuid with
  | EiOk d => must_deny h pass secrets = false /\ delivered_ok h pass secrets d
  | Ei407 => must_deny h pass secrets = true
  | EiPanic => False
  end.
Proof.
  intros Hu Ha Hs. unfold ensure_internal, must_deny, c_secret, c_id, c_ip.
  destruct (nonempty (hget h hdr_secret)) eqn:Esec; simpl.
  - destruct (str_in secrets (hget h hdr_secret)) eqn:Ein; simpl; [|reflexivity].
    destruct pass; simpl.
    + (* internal, valid client secret *)
      assert (V : client_secret_valid h secrets = true).
      { unfold client_secret_valid, c_secret. rewrite Esec, Ein. reflexivity. }
      destruct (nonempty (hget h hdr_req_id)) eqn:Eid; destruct (nonempty (hget h hdr_orig_ip)) eqn:Eip;
        (split; [rewrite ?andb_false_r; reflexivity|]); unfold delivered_ok; rewrite V; unfold c_secret, c_id, c_ip;
        hsimp; rewrite ?Ein; apply nonempty_true in Esec;
        rewrite ?nonempty_true in *; rewrite ?nonempty_false in *; repeat split; auto; try congruence.
    + (* external *)
      split; [reflexivity|]. unfold delivered_ok.
      repeat split.
      * apply hhas_hdel_false. apply hhas_hdel_false. apply hhas_hdel_same.
      * apply hhas_hdel_false. apply hhas_hdel_same.
      * apply hhas_hdel_same.
  - destruct pass; simpl.
    + destruct (nonempty (hget h hdr_req_id) || nonempty (hget h hdr_orig_ip)) eqn:E; [reflexivity|].
      destruct secrets as [|s0 secrets]; [exfalso; apply Hs; reflexivity|].
      split; [reflexivity|].
      assert (V : client_secret_valid h (s0 :: secrets) = false).
      { unfold client_secret_valid, c_secret. rewrite Esec. reflexivity. }
      unfold delivered_ok. rewrite V. unfold c_id, c_ip. hsimp.
      apply orb_false_iff in E as [E1 E2]. apply nonempty_false in E1, E2.
      simpl. rewrite str_eqb_refl. simpl. repeat split; auto.
    + split; [reflexivity|]. unfold delivered_ok. repeat split.
      * apply hhas_hdel_false. apply hhas_hdel_false. apply hhas_hdel_same.
      * apply hhas_hdel_false. apply hhas_hdel_same.
      * apply hhas_hdel_same.
Qed.

(* Frame: every other header keeps its value list, order and multiplicity. *)
Lemma ensure_internal_frame h pass secrets ip uuid d k :
  ensure_internal h pass secrets ip uuid = EiOk d -> ~ is_fw_name k -> hvalues d k = hvalues h k.
Proof.
  unfold ensure_internal, is_fw_name. intros H Hk.
  assert (K1 : canon_key k <> canon_key hdr_secret) by tauto.
  assert (K2 : canon_key k <> canon_key hdr_req_id) by tauto.
  assert (K3 : canon_key k <> canon_key hdr_orig_ip) by tauto.
  destruct (nonempty (hget h hdr_secret) && negb (str_in secrets (hget h hdr_secret))); [discriminate|].
  destruct pass.
  - destruct (nonempty (hget h hdr_secret)).
    + destruct (nonempty (hget h hdr_req_id)); destruct (nonempty (hget h hdr_orig_ip));
        inversion H; subst; rewrite ?hvalues_hset_other by assumption; reflexivity.
    + destruct (nonempty (hget h hdr_req_id) || nonempty (hget h hdr_orig_ip)); [discriminate|].
      destruct secrets; [discriminate|].
      inversion H; subst. rewrite !hvalues_hset_other by assumption. reflexivity.
  - inversion H; subst. rewrite !hvalues_hdel_other by assumption. reflexivity.
Qed.

Lemma classic_fw k : is_fw_name k \/ ~ is_fw_name k.
Proof.
  unfold is_fw_name.
  destruct (str_eq_dec (canon_key k) (canon_key hdr_secret)); [left; auto|].
  destruct (str_eq_dec (canon_key k) (canon_key hdr_req_id)); [left; auto|].
  destruct (str_eq_dec (canon_key k) (canon_key hdr_orig_ip)); [left; auto|].
  right. tauto.
Qed.
