(* createProxyRequest: what a destination receives, header by header (C03, C04). *)
From Coq Require Import List NArith ZArith Bool Lia Arith.
From Verif Require Import GoStr GoHeader Tables Route Forward Serve SpecC03 SpecC04 HeaderFacts C04Proofs RouteProofs.
Import ListNotations.
Open Scope N_scope.

Lemma filter_header_values names : forall h k,
  hvalues (filter_header h names) k =
  if str_in (map canon_key names) (canon_key k) then [] else hvalues h k.
Proof.
  unfold filter_header. induction names as [|n names IH]; intros h k; simpl; [reflexivity|].
  rewrite IH.
  destruct (str_in (map canon_key names) (canon_key k)) eqn:E.
  - rewrite orb_true_r. reflexivity.
  - rewrite orb_false_r. destruct (str_eqb (canon_key k) (canon_key n)) eqn:E2.
    + apply str_eqb_eq in E2. unfold hvalues. rewrite E2. apply hvalues_raw_hdel_raw_same.
    + apply str_eqb_neq in E2. apply hvalues_hdel_other. exact E2.
Qed.

Definition effective (c : cfg) (internal : bool) : bool * list str :=
  match c_secrets c with None => (false, []) | Some ss => (internal, ss) end.

(* Everything createProxyRequest lets through, for every client header set:
   - method is the client's; Host follows the rule's hostheader setting;
   - hop-by-hop headers are gone;
   - every other header outside the firewall's three keeps its value list;
   - the firewall's three are exactly as C04 requires. *)
Lemma fw_not_hop k : is_fw_name k -> str_in (map canon_key hop_by_hop) (canon_key k) = false.
Proof. intros [F|[F|F]]; rewrite F; vm_compute; reflexivity. Qed.

Lemma cpr_headers q int' ss h' :
  ensure_internal (filter_header (q_hdrs q) hop_by_hop) int' ss (request_ip (q_hdrs q) (q_remote_ip q)) (q_uuid q) = EiOk h' ->
  (forall k, str_in (map canon_key hop_by_hop) (canon_key k) = true -> hvalues h' k = []) /\
  (forall k, str_in (map canon_key hop_by_hop) (canon_key k) = false -> ~ is_fw_name k ->
             hvalues h' k = hvalues (q_hdrs q) k).
Proof.
  intros E. split.
  - intros k Hk. destruct (classic_fw k) as [F|F].
    + rewrite (fw_not_hop k F) in Hk. discriminate.
    + rewrite (ensure_internal_frame _ _ _ _ _ _ k E F), filter_header_values, Hk. reflexivity.
  - intros k Hk F. rewrite (ensure_internal_frame _ _ _ _ _ _ k E F), filter_header_values, Hk. reflexivity.
Qed.

Lemma create_proxy_request_spec c q internal hh url d :
  q_uuid q <> [] -> request_ip (q_hdrs q) (q_remote_ip q) <> [] ->
  (forall ss, c_secrets c = Some ss -> internal = true -> ss <> []) ->
  create_proxy_request c q internal hh url = PqOk d ->
  d_url d = url /\ d_method d = q_method q /\
  d_host d = expected_host hh (q_host q) url /\
  (forall k, str_in (map canon_key hop_by_hop) (canon_key k) = true -> hvalues (d_hdrs d) k = []) /\
  (forall k, str_in (map canon_key hop_by_hop) (canon_key k) = false -> ~ is_fw_name k ->
             hvalues (d_hdrs d) k = hvalues (q_hdrs q) k) /\
  must_deny (filter_header (q_hdrs q) hop_by_hop) (fst (effective c internal)) (snd (effective c internal)) = false /\
  delivered_ok (filter_header (q_hdrs q) hop_by_hop) (fst (effective c internal)) (snd (effective c internal)) (d_hdrs d).
Proof.
  intros Hu Hip Hs. unfold create_proxy_request, effective.
  assert (Hh : forall hh0, match hh0 with HDefault | HDestination => url_host url | HOriginal => q_host q | HOverride s => s end
                           = expected_host hh0 (q_host q) url) by (intros []; reflexivity).
  destruct (c_secrets c) as [ss|] eqn:Cs; cbn [fst snd].
  - pose proof (ensure_internal_correct (filter_header (q_hdrs q) hop_by_hop) internal ss _ (q_uuid q) Hu Hip) as EC.
    destruct (ensure_internal _ internal ss _ (q_uuid q)) as [h'| |] eqn:E; try discriminate.
    intros H; inversion H; subst d; cbn [d_url d_method d_host d_hdrs].
    assert (Hss : internal = true -> ss <> []) by (intros; eapply Hs; eauto).
    destruct (EC Hss) as [Hd Hok]. destruct (cpr_headers q internal ss h' E) as [H1 H2].
    split; [reflexivity|]. split; [reflexivity|]. split; [apply Hh|]. split; [exact H1|]. split; [exact H2|].
    split; assumption.
  - pose proof (ensure_internal_correct (filter_header (q_hdrs q) hop_by_hop) false [] _ (q_uuid q) Hu Hip) as EC.
    destruct (ensure_internal _ false [] _ (q_uuid q)) as [h'| |] eqn:E; try discriminate.
    intros H; inversion H; subst d; cbn [d_url d_method d_host d_hdrs].
    assert (Hss : false = true -> @nil str <> []) by discriminate.
    destruct (EC Hss) as [Hd Hok]. destruct (cpr_headers q false [] h' E) as [H1 H2].
    split; [reflexivity|]. split; [reflexivity|]. split; [apply Hh|]. split; [exact H1|]. split; [exact H2|].
    split; assumption.
Qed.

(* A client secret that is not configured reaches no destination at all, whatever the rules. *)
Lemma unknown_secret_creates_nothing c q internal hh url :
  let h := filter_header (q_hdrs q) hop_by_hop in
  nonempty (hget h hdr_secret) = true ->
  str_in (match c_secrets c with Some ss => ss | None => [] end) (hget h hdr_secret) = false ->
  create_proxy_request c q internal hh url = Pq407.
Proof.
  intros h Hn Hu. unfold create_proxy_request. fold h.
  destruct (c_secrets c) as [ss|]; unfold ensure_internal; rewrite Hn, Hu; reflexivity.
Qed.

Lemma unknown_secret_reaches_nothing fuel : forall c rs q body ov fb sc log,
  let h := filter_header (q_hdrs q) hop_by_hop in
  nonempty (hget h hdr_secret) = true ->
  str_in (match c_secrets c with Some ss => ss | None => [] end) (hget h hdr_secret) = false ->
  rt_log (route_request fuel c rs q body ov fb sc log) = log /\
  exists e, rt_res (route_request fuel c rs q body ov fb sc log) = inr e /\
            (e = E407 \/ e = E404 \/ e = E500 \/ e = EOutOfFuel).
Proof.
  intros c rs q body ov fb sc log h Hn Hu.
  destruct fuel as [|fuel]; [simpl; split; [reflexivity | exists EOutOfFuel; auto]|].
  cbn [route_request].
  destruct (str_in (q_badhosts q) (drop_port (q_host q))); [simpl; split; [reflexivity | exists E500; auto]|].
  destruct (rules_match rs _ _ _ _) as [pm cm].
  destruct (match pm with Some (_, r, _) => Some r | None => fb end) as [r|].
  - rewrite (unknown_secret_creates_nothing c q _ _ _ Hn Hu). simpl. split; [reflexivity | exists E407; auto].
  - destruct cm as [[[ci cr] ct]|].
    + rewrite (unknown_secret_creates_nothing c q _ _ _ Hn Hu). simpl. split; [reflexivity | exists E407; auto].
    + simpl. split; [reflexivity | exists E404; auto].
Qed.
