(* C15: the code's Range parser (Model/Range.v get_range = server.go getRange) reads every
   header of the strict single-range grammar (Spec/SpecC15.v spec_parse_range) as the range
   it denotes.  With C15Proofs.range_answer_ok this carries the C15 statement from parsed
   ranges back to header bytes: for all header strings in the grammar, all resources. *)
From Coq Require Import String.
From Coq Require Import List NArith ZArith Bool Lia.
From Verif Require Import GoStr GoNum Range SpecC15 C15Proofs.
Import ListNotations.
Open Scope Z_scope.

(* ---------- strings.Split: pieces joined by the separator give the string back ---------- *)

Lemma split_aux_nonempty fuel : forall s sep cur, split_aux fuel s sep cur <> [].
Proof.
  induction fuel as [|f IH]; intros s sep cur; simpl; [discriminate|].
  destruct s as [|x s']; [discriminate|].
  destruct (has_prefix (x :: s') sep); [discriminate|apply IH].
Qed.

Lemma join_cons a l sep : l <> [] -> join (a :: l) sep = a ++ sep ++ join l sep.
Proof. destruct l as [|b l]; [intros H; contradiction|reflexivity]. Qed.

Lemma join_split_aux fuel : forall s sep cur,
  sep <> [] -> (length s < fuel)%nat -> join (split_aux fuel s sep cur) sep = rev cur ++ s.
Proof.
  induction fuel as [|f IH]; intros s sep cur Hsep Hlen; [lia|].
  cbn [split_aux]. destruct s as [|x s'].
  - cbn [join]. rewrite app_nil_r. reflexivity.
  - destruct (has_prefix (x :: s') sep) eqn:Hp.
    + apply has_prefix_spec in Hp. destruct Hp as [t Ht].
      rewrite join_cons by apply split_aux_nonempty.
      rewrite Ht. rewrite skipn_app, skipn_all, Nat.sub_diag. cbn [skipn app].
      rewrite IH; [reflexivity|exact Hsep|].
      assert (Hl : length (x :: s') = (length sep + length t)%nat) by (rewrite Ht; apply app_length).
      destruct sep as [|c sep']; [contradiction|]. cbn [length] in *. lia.
    + rewrite IH; [|exact Hsep|cbn [length] in Hlen; lia].
      cbn [rev]. rewrite <- app_assoc. reflexivity.
Qed.

Lemma join_split s sep : sep <> [] -> join (split s sep) sep = s.
Proof.
  intros Hsep. unfold split. destruct sep as [|c sep']; [contradiction|].
  rewrite join_split_aux; [reflexivity|discriminate|lia].
Qed.

(* a string without the separator's first byte is one piece *)
Lemma split_aux_absent fuel : forall s c sep' cur,
  (forall x, In x s -> x <> c) -> split_aux fuel s (c :: sep') cur = [rev cur ++ s].
Proof.
  induction fuel as [|f IH]; intros s c sep' cur Hno; [reflexivity|].
  cbn [split_aux]. destruct s as [|x s'].
  - rewrite app_nil_r. reflexivity.
  - assert (Hx : N.eqb x c = false) by (apply N.eqb_neq; apply Hno; left; reflexivity).
    cbn [has_prefix]. rewrite Hx. cbn [andb].
    rewrite IH by (intros y Hy; apply Hno; right; exact Hy).
    cbn [rev]. rewrite <- app_assoc. reflexivity.
Qed.

(* ---------- digits ---------- *)

Lemma digits_val_nonneg s : forall acc v, 0 <= acc -> digits_val s acc = Some v -> 0 <= v.
Proof.
  induction s as [|c s IH]; intros acc v Hacc H; cbn [digits_val] in H.
  - inversion H; subst; exact Hacc.
  - destruct (is_digit c) eqn:Hd; [|discriminate].
    apply IH in H; [exact H|].
    unfold is_digit in Hd. apply andb_true_iff in Hd. destruct Hd as [H1 H2].
    apply N.leb_le in H1. lia.
Qed.

Lemma is_digit_not_dash c : is_digit c = true -> N.eqb c 45 = false /\ N.eqb c 43 = false /\ c <> 98%N.
Proof.
  unfold is_digit. intros H. apply andb_true_iff in H. destruct H as [H1 H2].
  apply N.leb_le in H1. apply N.leb_le in H2.
  split; [apply N.eqb_neq; lia|]. split; [apply N.eqb_neq; lia|lia].
Qed.

(* digits only: ParseInt sees no sign, the value is the digits' and is not negative *)
Lemma parse_int_digits s v :
  digits_only s = true -> parse_int s = Some v ->
  0 <= v <= int64_max /\ digits_val s 0 = Some v /\ s <> [].
Proof.
  unfold digits_only. intros Hd Hp. apply andb_true_iff in Hd. destruct Hd as [Hne Hall].
  destruct s as [|c r]; [discriminate|]. cbn [forallb] in Hall. apply andb_true_iff in Hall.
  destruct Hall as [Hc Hr]. destruct (is_digit_not_dash c Hc) as [H45 [H43 _]].
  unfold parse_int in Hp. rewrite H45, H43 in Hp.
  destruct (digits_val (c :: r) 0) as [v0|] eqn:Hv; [|discriminate].
  destruct ((int64_min <=? v0) && (v0 <=? int64_max)) eqn:Hrg; [|discriminate].
  inversion Hp; subst v0. apply andb_true_iff in Hrg. destruct Hrg as [_ Hmax]. apply Z.leb_le in Hmax.
  split; [|split; [reflexivity|discriminate]].
  split; [|exact Hmax]. eapply digits_val_nonneg; [|exact Hv]. lia.
Qed.

(* "-" before digits: ParseInt gives the negated value *)
Lemma parse_int_minus s v :
  digits_only s = true -> parse_int s = Some v -> parse_int (45%N :: s) = Some (- v).
Proof.
  intros Hd Hp. destruct (parse_int_digits s v Hd Hp) as [[H0 Hmax] [Hv Hne]].
  unfold parse_int. cbn [N.eqb Pos.eqb]. destruct s as [|c r]; [contradiction|].
  rewrite Hv.
  assert (Hr : (int64_min <=? - v) && (- v <=? int64_max) = true).
  { apply andb_true_iff. split; apply Z.leb_le; unfold int64_min, int64_max in *; lia. }
  rewrite Hr. reflexivity.
Qed.

Lemma digits_only_chars s x : digits_only s = true -> In x s -> is_digit x = true.
Proof.
  unfold digits_only. intros H Hin. apply andb_true_iff in H. destruct H as [_ H].
  rewrite forallb_forall in H. apply H. exact Hin.
Qed.

Lemma digits_only_head s : digits_only s = true -> has_prefix s [45%N] = false.
Proof.
  intros H. destruct s as [|c r]; [reflexivity|].
  assert (Hc : is_digit c = true) by (eapply digits_only_chars; [exact H|left; reflexivity]).
  destruct (is_digit_not_dash c Hc) as [H45 _]. cbn [has_prefix]. rewrite H45. reflexivity.
Qed.

(* ---------- the header as a whole ---------- *)

Definition p_bytes_eq : str := (98 :: 121 :: 116 :: 101 :: 115 :: 61 :: nil)%N.

Lemma s_bytes_eq_lit : s_bytes_eq = p_bytes_eq.
Proof. vm_compute. reflexivity. Qed.

(* "bytes=" followed by digits and dashes splits at "bytes=" into "" and the rest *)
Lemma split_bytes_eq bs :
  (forall x, In x bs -> x <> 98%N) -> split (p_bytes_eq ++ bs) s_bytes_eq = [[]; bs].
Proof.
  intros Hno. rewrite s_bytes_eq_lit. unfold split, p_bytes_eq at 2.
  fold p_bytes_eq. cbn [length plus]. set (f := length (p_bytes_eq ++ bs)).
  cbn [split_aux]. unfold p_bytes_eq at 1. cbn [app].
  change (98 :: 121 :: 116 :: 101 :: 115 :: 61 :: bs)%N with (p_bytes_eq ++ bs).
  rewrite has_prefix_app. rewrite skipn_app, skipn_all.
  change (length p_bytes_eq - length p_bytes_eq)%nat with 0%nat. cbn [skipn app rev].
  unfold p_bytes_eq. rewrite split_aux_absent by exact Hno. reflexivity.
Qed.

Definition finish (st e : str) : option rrange :=
  match parse_opt st, parse_opt e with
  | Some s', Some e' =>
    match s', e' with
    | Some sv, Some ev => if ev <? sv then None else Some (mkRange s' e')
    | _, _ => Some (mkRange s' e')
    end
  | _, _ => None
  end.

Theorem get_range_meets_grammar h r :
  spec_parse_range h = Some r -> get_range h = Some (to_rr r) /\ wellformed r.
Proof.
  unfold spec_parse_range. fold p_bytes_eq.
  destruct (has_prefix h p_bytes_eq) eqn:Hp; cbn [negb]; [|discriminate].
  apply has_prefix_spec in Hp. destruct Hp as [bs Hh]. subst h.
  change (skipn 6 (p_bytes_eq ++ bs)) with bs.
  destruct (split bs [45%N]) as [|a [|b [|c l]]] eqn:Hs; try discriminate.
  assert (Hbs : bs = a ++ [45%N] ++ b).
  { rewrite <- (join_split bs [45%N]) by discriminate. rewrite Hs. reflexivity. }
  intros Hspec.
  assert (Hget : forall st e,
             (forall x, In x bs -> x <> 98%N) ->
             (has_prefix bs s_dash = true /\ st = [] /\ e = bs) \/
             (has_prefix bs s_dash = false /\ split bs s_dash = [st; e]) ->
             get_range (p_bytes_eq ++ bs) = finish st e).
  { intros st e Hno Hparts. unfold get_range. unfold p_bytes_eq at 1. cbn [app].
    change (98 :: 121 :: 116 :: 101 :: 115 :: 61 :: bs)%N with (p_bytes_eq ++ bs).
    rewrite (split_bytes_eq bs Hno). cbv beta iota zeta.
    destruct Hparts as [[Hh [Hst He]]|[Hh Hsp]].
    - rewrite Hh. subst st e. reflexivity.
    - rewrite Hh, Hsp. reflexivity. }
  assert (Hchars : forall x, In x bs -> x = 45%N \/ In x a \/ In x b).
  { intros x Hin. rewrite Hbs in Hin. apply in_app_or in Hin. destruct Hin as [Hin|Hin]; [tauto|].
    apply in_app_or in Hin. destruct Hin as [[Hin|[]]|Hin]; [left; symmetry; exact Hin|tauto]. }
  change [45%N] with s_dash in Hs.
  destruct a as [|a0 ar].
  - (* bytes=-s *)
    destruct (digits_only b) eqn:Hdb; [|discriminate].
    destruct (parse_int b) as [s|] eqn:Hpb; [|discriminate]. inversion Hspec; subst r.
    destruct (parse_int_digits b s Hdb Hpb) as [[H0 _] _].
    split; [|exact H0].
    rewrite (Hget [] bs).
    + unfold finish. rewrite Hbs. cbn [app parse_opt]. rewrite (parse_int_minus b s Hdb Hpb). reflexivity.
    + intros x Hin. destruct (Hchars x Hin) as [Hx|[[]|Hx]]; [subst x; discriminate|].
      apply (digits_only_chars b x Hdb) in Hx. apply is_digit_not_dash in Hx. tauto.
    + left. rewrite Hbs. split; [reflexivity|split; reflexivity].
  - set (a := a0 :: ar) in *.
    assert (Hda : digits_only a = true).
    { destruct b; cbn [andb] in Hspec; destruct (digits_only a); try discriminate; reflexivity. }
    assert (Hhead : has_prefix bs s_dash = false).
    { assert (Hc : is_digit a0 = true) by (apply (digits_only_chars a a0 Hda); left; reflexivity).
      destruct (is_digit_not_dash a0 Hc) as [H45 _].
      rewrite Hbs. unfold a, s_dash. cbn [app has_prefix]. rewrite H45. reflexivity. }
    destruct b as [|b0 br].
    + (* bytes=a- *)
      rewrite Hda in Hspec. destruct (parse_int a) as [x|] eqn:Hpa; [|discriminate].
      inversion Hspec; subst r.
      destruct (parse_int_digits a x Hda Hpa) as [[H0 _] _].
      split; [|exact H0].
      rewrite (Hget a []).
      * unfold finish. unfold a at 1. cbn [parse_opt]. fold a. rewrite Hpa. reflexivity.
      * intros y Hin. destruct (Hchars y Hin) as [Hy|[Hy|[]]]; [subst y; discriminate|].
        apply (digits_only_chars a y Hda) in Hy. apply is_digit_not_dash in Hy. tauto.
      * right. split; [exact Hhead|exact Hs].
    + (* bytes=a-b *)
      set (b := b0 :: br) in *. rewrite Hda in Hspec. cbn [andb] in Hspec.
      destruct (digits_only b) eqn:Hdb; [|discriminate].
      destruct (parse_int a) as [x|] eqn:Hpa; [|discriminate].
      destruct (parse_int b) as [y|] eqn:Hpb; [|discriminate].
      destruct (x <=? y) eqn:Hxy; [|discriminate]. inversion Hspec; subst r.
      apply Z.leb_le in Hxy.
      destruct (parse_int_digits a x Hda Hpa) as [[H0 _] _].
      split; [|cbn [wellformed]; lia].
      rewrite (Hget a b).
      * unfold finish. unfold a at 1, b at 1. cbn [parse_opt]. fold a b. rewrite Hpa, Hpb.
        destruct (Z.ltb_spec y x); [lia|reflexivity].
      * intros z Hin. destruct (Hchars z Hin) as [Hz|[Hz|Hz]]; [subst z; discriminate| |].
        -- apply (digits_only_chars a z Hda) in Hz. apply is_digit_not_dash in Hz. tauto.
        -- apply (digits_only_chars b z Hdb) in Hz. apply is_digit_not_dash in Hz. tauto.
      * right. split; [exact Hhead|exact Hs].
Qed.

(* header bytes to answer: every header of the grammar, every resource *)
Theorem header_answer_ok h r resource :
  spec_parse_range h = Some r ->
  exists rr a, get_range h = Some rr /\ range_answer rr resource = Some a /\ answer_ok r resource a = true.
Proof.
  intros Hs. destruct (get_range_meets_grammar h r Hs) as [Hg Hw].
  destruct (range_answer_ok r resource Hw) as [a [Ha Hok]].
  exists (to_rr r), a. repeat split; assumption.
Qed.

(* the grammar is inhabited by each of the three forms (premise satisfiable) *)
Example grammar_samples :
  map spec_parse_range [bytes "bytes=2-5"; bytes "bytes=7-"; bytes "bytes=-3"; bytes "bytes=007-007"]
  = [Some (FromTo 2 5); Some (From 7); Some (Suffix 3); Some (FromTo 7 7)].
Proof. vm_compute. reflexivity. Qed.

(* ---------- the converse: whatever getRange accepts is a well-formed single range ---------- *)

(* pieces cut at a one-byte separator do not contain it *)
Lemma split_aux_pieces fuel : forall s c cur,
  (length s < fuel)%nat -> ~ In c cur ->
  forall p, In p (split_aux fuel s [c] cur) -> ~ In c p.
Proof.
  induction fuel as [|f IH]; intros s c cur Hlen Hcur p Hp; [lia|].
  cbn [split_aux] in Hp. destruct s as [|x s'].
  - destruct Hp as [Hp|[]]. subst p. rewrite <- in_rev. exact Hcur.
  - cbn [has_prefix] in Hp. destruct (N.eqb x c) eqn:Hx; cbn [andb] in Hp.
    + replace (has_prefix s' []) with true in Hp by (destruct s'; reflexivity).
      destruct Hp as [Hp|Hp].
      * subst p. rewrite <- in_rev. exact Hcur.
      * cbn [length skipn] in Hp. apply (IH s' c [] ) in Hp; [exact Hp|cbn [length] in Hlen; lia|intros []].
    + apply (IH s' c (x :: cur)) in Hp; [exact Hp|cbn [length] in Hlen; lia|].
      intros [E|Hin]; [|exact (Hcur Hin)]. apply N.eqb_neq in Hx. exact (Hx E).
Qed.

Lemma parse_int_head_nonneg c s v : c <> 45%N -> parse_int (c :: s) = Some v -> 0 <= v.
Proof.
  intros Hc H. unfold parse_int in H. apply N.eqb_neq in Hc. rewrite Hc in H.
  destruct (N.eqb c 43).
  - destruct s as [|d s']; [discriminate|].
    destruct (digits_val (d :: s') 0) as [v0|] eqn:Hv; [|discriminate].
    destruct ((int64_min <=? v0) && (v0 <=? int64_max)); [|discriminate].
    inversion H; subst. eapply digits_val_nonneg; [|exact Hv]. lia.
  - destruct (digits_val (c :: s) 0) as [v0|] eqn:Hv; [|discriminate].
    destruct ((int64_min <=? v0) && (v0 <=? int64_max)); [|discriminate].
    inversion H; subst. eapply digits_val_nonneg; [|exact Hv]. lia.
Qed.

Lemma parse_int_dash_nonpos s v : parse_int (45%N :: s) = Some v -> v <= 0.
Proof.
  unfold parse_int. cbn [N.eqb Pos.eqb]. destruct s as [|d s']; [discriminate|].
  destruct (digits_val (d :: s') 0) as [v0|] eqn:Hv; [|discriminate].
  destruct ((int64_min <=? - v0) && (- v0 <=? int64_max)); [|discriminate].
  intros H; inversion H; subst.
  assert (0 <= v0) by (eapply digits_val_nonneg; [|exact Hv]; lia). lia.
Qed.

Theorem get_range_is_wellformed h rr :
  get_range h = Some rr -> exists r, wellformed r /\ rr = to_rr r.
Proof.
  unfold get_range. destruct h as [|h0 ht]; [discriminate|]. set (h := h0 :: ht).
  destruct (split h s_bytes_eq) as [|p0 [|bs [|x l]]]; try discriminate.
  destruct (has_prefix bs s_dash) eqn:Hhead.
  - (* the suffix form *)
    apply has_prefix_spec in Hhead. destruct Hhead as [t Ht]. unfold s_dash in Ht. cbn [app] in Ht.
    cbn [parse_opt]. rewrite Ht. cbn [parse_opt].
    destruct (parse_int (45%N :: t)) as [v|] eqn:Hv; [|discriminate].
    intros H. inversion H; subst rr.
    exists (Suffix (- v)). split.
    + cbn [wellformed]. apply parse_int_dash_nonpos in Hv. lia.
    + cbn [to_rr]. rewrite Z.opp_involutive. reflexivity.
  - destruct (split bs s_dash) as [|a [|b [|y l']]] eqn:Hs; try discriminate.
    assert (Hbs : bs = a ++ [45%N] ++ b).
    { rewrite <- (join_split bs [45%N]) by discriminate. unfold s_dash in Hs. rewrite Hs. reflexivity. }
    assert (Hb : ~ In 45%N b).
    { unfold split, s_dash in Hs. apply (split_aux_pieces (S (length bs)) bs 45%N []); [lia|intros []|].
      rewrite Hs. right. left. reflexivity. }
    destruct a as [|a0 ar].
    { rewrite Hbs in Hhead. cbn in Hhead. discriminate. }
    assert (Ha0 : a0 <> 45%N).
    { intros E. subst a0. rewrite Hbs in Hhead. cbn in Hhead. discriminate. }
    cbn [parse_opt].
    destruct (parse_int (a0 :: ar)) as [sv|] eqn:Hsv; [|discriminate].
    apply (parse_int_head_nonneg a0 ar sv Ha0) in Hsv.
    destruct b as [|b0 br].
    + cbn [parse_opt]. intros H. inversion H; subst rr.
      exists (From sv). split; [exact Hsv|reflexivity].
    + cbn [parse_opt]. destruct (parse_int (b0 :: br)) as [ev|] eqn:Hev; [|discriminate].
      destruct (ev <? sv) eqn:Hlt; [discriminate|]. intros H. inversion H; subst rr.
      apply Z.ltb_ge in Hlt.
      exists (FromTo sv ev). split; [cbn [wellformed]; lia|reflexivity].
Qed.

(* every header getRange accepts - inside the grammar or not ("bytes=+1-2", "xbytes=1-2") -
   is answered as some well-formed single range would be: exact 206, complete 200, or 416 *)
Theorem accepted_header_answer_ok h rr resource :
  get_range h = Some rr ->
  exists r a, wellformed r /\ rr = to_rr r /\ range_answer rr resource = Some a /\ answer_ok r resource a = true.
Proof.
  intros Hg. destruct (get_range_is_wellformed h rr Hg) as [r [Hw Hr]].
  destruct (range_answer_ok r resource Hw) as [a [Ha Hok]].
  exists r, a. subst rr. repeat split; assumption.
Qed.

Example lenient_samples :
  map get_range [bytes "bytes=+1-2"; bytes "xbytes=1-2"; bytes "bytes=-0"; bytes "bytes=1-2-3"; bytes "bytes=--1"]
  = [Some (to_rr (FromTo 1 2)); Some (to_rr (FromTo 1 2)); Some (to_rr (Suffix 0)); None; None].
Proof. vm_compute. reflexivity. Qed.
