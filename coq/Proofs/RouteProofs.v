(* Facts about routeRequest / the cache-less serve path used by C01, C03, C04, C20. *)
From Coq Require Import String.
From Coq Require Import List NArith ZArith Bool Lia Arith.
From Verif Require Import GoStr GoHeader Tables Route Forward Serve.
Import ListNotations.
Open Scope N_scope.

Lemma perform_loop_log n sc d log :
  exists k, snd (fst (perform_loop n sc d log)) = log ++ repeat d (S k).
Proof.
  revert sc log. induction n as [|n IH]; intros sc log; cbn [perform_loop].
  - destruct (script_pop sc (url_host (d_url d))) as [sc' b]. destruct (origin_answer d b); exists 0%nat; reflexivity.
  - destruct (script_pop sc (url_host (d_url d))) as [sc' b]. destruct (origin_answer d b).
    + exists 0%nat. reflexivity.
    + destruct (IH sc' (log ++ [d])) as [k Hk]. exists (S k). rewrite Hk. rewrite <- app_assoc. reflexivity.
Qed.

Lemma perform_request_log c sc d ra log :
  exists k, snd (fst (perform_request c sc d ra log)) = log ++ repeat d (S k).
Proof. unfold perform_request. destruct (retryable (d_method d) && ra); apply perform_loop_log. Qed.

(* every request sent to a destination is a createProxyRequest result carrying the whole body *)
Definition dlv_from (c : cfg) (q : req) (body : str) (d : dlv) : Prop :=
  exists internal hh url d0,
    create_proxy_request c q internal hh url = PqOk d0 /\ d = with_body d0 body.

Lemma Forall_repeat {X} (P : X -> Prop) x n : P x -> Forall P (repeat x n).
Proof. intros H. induction n; simpl; constructor; assumption. Qed.

(* The log only grows, and only by such requests: for every ruleset, request, script,
   retry depth and fault sequence. *)
Lemma route_request_log fuel : forall c rs q body ov fb sc log,
  exists extra, rt_log (route_request fuel c rs q body ov fb sc log) = log ++ extra /\
                Forall (dlv_from c q body) extra.
Proof.
  induction fuel as [|fuel IH]; intros c rs q body ov fb sc log.
  - exists []. simpl. rewrite app_nil_r. split; [reflexivity | constructor].
  - cbn [route_request].
    destruct (str_in (q_badhosts q) (drop_port (q_host q))).
    { exists []. simpl. rewrite app_nil_r. split; [reflexivity | constructor]. }
    destruct (rules_match rs _ _ _ _) as [pm cm].
    set (rule := match pm with Some (_, r, _) => Some r | None => fb end).
    destruct rule as [r|].
    + set (u := match ov with Some o => o | None => match pm with Some (_, _, t) => out_url t (q_query q) | None => q_url q end end).
      destruct (create_proxy_request c q (r_internal r) (r_hosthdr r) u) as [d| |] eqn:Hm;
        try (exists []; simpl; rewrite app_nil_r; split; [reflexivity | constructor]).
      assert (Dm : dlv_from c q body (with_body d body)) by (exists (r_internal r), (r_hosthdr r), u, d; auto).
      destruct cm as [[[ci cr] ct]|].
      * destruct (create_proxy_request c q (r_internal cr) (r_hosthdr cr) (out_url ct (q_query q))) as [dc| |] eqn:Hc;
          try (exists []; simpl; rewrite app_nil_r; split; [reflexivity | constructor]).
        assert (Dc : dlv_from c q body (with_body dc body))
          by (exists (r_internal cr), (r_hosthdr cr), (out_url ct (q_query q)), dc; auto).
        set (ra := match r_retry r with None => true | Some _ => false end).
        destruct (perform_request_log c sc (with_body dc body) ra log) as [k1 Hk1].
        destruct (perform_request c sc (with_body dc body) ra log) as [[sc1 log1] res1]. cbn [fst snd] in Hk1. subst log1.
        destruct (perform_request_log c sc1 (with_body d body) ra (log ++ repeat (with_body dc body) (S k1))) as [k2 Hk2].
        destruct (perform_request c sc1 (with_body d body) ra _) as [[sc2 log2] res]. cbn [fst snd] in Hk2. subst log2.
        match goal with |- context [match ?f with Some rr => route_request _ _ _ _ _ _ _ _ _ | None => _ end] => destruct f as [rr|] end.
        -- destruct (IH c [rr] q body None None sc2 ((log ++ repeat (with_body dc body) (S k1)) ++ repeat (with_body d body) (S k2))) as [ex [He Hf]].
           rewrite He. exists (repeat (with_body dc body) (S k1) ++ repeat (with_body d body) (S k2) ++ ex).
           split; [rewrite <- !app_assoc; reflexivity|].
           apply Forall_app. split; [apply Forall_repeat; exact Dc|].
           apply Forall_app. split; [apply Forall_repeat; exact Dm | exact Hf].
        -- exists (repeat (with_body dc body) (S k1) ++ repeat (with_body d body) (S k2)).
           split; [destruct res; simpl; rewrite <- app_assoc; reflexivity|].
           apply Forall_app. split; apply Forall_repeat; assumption.
      * set (ra := match r_retry r with None => true | Some _ => false end).
        destruct (perform_request_log c sc (with_body d body) ra log) as [k2 Hk2].
        destruct (perform_request c sc (with_body d body) ra log) as [[sc2 log2] res]. cbn [fst snd] in Hk2. subst log2.
        match goal with |- context [match ?f with Some rr => route_request _ _ _ _ _ _ _ _ _ | None => _ end] => destruct f as [rr|] end.
        -- destruct (IH c [rr] q body None None sc2 (log ++ repeat (with_body d body) (S k2))) as [ex [He Hf]].
           rewrite He. exists (repeat (with_body d body) (S k2) ++ ex).
           split; [rewrite <- !app_assoc; reflexivity|].
           apply Forall_app. split; [apply Forall_repeat; exact Dm | exact Hf].
        -- exists (repeat (with_body d body) (S k2)).
           split; [destruct res; reflexivity | apply Forall_repeat; exact Dm].
    + destruct cm as [[[ci cr] ct]|].
      * destruct (create_proxy_request c q (r_internal cr) (r_hosthdr cr) (out_url ct (q_query q))) as [dc| |] eqn:Hc;
          try (exists []; simpl; rewrite app_nil_r; split; [reflexivity | constructor]).
        assert (Dc : dlv_from c q body (with_body dc body))
          by (exists (r_internal cr), (r_hosthdr cr), (out_url ct (q_query q)), dc; auto).
        destruct (perform_request_log c sc (with_body dc body) true log) as [k1 Hk1].
        destruct (perform_request c sc (with_body dc body) true log) as [[sc1 log1] res1]. cbn [fst snd] in Hk1. subst log1.
        exists (repeat (with_body dc body) (S k1)). split; [reflexivity | apply Forall_repeat; exact Dc].
      * exists []. simpl. rewrite app_nil_r. split; [reflexivity | constructor].
Qed.

Lemma create_proxy_request_url c q internal hh url d :
  create_proxy_request c q internal hh url = PqOk d -> d_url d = url.
Proof.
  unfold create_proxy_request.
  destruct (match c_secrets c with None => _ | Some ss => _ end); try discriminate.
  intros H; inversion H; reflexivity.
Qed.

(* No proxy rule matches (and there is no fallback rule): the client gets rrrouter's 404
   (or the firewall's 407 for the copy route) and only the copy destination, if any,
   has been contacted: no destination receives a proxied request. *)
Lemma route_no_proxy_match fuel c rs q body ov sc log :
  str_in (q_badhosts q) (drop_port (q_host q)) = false ->
  fst (rules_match rs (req_scheme (q_tls q) (hget (q_hdrs q) (bytes "X-Forwarded-Proto")))
                   (drop_port (q_host q)) (q_uri q) (q_method q)) = None ->
  let out := route_request (S fuel) c rs q body ov None sc log in
  (exists e, rt_res out = inr e /\ (e = E404 \/ e = E407 \/ e = EPanic)) /\
  (forall d, In d (rt_log out) -> In d log \/
     exists i r t, snd (rules_match rs (req_scheme (q_tls q) (hget (q_hdrs q) (bytes "X-Forwarded-Proto")))
                                    (drop_port (q_host q)) (q_uri q) (q_method q)) = Some (i, r, t)
                   /\ d_url d = out_url t (q_query q)).
Proof.
  intros Hb Hm. cbn [route_request]. rewrite Hb.
  destruct (rules_match rs _ _ _ _) as [pm cm]. simpl in Hm. subst pm.
  destruct cm as [[[ci cr] ct]|].
  - destruct (create_proxy_request c q (r_internal cr) (r_hosthdr cr) (out_url ct (q_query q))) as [dc| |] eqn:Hc.
    + destruct (perform_request_log c sc (with_body dc body) true log) as [k Hk].
      destruct (perform_request c sc (with_body dc body) true log) as [[sc1 log1] res1]. cbn [fst snd] in Hk. subst log1.
      cbn [rt_res rt_log]. split; [exists E404; auto|].
      intros d Hd. apply in_app_or in Hd as [Hd|Hd]; [left; exact Hd|]. right.
      apply repeat_spec in Hd. subst d. exists ci, cr, ct. split; [reflexivity|].
      simpl. eapply create_proxy_request_url. exact Hc.
    + cbn [rt_res rt_log]. split; [exists E407; auto | intros d Hd; left; exact Hd].
    + cbn [rt_res rt_log]. split; [exists EPanic; auto | intros d Hd; left; exact Hd].
  - cbn [rt_res rt_log]. split; [exists E404; auto | intros d Hd; left; exact Hd].
Qed.
