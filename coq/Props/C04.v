(* C04 - routing-secret firewall: property theorems only. *)
From Coq Require Import String.
From Coq Require Import List NArith ZArith Bool.
From Verif Require Import GoStr GoHeader Tables Route Forward SpecC04 C04Proofs.
Import ListNotations.

(* For every header set, secret list, minted id and originating IP: the model of
   ensureInternalHeaders denies exactly the requests the property says must be
   denied, and what it lets through is exactly what a destination may receive. *)
Theorem C04_firewall :
  forall (h : hdrs) (internal : bool) (secrets : list str) (ip uuid : str),
    uuid <> [] -> ip <> [] -> (internal = true -> secrets <> []) ->
    match ensure_internal h internal secrets ip uuid with
    | EiOk d => must_deny h internal secrets = false /\ delivered_ok h internal secrets d
    | Ei407 => must_deny h internal secrets = true
    | EiPanic => False
    end.
Proof. intros. apply ensure_internal_correct; assumption. Qed.
Print Assumptions C04_firewall.

(* Nothing else is touched: every header other than the three keeps its values. *)
Theorem C04_frame :
  forall h internal secrets ip uuid d k,
    ensure_internal h internal secrets ip uuid = EiOk d -> ~ is_fw_name k -> hvalues d k = hvalues h k.
Proof. exact ensure_internal_frame. Qed.
Print Assumptions C04_frame.

(* Non-vacuity: a concrete internal request with a rotated (old) secret and a client id. *)
Example C04_example :
  let h := hset (hset [] hdr_secret (bytes "old"%string)) hdr_req_id (bytes "abc"%string) in
  ensure_internal h true [bytes "new"%string; bytes "old"%string] (bytes "10.0.0.1"%string) (bytes "u-1"%string)
  = EiOk (hset h hdr_orig_ip (bytes "10.0.0.1"%string)).
Proof. vm_compute. reflexivity. Qed.

(* At the route level (imports below are only used from here on). *)
From Verif Require Import Serve RouteProofs ForwardProofs.

(* A request carrying a secret that is not configured reaches no destination at all:
   for every ruleset (copy rules, retry rules), script and retry budget the log is unchanged
   and the result is an error. *)
Theorem C04_unknown_secret_reaches_no_destination :
  forall fuel c rs q body ov fb sc log,
    nonempty (hget (filter_header (q_hdrs q) hop_by_hop) hdr_secret) = true ->
    str_in (match c_secrets c with Some ss => ss | None => [] end)
           (hget (filter_header (q_hdrs q) hop_by_hop) hdr_secret) = false ->
    rt_log (route_request fuel c rs q body ov fb sc log) = log /\
    exists e, rt_res (route_request fuel c rs q body ov fb sc log) = inr e /\
              (e = E407 \/ e = E404 \/ e = E500 \/ e = EOutOfFuel).
Proof. intros. apply unknown_secret_reaches_nothing; assumption. Qed.
Print Assumptions C04_unknown_secret_reaches_no_destination.

(* Every request that does reach a destination went through the firewall: together with
   C03_headers_method_host_intact (whose last two conjuncts are must_deny = false and
   delivered_ok for that destination's internal flag), no destination ever receives a
   request the property says must be denied on its route. *)
Theorem C04_every_delivery_passed_the_firewall :
  forall fuel c rs q body ov fb sc log,
    exists extra, rt_log (route_request fuel c rs q body ov fb sc log) = log ++ extra /\
                  Forall (dlv_from c q body) extra.
Proof. exact route_request_log. Qed.
Print Assumptions C04_every_delivery_passed_the_firewall.
