(* C20 - traffic copying is invisible to the client. Property theorems only. *)
From Coq Require Import List NArith ZArith Bool.
From Verif Require Import GoStr GoHeader Tables Route Forward Serve C01Proofs RouteProofs ForwardProofs C20Proofs.
Import ListNotations.

(* The copy rule used is the first eligible copy-typed rule that precedes the selected
   proxy rule (or, when no proxy rule matches, the first eligible copy rule), for every
   ruleset and request. *)
Theorem C20_copy_is_first_copy_before_proxy :
  forall rs scheme host uri m,
    match snd (rules_match rs scheme host uri m) with
    | Some (k, r, t) =>
        (k < proxy_limit rs scheme host uri m 0)%nat /\
        nth_error rs k = Some r /\ is_proxy r = false /\
        code_applies r scheme host uri m = true /\ attempt_match r scheme host uri = Some t /\
        forall j r', (j < k)%nat -> nth_error rs j = Some r' ->
                     negb (is_proxy r') && code_applies r' scheme host uri m = false
    | None => forall j r', (j < proxy_limit rs scheme host uri m 0)%nat -> nth_error rs j = Some r' ->
                           negb (is_proxy r') && code_applies r' scheme host uri m = false
    end.
Proof.
  intros. pose proof (copy_match_first 0 rs scheme host uri m) as H. unfold rules_match.
  destruct (snd (rules_match_from 0 rs scheme host uri m None)) as [[[k r] t]|].
  - rewrite Nat.sub_0_r in H. tauto.
  - intros j r' Hj. apply H. simpl. exact Hj.
Qed.
Print Assumptions C20_copy_is_first_copy_before_proxy.

(* The copy destination receives what a proxied request would: every request sent, the
   copy included, is a createProxyRequest result carrying the complete body
   (C03_headers_method_host_intact describes such a request header by header). *)
Theorem C20_copy_request_is_a_proxied_request :
  forall fuel c rs q body ov fb sc log,
    exists extra, rt_log (route_request fuel c rs q body ov fb sc log) = log ++ extra /\
                  Forall (dlv_from c q body) extra.
Proof. exact route_request_log. Qed.
Print Assumptions C20_copy_request_is_a_proxied_request.
