(* C05 - every request gets one complete, well-formed response mirroring the origin.
   Property theorems only (the relay step and rrrouter's own answers; the full request
   paths are tied differentially and monitored, see DESIGN). *)
From Coq Require Import String.
From Coq Require Import List NArith ZArith Bool.
From Verif Require Import GoStr GoNum GoHeader Tables Route Forward Serve Meta Fresh Key Cache C05Proofs.
Import ListNotations.
Open Scope Z_scope.

(* Relaying a response: for every method other than HEAD, every status other than 204/304,
   every header set and every body, the client receives the origin's status and the whole
   body, uncut, provided the declared Content-Length (if any) is the real length. *)
Theorem C05_relay_is_complete :
  forall method status h body,
    str_eqb method s_HEADm = false -> status <> 304 -> status <> 204 ->
    (parse_int (hget h s_content_length) = None \/ parse_int (hget h s_content_length) = Some (Z.of_nat (length body))) ->
    mk_client method status h body = mkClient KOrigin status (wire_hdrs h) body false.
Proof. exact mk_client_relays. Qed.
Print Assumptions C05_relay_is_complete.

(* Every origin header whose name rrrouter does not set itself (richie-edge-cache, Age, the
   rule's response_headers, the range headers) keeps its value list: order, multiplicity. *)
Theorem C05_origin_headers_kept :
  forall origin always k,
    (forall kv, In kv always -> canon_key k <> canon_key (fst kv)) ->
    hvalues (clear_and_copy origin always) k = hvalues origin k.
Proof. exact clear_and_copy_frame. Qed.
Print Assumptions C05_origin_headers_kept.

(* When rrrouter answers by itself the answer is an error status (>= 400) in one of two
   well-formed shapes, never an empty success and never cut. *)
Theorem C05_own_answers_wellformed :
  forall e, e <> EPanic -> e <> EOutOfFuel ->
    400 <= cl_status (write_error e) /\ (cl_kind (write_error e) = KErrorJson \/ cl_kind (write_error e) = KBare)
    /\ cl_aborted (write_error e) = false.
Proof. exact write_error_wellformed. Qed.
Print Assumptions C05_own_answers_wellformed.

(* Non-vacuity: a 503 with repeated headers and a body, relayed with a rule override. *)
Example C05_example :
  let origin := [(bytes "Content-Type", [bytes "text/plain"]); (bytes "Set-Cookie", [bytes "a=1"; bytes "b=2"]); (bytes "X-Custom", [bytes "v1"])] in
  let always := [(bytes "X-Custom", [bytes "from-rule"]); (bytes "Richie-Edge-Cache", [bytes "pass"])] in
  mk_client (bytes "GET") 503 (clear_and_copy origin always) (bytes "down")
  = mkClient KOrigin 503 [(bytes "Richie-Edge-Cache", [bytes "pass"]); (bytes "X-Custom", [bytes "from-rule"]);
                          (bytes "Content-Type", [bytes "text/plain"]); (bytes "Set-Cookie", [bytes "a=1"; bytes "b=2"])] (bytes "down") false.
Proof. vm_compute. reflexivity. Qed.
