(* C06 - recompression never changes the decoded content. Property theorems only. *)
From Coq Require Import String.
From Coq Require Import List NArith ZArith Bool.
From Verif Require Import GoStr Sx Range Recompress SpecC06 Monitors C06Proofs C06AeProofs.
Import ListNotations.

(* For EVERY Accept-Encoding, Content-Encoding and Content-Type string the decision keeps
   the decoded content recoverable and delivers the origin's own encoding, one whose
   token occurs in Accept-Encoding, or none. *)
Theorem C06_decision_table_ok :
  forall ae ce ct,
    decision_ok ae ce (fst (get_recompression ae ce ct)) (snd (get_recompression ae ce ct)) = true.
Proof. exact decision_always_ok. Qed.
Print Assumptions C06_decision_table_ok.

(* With any codecs for which decoding undoes encoding (the only assumption about gzip and
   brotli, a Section hypothesis visible in the statement), a decision satisfying
   content_preserved yields a body whose decoding by the delivered Content-Encoding is
   exactly the origin's decoded content. *)
Theorem C06_decoded_content_equal :
  forall (enc : ctype -> str -> str) (dec : ctype -> str -> option str),
    (forall c x, dec c (enc c x) = Some x) -> (forall x, dec CNone x = Some x) ->
    forall ce ad rm content,
      content_preserved ce ad rm = true ->
      (is_identity ce = true \/ str_eqb ce s_gzip = true \/ str_eqb ce s_br = true) ->
      match transform enc dec ad rm (enc (codec_of ce) content) with
      | Some delivered => dec (codec_of (delivered_encoding ce ad rm)) delivered = Some content
      | None => False
      end.
Proof. exact decoded_content_equal. Qed.
Print Assumptions C06_decoded_content_equal.

(* Non-vacuity: a br-capable client and a gzip origin: gzip removed, brotli added. *)
Example C06_example :
  get_recompression (bytes "gzip, deflate, br") (bytes "gzip") (bytes "text/html") = (CBrotli, CGzip) /\
  get_recompression (bytes "gzip") (bytes "br") (bytes "text/html") = (CNone, CNone).
Proof. split; vm_compute; reflexivity. Qed.

(* With the cache in the loop: for EVERY sequence of clients, whatever each one's Accept-Encoding and whether or not it
   asks for a byte range, every answer - fetched from the origin or taken from the entry an earlier client's request
   filled - carries an encoding that is the origin's own, none, or one whose token occurs in THAT client's
   Accept-Encoding; a part cut out of a recompressed entry is a part of an entry that this very Accept-Encoding value is
   entitled to. (The cache keeps one entry per Accept-Encoding value; the correspondence run checks exactly this
   bookkeeping against the real server, cache and codecs.) *)
Theorem C06_cache_never_hands_out_an_unlisted_encoding :
  forall recomp ce ct cc content aes rngs,
    Forall2 (fun ae o => exists seen, seen_ok ce seen /\ obs_ok ce ae seen o) aes (run_ae recomp ce ct cc content aes rngs []).
Proof. intros. apply run_ae_allowed. constructor. Qed.
Print Assumptions C06_cache_never_hands_out_an_unlisted_encoding.

Example C06_cache_example :
  map obs_delivered (run_ae true [] (bytes "text/html") (bytes "max-age=600") (bytes "x")
                            [bytes "gzip, deflate, br"; bytes "gzip"; bytes "gzip, deflate, br"; bytes "-"] [] [])
  = [bytes "br"; bytes "gzip"; bytes "br"; []].
Proof. vm_compute. reflexivity. Qed.

(* a client that asks for bytes 10-19 while its body is recompressed gets the complete response on the fill (fix F41)
   and a part of the stored gzip bytes afterwards; one whose body is stored as sent gets exactly the ten bytes *)
Example C06_range_example :
  map (fun o => (sx_int (sx_nth 0 o), sx_str (sx_nth 2 o)))
      (run_ae true [] (bytes "text/plain") (bytes "max-age=600") (bytes "0123456789abcdefghijklmnop")
              [bytes "gzip"; bytes "gzip"; bytes "-"] [bytes "bytes=10-19"; bytes "bytes=10-19"; bytes "bytes=10-19"] [])
  = [(200%Z, bytes "0123456789abcdefghijklmnop"); (0%Z, []); (206%Z, bytes "abcdefghij")].
Proof. vm_compute. reflexivity. Qed.
