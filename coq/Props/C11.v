(* C11 - distinct resources never share a cache entry. Property theorems only. *)
From Coq Require Import String.
From Coq Require Import List NArith ZArith Bool.
From Verif Require Import GoStr GoHeader Tables Route Forward Key Cache C11Proofs C11KeyUri.
Import ListNotations.

(* The hashed string determines method, host, request-target, the key headers (names,
   values, multiplicity) and the opaque-origin flag, for all keys whose fields are free of
   LF and NUL (bytes HTTP does not allow in any of them). *)
Theorem C11_preimage_injective :
  forall k k', clean_key k -> clean_key k' -> preimage k = preimage k' ->
    k_method k = k_method k' /\ k_host k = k_host k' /\ k_path k = k_path k' /\
    sort_hdrs (k_stored k) = sort_hdrs (k_stored k') /\ k_opaque k = k_opaque k'.
Proof. exact preimage_injective. Qed.
Print Assumptions C11_preimage_injective.

(* With an injective hash (the standard idealisation of SHA-1, an explicit hypothesis)
   the on-disk entry name determines the same fields. *)
Theorem C11_entry_name_injective :
  forall (H : str -> str), (forall a b, H a = H b -> a = b) ->
    forall k k', clean_key k -> clean_key k' -> fs_name H k = fs_name H k' ->
      k_method k = k_method k' /\ k_host k = k_host k' /\ k_path k = k_path k' /\
      sort_hdrs (k_stored k) = sort_hdrs (k_stored k') /\ k_opaque k = k_opaque k'.
Proof. intros H Hinj k k'. apply fs_name_injective. exact Hinj. Qed.
Print Assumptions C11_entry_name_injective.

(* Non-vacuity: the boundary-moving pairs that collided before the repair now differ. *)
Example C11_example :
  let k1 := hd (mkKey [] [] [] false [] []) (keys_from_request (bytes "GET") (bytes "example.com") (bytes "/x") [(bytes "Accept-Encoding", [bytes "gzip"])]) in
  let k2 := hd (mkKey [] [] [] false [] []) (keys_from_request (bytes "GET") (bytes "example.com") (bytes "/xAccept-Encodinggzip") []) in
  let k3 := hd (mkKey [] [] [] false [] []) (keys_from_request (bytes "HEAD") (bytes "example.com") (bytes "/x") []) in
  let k4 := hd (mkKey [] [] [] false [] []) (keys_from_request (bytes "GET") (bytes "HEADexample.com") (bytes "/x") []) in
  str_eqb (preimage k1) (preimage k2) = false /\ str_eqb (preimage k3) (preimage k4) = false.
Proof. split; vm_compute; reflexivity. Qed.

(* The request-target that goes into the key is the URL the rule maps the request to WITH the client's query: for every
   rule, every request it matches and every pair of queries, equal keyed targets mean equal queries - also when the
   rule's destination has no $1 to carry the query (defect F45, repaired: before, /fixed/a?x=2 was served the entry
   of /fixed/a?x=1). Together with C11_preimage_injective: requests that differ in the query have different entries. *)
Theorem C11_query_is_part_of_the_key :
  forall dest q1 q2, keyed_target dest q1 = keyed_target dest q2 -> q1 = q2.
Proof. exact keyed_target_separates_queries. Qed.
Print Assumptions C11_query_is_part_of_the_key.

Theorem C11_key_uri_is_the_keyed_target :
  forall r q dest,
    attempt_match r (u_scheme (parse_url (q_url q))) (u_host (parse_url (q_url q))) (url_request_uri (parse_url (q_url q))) = Some dest ->
    key_uri r q = keyed_target dest (u_query (parse_url (q_url q))).
Proof. exact key_uri_is_keyed_target. Qed.
Print Assumptions C11_key_uri_is_the_keyed_target.

Example C11_query_example :
  keyed_target (bytes "http://origin.test/landing") (bytes "x=1") = bytes "origin.test/landing?x=1" /\
  keyed_target (bytes "http://origin.test/landing") (bytes "x=2") = bytes "origin.test/landing?x=2".
Proof. split; vm_compute; reflexivity. Qed.
