(* C01 - requests are routed by the first matching enabled rule, in file order.
   Property theorems only. *)
From Coq Require Import String.
From Coq Require Import List NArith ZArith Bool.
From Verif Require Import GoStr GoHeader Tables Route Forward Serve SpecC01 C01Proofs RouteProofs.
Import ListNotations.

(* Rules.Match, characterised exactly, for every ruleset and request: the proxy match is
   rule k with target t iff k is proxy-typed and eligible (enabled, method allowed,
   attemptMatch succeeds) and no proxy-typed rule before k is eligible; and there is no
   proxy match iff no proxy-typed rule is eligible. *)
Theorem C01_first_eligible_proxy_rule :
  forall rs scheme host uri m,
    match fst (rules_match rs scheme host uri m) with
    | Some (k, r, t) =>
        nth_error rs k = Some r /\ is_proxy r = true /\
        code_applies r scheme host uri m = true /\ attempt_match r scheme host uri = Some t /\
        forall j r', (j < k)%nat -> nth_error rs j = Some r' ->
                     is_proxy r' && code_applies r' scheme host uri m = false
    | None => forall j r', nth_error rs j = Some r' -> is_proxy r' && code_applies r' scheme host uri m = false
    end.
Proof.
  intros. pose proof (rules_match_first 0 rs scheme host uri m None) as H. unfold rules_match.
  destruct (fst (rules_match_from 0 rs scheme host uri m None)) as [[[k r] t]|]; [|exact H].
  rewrite Nat.sub_0_r in H. tauto.
Qed.
Print Assumptions C01_first_eligible_proxy_rule.

(* Rules after the selected one never influence the choice. *)
Theorem C01_later_rules_irrelevant :
  forall pre r post post' scheme host uri m,
    is_proxy r = true -> code_applies r scheme host uri m = true ->
    fst (rules_match (pre ++ r :: post) scheme host uri m) = fst (rules_match (pre ++ r :: post') scheme host uri m).
Proof. intros. apply later_rules_irrelevant; assumption. Qed.
Print Assumptions C01_later_rules_irrelevant.

(* Eligibility in the code refines the property's matching relation (scheme, host with
   the port dropped, exact or trailing-wildcard path): where the property says "must"
   the code matches, where it says "must not" the code does not. *)
Theorem C01_code_refines_property :
  forall r scheme hosthdr uri m, rule_valid r ->
    match applies r scheme hosthdr uri m with
    | Must => code_applies r scheme (drop_port hosthdr) uri m = true
    | MustNot => code_applies r scheme (drop_port hosthdr) uri m = false
    | DontCare => True
    end.
Proof. exact applies_refines. Qed.
Print Assumptions C01_code_refines_property.

(* Hence the rule the model selects always passes the property's checker - the same
   checker that is run over the implementation's observed choice. *)
Theorem C01_choice_meets_property :
  forall rs scheme hosthdr uri m, Forall rule_valid rs ->
    choice_ok rs scheme hosthdr uri m (midx (fst (rules_match rs scheme (drop_port hosthdr) uri m))) = true.
Proof. intros. apply choice_ok_from_model. assumption. Qed.
Print Assumptions C01_choice_meets_property.

(* No proxy rule matches: 404 (or the firewall's 407), and no destination receives a
   proxied request - only the copy destination, if one matched, is contacted. *)
Theorem C01_no_match_404 :
  forall fuel c rs q body ov sc log,
    str_in (q_badhosts q) (drop_port (q_host q)) = false ->
    fst (rules_match rs (req_scheme (q_tls q) (hget (q_hdrs q) (bytes "X-Forwarded-Proto")))
                     (drop_port (q_host q)) (q_uri q) (q_method q)) = None ->
    let out := route_request (S fuel) c rs q body ov None sc log in
    (exists e, rt_res out = inr e /\ (e = E404 \/ e = E407 \/ e = EPanic)) /\
    (forall d, In d (rt_log out) -> In d log \/
       exists i r t, snd (rules_match rs (req_scheme (q_tls q) (hget (q_hdrs q) (bytes "X-Forwarded-Proto")))
                                      (drop_port (q_host q)) (q_uri q) (q_method q)) = Some (i, r, t)
                     /\ d_url d = out_url t (q_query q)).
Proof. exact route_no_proxy_match. Qed.
Print Assumptions C01_no_match_404.

(* Non-vacuity: three overlapping rules; the disabled one and the wrong-method one are
   skipped, the first remaining match wins although a later rule also matches. *)
Definition ex_rule (en : bool) (path dest : string) (ms : list str) : rule :=
  mkRule en [] [] (bytes path) (bytes dest) false ms RProxy HDefault false [] 0%Z [] [] false None.
Example C01_example :
  midx (fst (rules_match
     [ex_rule false "/a/*" "http://d0/$1" [];
      ex_rule true "/a/*" "http://d1/$1" [bytes "POST"];
      ex_rule true "/a/*" "http://d2/$1" [];
      ex_rule true "/*" "http://d3/$1" []]
     (bytes "http") (bytes "h1") (bytes "/a/b?x=1") (bytes "GET"))) = Some 2%nat.
Proof. vm_compute. reflexivity. Qed.
