(* C18 - restart_on_redirect follows redirects through the rules and always terminates.
   Property theorems only (the termination mechanism; the walk itself - rule re-matching per
   hop, overrides, cache, fallback to the parent rule - is tied differentially over all
   redirect graphs on three URLs, see DESIGN). *)
From Coq Require Import String.
From Coq Require Import List NArith ZArith Bool.
From Verif Require Import GoStr GoNum GoHeader Tables Route Forward Serve Meta Fresh Key Cache C18Proofs.
Import ListNotations.

(* For EVERY sequence of redirect targets the origins may produce - any graph, any chain
   length, any Location spelling, cached hops or not - at most 10 are followed for one client
   request, no URL is followed twice, and none that is the client's own URL. *)
Theorem C18_bounded_hops :
  forall us k0, all_followed [k0] us = true ->
    (length us <= max_redirect_hops)%nat /\ NoDup (map follow_key us) /\
    (forall u, In u us -> follow_key u <> k0).
Proof.
  intros us k0 H. split; [apply (hops_at_most_eleven us k0 H)|].
  destruct (follows_bounded us [k0] H) as [_ [Hnd Hdis]]. split; [exact Hnd|].
  intros u Hu E. apply (Hdis u Hu). left. symmetry. exact E.
Qed.
Print Assumptions C18_bounded_hops.

(* A redirect to a URL already followed (a cycle of any length) is refused: 508. *)
Theorem C18_cycle_refused :
  forall seen u, In (follow_key u) seen -> may_follow seen u = false.
Proof. exact revisit_refused. Qed.
Print Assumptions C18_cycle_refused.

(* Non-vacuity: the cycle A -> B -> A on an uncached rule ends in 508 after three origin
   requests, for any amount of fuel above the hop bound. *)
Example C18_example :
  let rule h := mkRule true [] h (bytes "/*") (bytes "http://" ++ h ++ bytes "/$1") false [] RProxy HDefault false [] 0%Z [] [] true None in
  let entry := mkRule true [] [] (bytes "/start") (bytes "http://a.test/x") false [] RProxy HDefault false [] 0%Z [] [] true None in
  let redirect (to : string) := BResp (mkResp 302 [(bytes "Location", [bytes to])] []) in
  let c := mkMcfg (mkCfg None 0) [rule (bytes "a.test"); rule (bytes "b.test"); entry] [] None [] (fun s => s) in
  let st := mkState [] [(bytes "a.test", [redirect "http://b.test/y"%string]); (bytes "b.test", [redirect "http://a.test/x"%string])] 0%Z in
  let q := mkReq (bytes "GET") (bytes "client.test") false (bytes "/start") [] (bytes "/start") [] [] (bytes "127.0.0.1") (bytes "u") [] in
  let out := caching_func 16 c st q None [] None false [bytes "client.test/start"] [] in
  (cl_status (cf_client out), length (cf_log out)) = (508%Z, 3%nat).
Proof. vm_compute. reflexivity. Qed.
