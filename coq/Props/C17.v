(* C17 - eviction removes least recently used entries first, across restarts.
   Property theorems only. The reference for "last access" over a history is Spec/SpecC17.v. *)
From Coq Require Import String.
From Coq Require Import List NArith ZArith Bool Lia.
From Verif Require Import GoStr GoNum GoHeader Tables Limiter AssocFacts C16Proofs SpecC17 C17Proofs.
Import ListNotations.
Open Scope Z_scope.

(* What one pass selects, for EVERY state of the limiter: an entry with an access time is taken
   only if every entry without one is taken too, and no taken entry was used later than an entry
   with an access time that is left. *)
Theorem C17_unknown_first_then_oldest :
  forall l excess wo wi, NoDup (keys (l_with l)) -> purgeable l excess = (wo, wi) ->
    (wi <> [] -> forall n, In n (keys (l_without l)) -> In n wo)
    /\ (forall a b ta ka tb kb, In b wi -> ~ In a wi ->
          aget (l_with l) a = Some (ta, ka) -> aget (l_with l) b = Some (tb, kb) -> tb <= ta).
Proof. exact purge_order. Qed.
Print Assumptions C17_unknown_first_then_oldest.

(* For EVERY history of fills, hits, flushes, limiter passes, revalidations and restarts (clock
   readings below 2^32, no deletion behind the limiter's back), the access times the limiter holds
   are exactly the reference's last accesses: fills and hits both count, what was flushed before a
   restart survives it with its time, what was not is unknown. *)
Theorem C17_times_are_last_accesses :
  forall files max ops, NoDup (keys files) -> Forall in_scope_t ops ->
    let sr := ref_run (hinit files max) ref_init ops in
    times (l_with (fst (fst sr))) = r_use (snd sr).
Proof.
  intros files max ops ND Sc sr. destruct (init_invf files max ND) as [I R].
  destruct (run_rel ops _ _ I R Sc) as [_ R']. exact (rel_use _ _ R').
Qed.
Print Assumptions C17_times_are_last_accesses.

(* ... and therefore, after every such history, at the next pass of the limiter: if b is removed
   and a is still known to the limiter afterwards, then b's last access is unknown, or a's is known
   and not earlier than b's - an entry used more recently is never evicted while one used earlier,
   or never, remains. *)
Theorem C17_lru_over_histories :
  forall files max ops, NoDup (keys files) -> Forall in_scope_t ops ->
    let sr := ref_run (hinit files max) ref_init ops in
    lru_ok (snd sr) (fst (tick (fst (fst sr)))) (snd (tick (fst (fst sr)))).
Proof.
  intros files max ops ND Sc sr. destruct (init_invf files max ND) as [I R].
  destruct (run_rel ops _ _ I R Sc) as [I' R']. fold sr in I', R'.
  destruct (fst sr) as [l fs] eqn:E. cbn [fst] in *. apply (tick_lru l fs); assumption.
Qed.
Print Assumptions C17_lru_over_histories.

(* Non-vacuity: A filled, B filled, A hit, flush, restart, C filled: the pass removes B (last
   access 200) and keeps A (300), although A was filled first. *)
Example C17_example :
  let ops := [HAdd [65%N] 2048 100; HAdd [66%N] 2048 200; HAccess [65%N] 300; HFlush; HRestart; HAdd [67%N] 2048 400] in
  let sr := ref_run (hinit [] 4096) ref_init ops in
  Forall in_scope_t ops /\ snd (tick (fst (fst sr))) = [[66%N]]
  /\ r_use (snd sr) = [([65%N], 300); ([66%N], 200); ([67%N], 400)].
Proof. cbv zeta. split; [repeat constructor; cbn; lia|]. vm_compute. split; reflexivity. Qed.
