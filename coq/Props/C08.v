(* C08 - stored responses are served only while fresh, and then without origin traffic.
   Property theorems only (the freshness decision of cache.Get; the history-level statement
   is tied differentially and monitored, see DESIGN). *)
From Coq Require Import String.
From Coq Require Import List NArith ZArith Bool.
From Verif Require Import GoStr GoNum GoHeader Tables Route Forward Serve Meta Fresh Key Cache C08Proofs.
Import ListNotations.
Open Scope Z_scope.

(* For every disk content, clock value, rule setting and request: cache.Get hands an entry
   out as fresh (or answers a conditional request 304 from it) only within its explicit
   lifetime - s-maxage, else max-age, else Expires, capped by force_revalidate, with the
   age counted from the last revalidation or else from creation; past the lifetime the
   request becomes the revalidating writer unless the caller explicitly allows stale
   content (the stale-if-error re-entry). *)
Theorem C08_freshness_decision :
  forall c d now force skip keys dflt,
    match cache_get c d now force skip keys dflt with
    | (_, GFound f age stale) =>
        age = entry_age now (f_meta f) /\
        (stale = false <-> within_lifetime c now force (f_meta f)) /\
        (stale = true -> skip = true)
    | (_, GClient304 f age) => age = entry_age now (f_meta f) /\ within_lifetime c now force (f_meta f)
    | (_, GRevalWriter f age) => age = entry_age now (f_meta f) /\ ~ within_lifetime c now force (f_meta f) /\ skip = false
    | (_, GWriter _) => True
    end.
Proof. exact cache_get_decision. Qed.
Print Assumptions C08_freshness_decision.

(* Non-vacuity: an entry with max-age=60 created at t=1000 is fresh at 1059 and must be
   revalidated at 1060; after a revalidation at 1100 it is fresh again until 1160. *)
Definition ex_meta (reval : Z) : meta :=
  mkMeta (bytes "h") (bytes "/p") [] [(bytes "Cache-Control", [bytes "max-age=60"])] 200 [] 1000 reval 3.
Definition ex_cfg : mcfg := mkMcfg (mkCfg None 0) [] [] None [] (fun s => s).
Definition ex_key : key := mkKey [] (bytes "h") (bytes "/p") false [] [].
Definition ex_disk (reval : Z) : disk := [(fs_name (fun s => s) ex_key, mkEntry (encode_meta (ex_meta reval)) (bytes "abc"))].
Definition kind_of (r : disk * get_result) : nat :=
  match snd r with GFound _ _ false => 0 | GFound _ _ true => 1 | GClient304 _ _ => 2 | GWriter _ => 3 | GRevalWriter _ _ => 4 end%nat.
Example C08_example :
  map (fun p => kind_of (cache_get ex_cfg (ex_disk (fst p)) (snd p) 0 false [ex_key] ex_key))
      [(0, 1059); (0, 1060); (1100, 1159); (1100, 1160)]
  = [0; 4; 0; 4]%nat.
Proof. vm_compute. reflexivity. Qed.
