(* C10 - responses that must not be cached are never stored or shared. Property theorems
   only (kernel level: recognition of the forbidding directives). *)
From Coq Require Import String.
From Coq Require Import List NArith ZArith Bool.
From Verif Require Import GoStr GoNum GoHeader Tables Fresh C10Proofs.
Import ListNotations.

(* For every header set: if any comma-separated member of any Cache-Control line, trimmed
   of SP/HTAB and lower-cased, is no-store (which = 0), no-cache (1) or private (2), the
   response is classified uncacheable - whatever else the header says, in any position. *)
Theorem C10_bare_directive_forbids :
  forall which h, (which <= 2)%nat ->
    In (name_of which) (all_header_values s_cache_control h) ->
    do_not_cache (get_directives h) = true.
Proof. exact bare_directive_forbids. Qed.
Print Assumptions C10_bare_directive_forbids.

(* Non-vacuity: mixed case, HTAB padding, second header line. *)
Example C10_example :
  do_not_cache (get_directives [(bytes "Cache-Control", [bytes "public, max-age=60"; [9%N] ++ bytes "No-Store" ++ [32%N]])]) = true /\
  do_not_cache (get_directives [(bytes "Cache-Control", [bytes "public, max-age=60"])]) = false /\
  do_not_cache (get_directives [(bytes "Cache-Control", [bytes "s-maxage=0"])]) = true.
Proof. repeat split; vm_compute; reflexivity. Qed.
