(* C15 - Range requests on cached resources return exactly the requested bytes.
   Property theorems only (kernel level: the fixed-length path shared by hit and miss). *)
From Coq Require Import String.
From Coq Require Import List NArith ZArith Bool.
From Verif Require Import GoStr GoNum Range SpecC15 C15Proofs C15Parse.
Import ListNotations.
Open Scope Z_scope.

(* Every single range wholly inside a non-empty resource - from-to, from, suffix; any
   length, any offsets - is answered 206 with exactly those bytes, matching Content-Range
   and Content-Length. *)
Theorem C15_range_exact :
  forall r resource, let n := Z.of_nat (length resource) in
    0 < n -> wholly_inside r n = true ->
    exists a, range_answer (to_rr r) resource = Some a /\ answer_ok r resource a = true /\ an_status a = 206.
Proof. exact range_exact. Qed.
Print Assumptions C15_range_exact.

(* The full statement, for every resource (the empty one included) and every well-formed
   single range - any offsets, suffixes longer than the resource, bytes=-0: the answer is
   the exact 206, the complete 200, or a 416 for a range not wholly inside. No region is
   excluded any more: finding F13 is repaired (fix: dd0b389). *)
Theorem C15_every_answer_acceptable :
  forall r resource, wellformed r ->
    exists a, range_answer (to_rr r) resource = Some a /\ answer_ok r resource a = true.
Proof. exact range_answer_ok. Qed.
Print Assumptions C15_every_answer_acceptable.

(* From header bytes: every Range header of the strict single-range grammar (bytes=a-b,
   bytes=a-, bytes=-s; decimal digits of any number, leading zeros included) is read by the
   code's parser as the range it denotes - strings.Split on "bytes=" and "-", ParseInt and
   the sign trick for suffixes all included - and that range is well formed. *)
Theorem C15_parser_reads_the_grammar :
  forall h r, spec_parse_range h = Some r -> get_range h = Some (to_rr r) /\ wellformed r.
Proof. exact get_range_meets_grammar. Qed.
Print Assumptions C15_parser_reads_the_grammar.

(* ... and so, for every such header and every resource, what the client receives is the
   exact 206, the complete 200, or a 416 for a range not wholly inside. *)
Theorem C15_header_to_answer :
  forall h r resource, spec_parse_range h = Some r ->
    exists rr a, get_range h = Some rr /\ range_answer rr resource = Some a /\ answer_ok r resource a = true.
Proof. exact header_answer_ok. Qed.
Print Assumptions C15_header_to_answer.

(* The converse, for EVERY header string: whatever the code's parser accepts - inside the
   strict grammar or not (it is lenient: "bytes=+1-2", "xbytes=1-2") - is a well-formed
   single range, so no header can make setRangedHeaders / sendBody work with a negative start,
   an end before the start, or a positive "suffix". *)
Theorem C15_accepted_headers_are_wellformed :
  forall h rr, get_range h = Some rr -> exists r, wellformed r /\ rr = to_rr r.
Proof. exact get_range_is_wellformed. Qed.
Print Assumptions C15_accepted_headers_are_wellformed.

(* ... and is therefore answered as that range must be: exact 206, complete 200, or 416. *)
Theorem C15_any_accepted_header_to_answer :
  forall h rr resource, get_range h = Some rr ->
    exists r a, wellformed r /\ rr = to_rr r /\ range_answer rr resource = Some a /\ answer_ok r resource a = true.
Proof. exact accepted_header_answer_ok. Qed.
Print Assumptions C15_any_accepted_header_to_answer.

(* tests (not theorems): getRange on the three canonical spellings *)
Example C15_parse_samples :
  map get_range [bytes "bytes=2-5"; bytes "bytes=7-"; bytes "bytes=-3"; bytes "bytes=5-2"; bytes "bytes=1-2,4-5"]
  = [Some (to_rr (FromTo 2 5)); Some (to_rr (From 7)); Some (to_rr (Suffix 3)); None; None].
Proof. vm_compute. reflexivity. Qed.
