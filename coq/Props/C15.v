(* C15 - Range requests on cached resources return exactly the requested bytes.
   Property theorems only (kernel level: the fixed-length path shared by hit and miss). *)
From Coq Require Import String.
From Coq Require Import List NArith ZArith Bool.
From Verif Require Import GoStr GoNum Range SpecC15 C15Proofs.
Import ListNotations.
Open Scope Z_scope.

(* Every single range wholly inside a non-empty resource - from-to, from, suffix; any
   length, any offsets - is answered 206 with exactly those bytes, matching Content-Range
   and Content-Length. *)
Theorem C15_range_exact :
  forall r resource, let n := Z.of_nat (length resource) in
    0 < n -> wholly_inside r n = true ->
    exists a, range_answer (to_rr r) resource = Some a /\ answer_ok r resource a = true /\ an_status a = 206.
Proof. exact range_exact. Qed.
Print Assumptions C15_range_exact.

(* A from-to or from range reaching beyond the resource is answered 416. *)
Theorem C15_out_of_range_416 :
  forall r resource, let n := Z.of_nat (length resource) in
    0 < n -> wholly_inside r n = false ->
    match r with FromTo a b => 0 <= a <= b | From a => 0 <= a | Suffix _ => False end ->
    exists a, range_answer (to_rr r) resource = Some a /\ an_status a = 416.
Proof. exact out_of_range_416. Qed.
Print Assumptions C15_out_of_range_416.

(* Full statement "every answer is acceptable" outside the named region kf_C15_suffix
   (suffix length 0 or longer than the resource): *)
Theorem C15_answer_ok_partial :
  forall r resource, let n := Z.of_nat (length resource) in
    0 < n -> kf_C15_suffix r n = false ->
    match r with FromTo a b => 0 <= a <= b | From a => 0 <= a | Suffix _ => True end ->
    exists a, range_answer (to_rr r) resource = Some a /\ answer_ok r resource a = true.
Proof. exact range_answer_ok_partial. Qed.
Print Assumptions C15_answer_ok_partial.

(* ... and inside that region the full statement is false (finding F13). *)
Theorem C15_refuted :
  (range_answer (to_rr (Suffix 20)) (repeat 120%N 10) = None /\
   fst (set_ranged_headers (Some (to_rr (Suffix 20))) 10 200) = 206) /\
  (exists a, range_answer (to_rr (Suffix 0)) (repeat 120%N 10) = Some a /\ answer_ok (Suffix 0) (repeat 120%N 10) a = false).
Proof. split; [exact C15_refuted_suffix | exact C15_refuted_suffix0]. Qed.
Print Assumptions C15_refuted.

(* tests (not theorems): getRange on the three canonical spellings *)
Example C15_parse_samples :
  map get_range [bytes "bytes=2-5"; bytes "bytes=7-"; bytes "bytes=-3"; bytes "bytes=5-2"; bytes "bytes=1-2,4-5"]
  = [Some (to_rr (FromTo 2 5)); Some (to_rr (From 7)); Some (to_rr (Suffix 3)); None; None].
Proof. vm_compute. reflexivity. Qed.
