(* C16 - the cache size returns to the configured limit, and nothing is removed while within it.
   Property theorems only. The model is the limiter of Model/Limiter.v together with the files of
   its directory (hstep); the harness drives the real bookkeeping (readFiles, the op switch,
   purgeableItemNames, the atimes log) through the same histories and compares every state. *)
From Coq Require Import String.
From Coq Require Import List NArith ZArith Bool Lia.
From Verif Require Import GoStr GoNum GoHeader Tables Limiter AssocFacts C16Proofs.
Import ListNotations.
Open Scope Z_scope.

(* For EVERY history of fills, hits, log flushes, limiter passes and restarts - any number and
   order, any entries present at the start - whose entry sizes are whole KiB below 4 GiB and in
   which nothing changes the directory behind the limiter's back, the limiter's books are exact:
   its estimate is the number of bytes stored and it knows exactly the entries on disk. *)
Theorem C16_books_exact :
  forall files max ops, files_ok files -> 0 <= max -> Forall in_scope ops ->
    let s := hrun (hinit files max) ops in
    l_size (fst s) = fsum (snd s)
    /\ (forall n, (exists sz, aget (snd s) n = Some sz) <-> kibof (fst s) n <> None).
Proof.
  intros files max ops F M Sc s. pose proof (reachable_inv files max ops F M Sc) as I. fold s in I.
  split; [exact (inv_sf _ I)|]. intros n. split.
  - intros [sz H]. destruct (inv_fk _ I n sz H) as [_ K]. rewrite K. discriminate.
  - intros H. apply (inv_kf _ I). unfold kibof in H.
    destruct (aget (l_with (fst s)) n) as [[t k]|] eqn:E; [left; eapply aget_some_in_keys; exact E|].
    destruct (aget (l_without (fst s)) n) eqn:E2; [right; eapply aget_some_in_keys; exact E2|congruence].
Qed.
Print Assumptions C16_books_exact.

(* While the stored bytes are within the limit a pass of the limiter removes nothing and changes
   nothing - after every such history. *)
Theorem C16_no_eviction_within_limit :
  forall files max ops, files_ok files -> 0 <= max -> Forall in_scope ops ->
    let s := hrun (hinit files max) ops in
    fsum (snd s) <= max -> hstep s HTick = (s, []).
Proof.
  intros files max ops F M Sc s H. apply no_eviction_within_limit.
  - apply reachable_inv; assumption.
  - unfold s. rewrite hrun_max, hinit_max. exact H.
Qed.
Print Assumptions C16_no_eviction_within_limit.

(* After every such history, k passes of the limiter bring the stored bytes back to the limit, or
   down by k times maxPurgeBytes (150 MB) if the excess is larger than that: an excess of at most
   150 MB is gone after ONE pass. *)
Theorem C16_limit_restored :
  forall files max ops k, files_ok files -> 0 <= max -> Forall in_scope ops ->
    let s := hrun (hinit files max) ops in
    fsum (snd (hrun s (repeat HTick k))) <= Z.max max (fsum (snd s) - Z.of_nat k * max_purge_bytes).
Proof.
  intros files max ops k F M Sc s.
  pose proof (ticks_restore k s (reachable_inv files max ops F M Sc)) as T.
  unfold s in T at 2. rewrite hrun_max, hinit_max in T. exact T.
Qed.
Print Assumptions C16_limit_restored.

(* The statement without the size restriction is FALSE of the code (finding F14): entries are
   accounted in whole KiB, so ten entries of 1023 bytes count as nothing and are never reclaimed. *)
Theorem C16_refuted_small_entries :
  exists files max ops, NoDup (keys files) /\ 0 <= max /\
    let s := hrun (hinit files max) ops in
    forall k, (k <= 8)%nat -> max < fsum (snd (hrun s (repeat HTick k))).
Proof.
  exists [], 4096,
    (map (fun i => HAdd [i] 1023 (1700000000 + Z.of_N i)) [1; 2; 3; 4; 5; 6; 7; 8; 9; 10]%N).
  split; [constructor|]. split; [lia|]. intros s k Hk.
  do 9 (destruct k as [|k]; [vm_compute; reflexivity|]). lia.
Qed.
Print Assumptions C16_refuted_small_entries.

(* ... and a revalidation that stores a longer body is not reported to the limiter at all. *)
Theorem C16_refuted_unreported_growth :
  exists files max ops, files_ok files /\ 0 <= max /\
    let s := hrun (hinit files max) ops in
    max < fsum (snd (hrun s (repeat HTick 3))).
Proof.
  exists [], 4096, [HAdd [1%N] 2048 1700000000; HReplace [1%N] 8192].
  split; [split; [constructor|intros n sz []]|]. split; [lia|]. vm_compute. reflexivity.
Qed.
Print Assumptions C16_refuted_unreported_growth.

(* Non-vacuity: a history in scope that goes over the limit, and one pass restores it. *)
Example C16_example :
  let ops := [HAdd [1%N] 2048 1700000001; HAdd [2%N] 2048 1700000002; HAccess [1%N] 1700000003; HAdd [3%N] 1024 1700000004] in
  let s := hrun (hinit [([9%N], 1024)] 4096) ops in
  Forall in_scope ops /\ files_ok [([9%N], 1024)] /\
  fsum (snd s) = 6144 /\ snd (hstep s HTick) = [[9%N]; [2%N]] /\ fsum (snd (fst (hstep s HTick))) = 3072.
Proof.
  cbv zeta. split; [repeat constructor; cbn; unfold ok_size; lia|].
  split; [split; [repeat constructor; intros []|intros n sz [H|[]]; inversion H; unfold ok_size; lia]|].
  vm_compute. repeat split; reflexivity.
Qed.
