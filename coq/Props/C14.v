(* C14 - the on-disk cache survives a crash at any point.
   Property theorem only. The model (Model/Crash.v) is the sequence of file system effects of each
   storage operation and storage.Get's validation; the harness records the real sequence with strace,
   compares it with the model's, kills the real operation on entry to every one of those calls and
   hands the directory to a fresh storage. *)
From Coq Require Import String.
From Coq Require Import List NArith ZArith Bool Lia.
From Verif Require Import GoStr GoNum GoHeader Sx Tables Crash C14Proofs.
Import ListNotations.
Open Scope Z_scope.

(* For EVERY operation - a fill (any body, any split into writes, with or without Content-Length),
   a revalidation that stores a new body, a 304 revalidation, a fill under a changed key, a refill
   after an eviction, a rewrite of the access log - and EVERY number k of its file system effects
   that happened before the process died: what a restarted storage serves for the entry's name and
   for the changed key's name is nothing, or the complete body of the old version or of the new one
   under that version's metadata; and a name that is not served is free to be filled again. *)
Theorem C14_crash_safe :
  forall o old k s, in_scope_op o old -> (s = SEntry \/ s = SNew) ->
    let d := run_effects (pre_state o old) (firstn k (effects o)) in
    served_ok [old; new_of o old] (fst (recover d s)) /\ refillable d s.
Proof. exact crash_safe. Qed.
Print Assumptions C14_crash_safe.

(* Non-vacuity: a revalidation storing a new body, killed after the metadata of the .tmp file was
   set and before the rename: the old entry is served whole; killed one effect later: the new one. *)
Example C14_example :
  let old := mkVer (bytes "old-body") true in
  let o := ORevalBody [bytes "AAAA"; bytes "BB"] false in
  let d5 := run_effects (pre_state o old) (firstn 4 (effects o)) in
  let d6 := run_effects (pre_state o old) (firstn 5 (effects o)) in
  fst (recover d5 SEntry) = Hit old (bytes "old-body")
  /\ fst (recover d6 SEntry) = Hit (mkVer (bytes "AAAABB") false) (bytes "AAAABB").
Proof. vm_compute. split; reflexivity. Qed.
