(* C09 - revalidation and conditional requests never misreport content. Kernel level:
   the ETag helpers. (The history-level statements are tied differentially, see DESIGN.) *)
From Coq Require Import String.
From Coq Require Import List NArith ZArith Bool.
From Verif Require Import GoStr GoNum GoHeader Tables Fresh.
Import ListNotations.

(* Without ETAG_SUFFIX every ETag passes unchanged, in both directions. *)
Theorem C09_no_suffix_identity :
  forall e, add_etag_suffix None e = e /\ strip_etag_suffix None e = e.
Proof. intros e. split; reflexivity. Qed.
Print Assumptions C09_no_suffix_identity.

(* An ETag that already ends in the suffix is served as is (the suffix is never doubled). *)
Theorem C09_suffix_not_doubled :
  forall tok e, has_suffix (trim_right e s_quote) tok = true -> add_etag_suffix (Some tok) e = e.
Proof. intros tok e H. unfold add_etag_suffix. rewrite H. reflexivity. Qed.
Print Assumptions C09_suffix_not_doubled.

(* normalizeEtag removes exactly one weak prefix (after the repair of F24; with TrimLeft's
   cutset "W/" the unquoted ETags Wabc and abc compared equal). *)
Theorem C09_normalize_exact :
  forall e, normalize_etag (bytes "W/" ++ e) = e /\ (has_prefix e (bytes "W/") = false -> normalize_etag e = e).
Proof.
  intros e. split.
  - unfold normalize_etag, trim_prefix. rewrite has_prefix_app. reflexivity.
  - intros H. unfold normalize_etag, trim_prefix. rewrite H. reflexivity.
Qed.
Print Assumptions C09_normalize_exact.

(* tests on literals: strip undoes add for quoted, weak and unquoted ETags *)
Example C09_strip_add_samples :
  map (fun e => strip_etag_suffix (Some (bytes "-sfx")) (add_etag_suffix (Some (bytes "-sfx")) (bytes e)))
      ["""abc"""; "W/""abc"""; "abc"]%string
  = map bytes ["""abc"""; "W/""abc"""; "abc"]%string.
Proof. vm_compute. reflexivity. Qed.
