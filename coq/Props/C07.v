(* C07 - a cache hit replays exactly the response that was stored. Property theorems only
   (codec level; the history-level statement is tied differentially, see DESIGN). *)
From Coq Require Import String.
From Coq Require Import List NArith ZArith Bool.
From Verif Require Import GoStr GoNum GoHeader Meta C07Proofs.
Import ListNotations.

(* Framing: nine '|'-free fields of any content and length are recovered exactly. *)
Theorem C07_framing_roundtrip :
  forall f1 f2 f3 f4 f5 f6 f7 f8 f9 : str,
    Forall (fun a => ~ In 124%N a) [f1; f2; f3; f4; f5; f6; f7; f8; f9] ->
    split (f1 ++ s_bar ++ f2 ++ s_bar ++ f3 ++ s_bar ++ f4 ++ s_bar ++ f5 ++ s_bar ++ f6 ++ s_bar ++ f7 ++ s_bar ++ f8 ++ s_bar ++ f9) s_bar
    = [f1; f2; f3; f4; f5; f6; f7; f8; f9].
Proof. exact framing_roundtrip. Qed.
Print Assumptions C07_framing_roundtrip.

(* Any number of separator-free fields survives join + Split. *)
Theorem C07_split_join :
  forall c fs f, Forall (fun a => ~ In c a) (f :: fs) -> split (join (f :: fs) [c]) [c] = f :: fs.
Proof. exact split_join_free. Qed.
Print Assumptions C07_split_join.

(* The full statement "decode (encode m) = Some m for every record" is FALSE of the code
   (finding F6-delimiters): brackets are trimmed, and "]," or "|" inside
   a value make the entry undecodable. *)
Theorem C07_refuted :
  decode_meta (encode_meta (m0 [(bytes "X-A", [bytes "[two]"])])) = Some (m0 [(bytes "X-A", [bytes "two"])]) /\
  decode_meta (encode_meta (m0 [(bytes "X-A", [bytes "a],b"])])) = None /\
  decode_meta (encode_meta (m0 [(bytes "X-A", [bytes "a|b"])])) = None.
Proof.
  split; [exact C07_refuted_brackets|].
  split; [exact C07_refuted_close_comma | exact C07_refuted_bar].
Qed.
Print Assumptions C07_refuted.
