(* C07 - a cache hit replays exactly the response that was stored. Property theorems only
   (codec level; the history-level statement is tied differentially, see DESIGN). *)
From Coq Require Import String.
From Coq Require Import List NArith ZArith Bool.
From Verif Require Import GoStr GoNum GoHeader Meta C07Proofs NumRT C07Codec.
Import ListNotations.

(* Framing: nine '|'-free fields of any content and length are recovered exactly. *)
Theorem C07_framing_roundtrip :
  forall f1 f2 f3 f4 f5 f6 f7 f8 f9 : str,
    Forall (fun a => ~ In 124%N a) [f1; f2; f3; f4; f5; f6; f7; f8; f9] ->
    split (f1 ++ s_bar ++ f2 ++ s_bar ++ f3 ++ s_bar ++ f4 ++ s_bar ++ f5 ++ s_bar ++ f6 ++ s_bar ++ f7 ++ s_bar ++ f8 ++ s_bar ++ f9) s_bar
    = [f1; f2; f3; f4; f5; f6; f7; f8; f9].
Proof. exact framing_roundtrip. Qed.
Print Assumptions C07_framing_roundtrip.

(* Any number of separator-free fields survives join + Split. *)
Theorem C07_split_join :
  forall c fs f, Forall (fun a => ~ In c a) (f :: fs) -> split (join (f :: fs) [c]) [c] = f :: fs.
Proof. exact split_join_free. Qed.
Print Assumptions C07_split_join.

(* The full statement "decode (encode m) = Some m for every record" is FALSE of the code
   (finding F6-delimiters): brackets are trimmed, and "]," or "|" inside
   a value make the entry undecodable. *)
Theorem C07_refuted :
  decode_meta (encode_meta (m0 [(bytes "X-A", [bytes "[two]"])])) = Some (m0 [(bytes "X-A", [bytes "two"])]) /\
  decode_meta (encode_meta (m0 [(bytes "X-A", [bytes "a],b"])])) = None /\
  decode_meta (encode_meta (m0 [(bytes "X-A", [bytes "a|b"])])) = None.
Proof.
  split; [exact C07_refuted_brackets|].
  split; [exact C07_refuted_close_comma | exact C07_refuted_bar].
Qed.
Print Assumptions C07_refuted.

(* The codec round trip, for EVERY record outside the region of known finding F6-delimiters:
   any number of header names, any number of values per name (kept in order since fix
   F6-multi-valued), values of any length containing commas, colons, quotes, '=' ... as long as
   - host, path and redirect URL contain no '|',
   - names are canonical, pairwise distinct, and free of ':' ']' '{' '}' '|',
   - values contain neither '|' nor the two bytes "]," and neither begin nor end with '[' or ']',
   - the four numbers are int64 values.
   What the decoder returns is the stored record with each header block listed in the order of its
   names (headerToS sorts; Go's http.Header is a map, so the order of names carries no meaning). *)
Theorem C07_codec_roundtrip :
  forall m, meta_ok m -> decode_meta (encode_meta m) = Some (meta_sorted m).
Proof. exact codec_roundtrip. Qed.
Print Assumptions C07_codec_roundtrip.

(* ... of which the header block is the substantial part ... *)
Theorem C07_header_block_roundtrip :
  forall h, hdrs_ok h -> s_to_header (header_to_s h) = Some (sort_hdrs h).
Proof. exact s_to_header_roundtrip. Qed.
Print Assumptions C07_header_block_roundtrip.

(* ... and the numbers: strconv.ParseInt (strconv.FormatInt z) = z for every int64. *)
Theorem C07_number_roundtrip :
  forall z, (int64_min <= z <= int64_max)%Z -> parse_int (format_int z) = Some z.
Proof. exact parse_format_int. Qed.
Print Assumptions C07_number_roundtrip.

(* The hypothesis is met by ordinary responses (repeated Set-Cookie and Vary, quoted ETag,
   comma-separated Cache-Control, a path with brackets): *)
Example C07_codec_hypothesis_is_satisfiable :
  exists m, meta_ok m /\ length (m_resph m) = 4%nat /\ hvalues (m_resph m) (bytes "Set-Cookie") = [bytes "a=1; Path=/"; bytes "b=2"].
Proof. eexists. split; [exact meta_ok_sample|]. split; reflexivity. Qed.
