(* C12 - concurrent requests for one resource share one origin fetch, all served fully.
   Property theorems only, about the schedule model (Model/Coord.v): requests arrive, the origin
   answers fetches in any way, the clock advances; between two actions the server runs to
   quiescence. The harness runs the same schedules through the real server and disk cache with a
   gated origin and slow clients. What the model ASSUMES - the key's lock is held from the moment a
   request becomes the writer until its fetch is answered, and only its holder releases it - is what
   the lock-owner repair (fix: 8b57726) establishes in the code and what the tie checks. *)
From Coq Require Import String.
From Coq Require Import List NArith ZArith Bool Lia.
From Verif Require Import GoStr GoNum GoHeader Sx Tables Coord C12Proofs LockProto.
Import ListNotations.
Open Scope Z_scope.

(* For EVERY schedule - any number of requests, any arrival order, any answers of the origin (new
   version, 304, error status, failed connection, cut body), any clock advances - at most one fetch
   for the resource was ever in flight at once, whoever waits is waiting for a holder of the key,
   and every complete 200 carries a version the origin produced. *)
Theorem C12_one_fetch_all_served :
  forall maxage swr acts,
    let s := crun maxage swr co_init acts in
    (co_maxin s <= 1)%nat
    /\ (co_waiters s <> [] -> co_active s <> None)
    /\ Forall (fun p => o_status (snd p) = 200 /\ o_whole (snd p) = true -> 1 <= o_ver (snd p) <= co_version s) (co_done s).
Proof.
  intros maxage swr acts s. pose proof (C12Proofs.run_inv maxage swr acts co_init C12Proofs.inv_init) as I. fold s in I.
  split; [exact (i_max _ I)|]. split; [exact (i_wait _ I)|exact (i_done _ I)].
Qed.
Print Assumptions C12_one_fetch_all_served.

(* The lock protocol itself (caching.go getReaderOrWriter, readerNotifier, cache.Finish,
   storageWriter.notify) at the grain of its own steps: for ANY number of requests and EVERY
   interleaving of lookups, fetches, releases by holders (as many and as late as they like),
   releases by requests that hold nothing, handler returns and steps of readerNotifier, at most one
   origin fetch is in flight. This is what the schedule model above assumes. *)
Theorem C12_lock_protocol_one_fetch :
  forall n l, (in_flight (run true (init n) l) <= 1)%nat.
Proof. exact one_fetch_in_flight. Qed.
Print Assumptions C12_lock_protocol_one_fetch.

(* Without the owner check - the code before fix 8b57726 - the same statement is false (finding F18). *)
Theorem C12_refuted_without_owner_check :
  exists n l, in_flight (run false (init n) l) = 2%nat.
Proof. exact refuted_without_owner_check. Qed.
Print Assumptions C12_refuted_without_owner_check.

(* Non-vacuity: three requests share one fill; the entry expires; two more share one revalidation. *)
Example C12_example :
  let acts := [CArrive 0; CArrive 1; CArrive 2; CAnswer 0 ANew; CAdv 100; CArrive 3; CArrive 4; CAnswer 1 A304] in
  let s := crun 60 false co_init acts in
  co_nfetch s = 2%nat /\ co_maxin s = 1%nat /\ length (co_done s) = 5%nat /\ co_waiters s = [].
Proof. vm_compute. repeat split; reflexivity. Qed.
