(* C03 - every contacted destination receives the client's request intact.
   Property theorems only. *)
From Coq Require Import String.
From Coq Require Import List NArith ZArith Bool.
From Verif Require Import GoStr GoHeader Tables Route Forward Serve SpecC03 SpecC04 C04Proofs RouteProofs ForwardProofs.
Import ListNotations.

(* For every ruleset, request, performer script (any fault sequence), retry budget and
   retry_rule depth: every request rrrouter sends - proxy target, copy target, repeat
   attempt, retry_rule fallback - is a createProxyRequest result carrying the complete
   client body. *)
Theorem C03_every_delivery_carries_the_body :
  forall fuel c rs q body ov fb sc log,
    exists extra, rt_log (route_request fuel c rs q body ov fb sc log) = log ++ extra /\
                  Forall (dlv_from c q body) extra.
Proof. exact route_request_log. Qed.
Print Assumptions C03_every_delivery_carries_the_body.

(* ... and such a request has the client's method, the Host the rule's hostheader setting
   prescribes, no hop-by-hop header, and every other client header (outside the three
   firewall names, which C04 governs) with its value list unchanged. *)
Theorem C03_headers_method_host_intact :
  forall c q internal hh url d,
    q_uuid q <> [] -> request_ip (q_hdrs q) (q_remote_ip q) <> [] ->
    (forall ss, c_secrets c = Some ss -> internal = true -> ss <> []) ->
    create_proxy_request c q internal hh url = PqOk d ->
    d_url d = url /\ d_method d = q_method q /\
    d_host d = expected_host hh (q_host q) url /\
    (forall k, str_in (map canon_key hop_by_hop) (canon_key k) = true -> hvalues (d_hdrs d) k = []) /\
    (forall k, str_in (map canon_key hop_by_hop) (canon_key k) = false -> ~ is_fw_name k ->
               hvalues (d_hdrs d) k = hvalues (q_hdrs q) k) /\
    must_deny (filter_header (q_hdrs q) hop_by_hop) (fst (effective c internal)) (snd (effective c internal)) = false /\
    delivered_ok (filter_header (q_hdrs q) hop_by_hop) (fst (effective c internal)) (snd (effective c internal)) (d_hdrs d).
Proof. exact create_proxy_request_spec. Qed.
Print Assumptions C03_headers_method_host_intact.

(* Non-vacuity: PUT with a body, main destination refuses twice then answers 404, the
   retry_rule destination answers; four deliveries, each with the full body. *)
Example C03_example :
  let rr := mkRule true [] [] (bytes "/*") (bytes "http://retry.test/r/$1") false [] RProxy HOriginal false [] 0%Z [] [] false None in
  let r := mkRule true [] [] (bytes "/*") (bytes "http://main.test/m/$1") false [] RProxy HDefault false [] 0%Z [] [] false (Some rr) in
  let q := mkReq (bytes "PUT") (bytes "client.test") false (bytes "/x") [] (bytes "/x")
                 [(bytes "Connection", [bytes "close"]); (bytes "X-A", [bytes "1"; bytes "2"])]
                 (bytes "payload") (bytes "127.0.0.1") (bytes "u") [] in
  let sc := [(bytes "main.test", [BResp (mkResp 404 [] [])]); (bytes "retry.test", [BResp (mkResp 200 [] (bytes "ok"))])] in
  map (fun d => (d_url d, d_host d, d_body d, d_hdrs d))
      (rt_log (route_request 3 (mkCfg None 2) [r] q (bytes "payload") None (Some r) sc []))
  = [(bytes "http://main.test/m/x", bytes "main.test", bytes "payload", [(bytes "X-A", [bytes "1"; bytes "2"])]);
     (bytes "http://retry.test/r/x", bytes "client.test", bytes "payload", [(bytes "X-A", [bytes "1"; bytes "2"])])].
Proof. vm_compute. reflexivity. Qed.
