(* C19 - configurations are accepted or rejected whole; reload keeps the last good one.
   Property theorems only. The model (Model/Config.v) covers yamlconfig's clean-up, encoding/json's
   decoding into the rule and cache structs, NewRules/NewRule, ParseStorageConfigs and the reload
   step; YAML and JSON text parsing are Go libraries whose output trees the harness hands over. *)
From Coq Require Import String.
From Coq Require Import List NArith ZArith Bool Lia.
From Verif Require Import GoStr GoNum GoHeader Sx Tables Route Config C19Proofs.
Import ListNotations.
Open Scope Z_scope.

(* Every document is rejected or accepted (parse_rules is a total function into Ok/Err), and for
   EVERY accepted document every rule - retry rules at any depth included - has a non-empty path
   with at most one wildcard, in last position, a destination that is a URL, known methods only
   and a non-negative revalidation period; there is at least one rule. *)
Theorem C19_accepted_rules_wellformed :
  forall dest_ok v rules, parse_rules dest_ok v = Ok rules ->
    rules <> [] /\ Forall (rule_wf 8 dest_ok) rules.
Proof. exact accepted_rules_wellformed. Qed.
Print Assumptions C19_accepted_rules_wellformed.

(* ... and the accepted caches have distinct non-empty ids and distinct non-empty paths. *)
Theorem C19_accepted_caches_wellformed :
  forall size_of v cs, parse_storages size_of v = Ok cs -> storages_ok cs.
Proof. exact accepted_storages_wellformed. Qed.
Print Assumptions C19_accepted_caches_wellformed.

(* Two texts that parse to the same tree - the YAML and the JSON spelling of one configuration -
   are one configuration: same decision, same rules, same caches. *)
Theorem C19_spellings_agree :
  forall dest_ok size_of v1 v2, v1 = v2 ->
    parse_rules dest_ok v1 = parse_rules dest_ok v2 /\ parse_storages size_of v1 = parse_storages size_of v2.
Proof. exact same_tree_same_configuration. Qed.
Print Assumptions C19_spellings_agree.

(* A reload that fails to fetch, to parse, or to validate - the rules OR the caches - leaves rules,
   caches and checksum exactly as they were. *)
Theorem C19_failed_reload_keeps_everything :
  forall dest_ok size_of st f,
    match f with None => True | Some d => start dest_ok size_of d = None end ->
    reload dest_ok size_of st f = st.
Proof. exact failed_reload_keeps_everything. Qed.
Print Assumptions C19_failed_reload_keeps_everything.

(* A reload of a document that validates as a whole gives exactly the state a start on that
   document gives. *)
Theorem C19_good_reload_is_a_restart :
  forall dest_ok size_of st d st', start dest_ok size_of d = Some st' -> f_sum d <> rs_sum st ->
    reload dest_ok size_of st (Some d) = st'.
Proof. exact good_reload_is_a_restart. Qed.
Print Assumptions C19_good_reload_is_a_restart.

(* For EVERY sequence of reloads - good, bad, failed fetches, in any order - the server is in the
   state of a start on the last acceptable document of the sequence (the start-up document if there
   is none), provided equal checksums mean equal documents. *)
Theorem C19_reloads_keep_last_acceptable :
  forall dest_ok size_of fs d0 st0, start dest_ok size_of d0 = Some st0 -> sums_faithful d0 fs ->
    run dest_ok size_of st0 fs = last_acceptable dest_ok size_of fs st0.
Proof. intros dest_ok size_of fs. exact (reloads_keep_last_acceptable dest_ok size_of fs). Qed.
Print Assumptions C19_reloads_keep_last_acceptable.

(* Non-vacuity: a good document, a reload whose caches section is not a list (rejected as a whole:
   the new rules are NOT installed), a failed fetch, then a good document with another cache. *)
Example C19_example :
  let rule (d : string) := JObj [(bytes "path", JStr (bytes "/*")); (bytes "destination", JStr (bytes d))] in
  let cache (id : string) := JObj [(bytes "id", JStr (bytes id)); (bytes "path", JStr (bytes "/c/" ++ bytes id)); (bytes "size", JStr (bytes "1MB"))] in
  let doc (sum d : string) (caches : jv) := mkFetched (bytes sum) (Some (JObj [(bytes "rules", JArr [rule d]); (bytes "caches", caches)])) in
  let size_of (s : str) := if str_eqb s (bytes "1MB") then Some 1048576 else None in
  let ok (_ : str) := true in
  let d0 := doc "s0"%string "http://a.test/$1"%string (JArr [cache "c1"%string]) in
  let bad := doc "s1"%string "http://b.test/$1"%string (JStr (bytes "oops")) in
  let d2 := doc "s2"%string "http://c.test/$1"%string (JArr [cache "c2"%string]) in
  match start ok size_of d0 with
  | Some st0 =>
    let st1 := run ok size_of st0 [Some bad; None] in
    let st2 := run ok size_of st0 [Some bad; None; Some d2] in
    st1 = st0 /\ map r_dest (rs_rules st2) = [bytes "http://c.test/$1"] /\ map sc_id (rs_caches st2) = [bytes "c2"]
  | None => False
  end.
Proof. vm_compute. repeat split; reflexivity. Qed.
