(* C02 - destination URL = rule destination + wildcard capture; query kept verbatim.
   Property theorems only. *)
From Coq Require Import String.
From Coq Require Import List NArith ZArith Bool.
From Verif Require Import GoStr GoHeader Tables Route Forward SpecC01 SpecC02 C01Proofs C02Proofs.
Import ListNotations.

(* For a destination scheme://authority/rest whose scheme and authority contain neither a
   placeholder nor a delimiter, EVERY capture and EVERY query string give an outgoing URL
   with exactly that scheme and authority: the client cannot steer the host or port. *)
Theorem C02_authority_fixed :
  forall sch auth rest capture q,
    free_of sch [35; 36; 47; 58; 63]%N -> free_of auth [35; 36; 47; 63]%N ->
    exists t, split_abs (out_url (replace_first (sch ++ s_css ++ auth ++ 47%N :: rest) s_dollar1 capture) q)
              = Some (sch, auth, 47%N :: t).
Proof. exact authority_fixed. Qed.
Print Assumptions C02_authority_fixed.

(* The client's query string is carried over byte for byte, whatever the target's own. *)
Theorem C02_query_verbatim :
  forall target q, q <> [] -> url_query (out_url target q) = Some q.
Proof. exact out_url_query_verbatim. Qed.
Print Assumptions C02_query_verbatim.

(* The capture is exactly the request-target after the wildcard prefix (never empty),
   except for the documented root case. *)
Theorem C02_capture_is_suffix :
  forall r scheme host uri pre t,
    r_path r = pre ++ [42%N] -> ~ In 42%N pre ->
    attempt_match r scheme host uri = Some t ->
    (uri = [47%N] /\ (r_path r = [42%N] \/ r_path r = [47%N; 42%N]) /\ t = replace_first (r_dest r) s_dollar1 []) \/
    (exists cap, uri = pre ++ cap /\ cap <> [] /\ t = replace_first (r_dest r) s_dollar1 cap).
Proof. exact capture_is_suffix. Qed.
Print Assumptions C02_capture_is_suffix.

(* Only the first placeholder is substituted; a destination without one is used as is. *)
Theorem C02_replace_first_law :
  forall s old new,
    replace_first s old new =
    match index s old with
    | Some i => firstn i s ++ new ++ skipn (i + length old) s
    | None => s
    end.
Proof. exact replace_first_index. Qed.
Print Assumptions C02_replace_first_law.

(* The model's outgoing URL is the property's expected URL, for every valid rule. *)
Theorem C02_url_is_destination_plus_capture :
  forall r scheme host uri t q, rule_valid r -> attempt_match r scheme host uri = Some t ->
    out_url t q = expected_url (r_dest r) (r_path r) uri q.
Proof. exact expected_url_is_model. Qed.
Print Assumptions C02_url_is_destination_plus_capture.

(* Non-vacuity with hostile captures: '@', '//', ':' and an encoded slash. *)
Example C02_example :
  map (fun cap => split_abs (out_url (replace_first (bytes "http://d0.test:8080/base/$1") s_dollar1 (bytes cap)) (bytes "x=1")))
      ["@evil.test/"; "/evil.test/x"; "a:b@c"; "%2F..%2F"]%string
  = map (fun rest => Some (bytes "http", bytes "d0.test:8080", bytes rest))
      ["/base/@evil.test/?x=1"; "/base//evil.test/x?x=1"; "/base/a:b@c?x=1"; "/base/%2F..%2F?x=1"]%string.
Proof. vm_compute. reflexivity. Qed.
