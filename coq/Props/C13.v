(* C13 - a failed or aborted fetch never wedges or poisons its cache key.
   Property theorems only, about the schedule model (Model/Coord.v); see Props/C12.v. *)
From Coq Require Import String.
From Coq Require Import List NArith ZArith Bool Lia.
From Verif Require Import GoStr GoNum GoHeader Sx Tables Coord C12Proofs.
Import ListNotations.
Open Scope Z_scope.

(* For EVERY schedule, however its fetches ended (error status, failed connection, cut body
   included): once the fetch that is open is answered - and then the one a woken waiter starts, and
   so on, at most once per request that was holding or waiting - nobody holds the key and nobody
   waits: every request has been answered. The key is never wedged. *)
Theorem C13_never_wedged :
  forall maxage swr acts fuel,
    let s := crun maxage swr co_init acts in
    (load s <= fuel)%nat ->
    co_active (drain fuel maxage swr s) = None /\ co_waiters (drain fuel maxage swr s) = [].
Proof.
  intros maxage swr acts fuel s H. apply drain_serves_everyone; [exact H|].
  apply run_inv. exact inv_init.
Qed.
Print Assumptions C13_never_wedged.

(* ... and never poisoned: whatever happened before, no complete 200 - to a waiter of a failed
   fetch, to a later request - carries anything but a version the origin produced in full; the
   response cut by the origin goes, marked incomplete, only to the request whose own fetch it was
   (o_whole = false appears only as the outcome of that CAnswer). *)
Theorem C13_never_poisoned :
  forall maxage swr acts more,
    let s := crun maxage swr (crun maxage swr co_init acts) more in
    Forall (fun p => o_status (snd p) = 200 /\ o_whole (snd p) = true -> 1 <= o_ver (snd p) <= co_version s) (co_done s).
Proof.
  intros maxage swr acts more s.
  exact (i_done _ (run_inv maxage swr more _ (run_inv maxage swr acts co_init inv_init))).
Qed.
Print Assumptions C13_never_poisoned.

(* Non-vacuity: a fill is cut by the origin while two requests wait; one of them fetches again,
   the other is served from that; the request whose fetch was cut is the only incomplete one. *)
Example C13_example :
  let acts := [CArrive 0; CArrive 1; CArrive 2; CAnswer 0 ACut; CAnswer 1 ANew] in
  let s := crun 60 false co_init acts in
  map (fun p => (fst p, o_whole (snd p), o_ver (snd p))) (co_done s) = [(0%nat, false, 0); (1%nat, true, 2); (2%nat, true, 2)]
  /\ co_active s = None /\ co_waiters s = [].
Proof. vm_compute. repeat split; reflexivity. Qed.
