(* C03: every contacted destination receives the client's request intact. *)
From Coq Require Import List NArith ZArith Bool.
From Verif Require Import GoStr GoHeader Tables Route Forward Serve.
Import ListNotations.
Open Scope N_scope.

Definition fw_names : list str := map canon_key [hdr_secret; hdr_req_id; hdr_orig_ip].
Definition hop_names : list str := map canon_key hop_by_hop.

(* what the destination must see of the client's headers: overrides applied, hop-by-hop removed *)
Definition expected_hdrs (client : hdrs) (overrides : list (str * option str)) : hdrs :=
  filter (fun kv => negb (str_in hop_names (fst kv))) (preprocess_headers client overrides).

Definition same_values (a b : hdrs) (k : str) : bool :=
  let va := hvalues_raw a k in let vb := hvalues_raw b k in
  Nat.eqb (length va) (length vb) && forallb (fun p => str_eqb (fst p) (snd p)) (combine va vb).

(* delivered headers agree with the expected ones on every name outside the firewall's three *)
Definition hdrs_intact (expected delivered : hdrs) : bool :=
  forallb (fun k => str_in fw_names k || same_values expected delivered k) (hkeys expected ++ hkeys delivered).

Definition expected_host (hh : hostmode) (client_host url : str) : str :=
  match hh with
  | HDefault | HDestination => url_host url
  | HOriginal => client_host
  | HOverride s => s
  end.
