(* C06: what the recompression decision may be, as a function of the client's
   Accept-Encoding, the origin's Content-Encoding and Content-Type. *)
From Coq Require Import String.
From Coq Require Import List NArith ZArith Bool.
From Verif Require Import GoStr Recompress.
Import ListNotations.

(* the encoding the client ends up with *)
Definition delivered_encoding (ce : str) (ad rm : ctype) : str :=
  match ad with
  | CNone => match rm with CNone => ce | _ => [] end
  | c => enc_name c
  end.

Definition is_identity (ce : str) : bool := str_eqb ce [] || str_eqb ce s_identity.

(* decoding the delivered body by the delivered Content-Encoding gives the origin's decoded
   content iff: what is removed is exactly the origin's encoding, and nothing is added on
   top of an encoding that stays *)
Definition content_preserved (ce : str) (ad rm : ctype) : bool :=
  match rm with
  | CNone => match ad with CNone => true | _ => is_identity ce end
  | c => str_eqb ce (enc_name c)
  end.

(* the delivered encoding is the origin's own, or one whose token the client listed, or none *)
Definition encoding_allowed (ae ce : str) (ad rm : ctype) : bool :=
  let de := delivered_encoding ce ad rm in
  str_eqb de ce || is_identity de || contains ae de.

Definition decision_ok (ae ce : str) (ad rm : ctype) : bool :=
  content_preserved ce ad rm && encoding_allowed ae ce ad rm.
