(* C10: which Cache-Control values forbid caching, by the RFC 7234 token grammar. *)
From Coq Require Import String.
From Coq Require Import List NArith ZArith Bool.
From Verif Require Import GoStr GoNum GoHeader.
Import ListNotations.

Definition ows : str := [32%N; 9%N].
Definition spec_trim (s : str) : str := trim s ows.

Inductive verdict3 := Forbid | Allow | Unclear.

(* one directive: name[=value], case-insensitive name, OWS trimmed *)
Definition directive_verdict (tok : str) : verdict3 :=
  let t := spec_trim tok in
  match split2 t [61%N] with
  | [name] =>
    let n := to_lower (spec_trim name) in
    if str_eqb n (bytes "no-store") || str_eqb n (bytes "no-cache") || str_eqb n (bytes "private") then Forbid else Allow
  | [name; value] =>
    let n := to_lower (spec_trim name) in
    let v := spec_trim value in
    if str_eqb n (bytes "max-age") || str_eqb n (bytes "s-maxage") then
      (* a plain non-negative integer 0 forbids; quoted or otherwise odd values are unclear *)
      if forallb (fun c => N.eqb c 48) v && nonempty v then Forbid
      else if forallb is_digit v && nonempty v then Allow else Unclear
    else if str_eqb n (bytes "no-store") then Unclear
    else if str_eqb n (bytes "no-cache") || str_eqb n (bytes "private") then Unclear  (* qualified forms *)
    else Allow
  | _ => Allow
  end.

(* the same lifetime directive given twice with a zero and a non-zero value is contradictory: unclear *)
Definition names_lifetime (name : str) (tok : str) : option bool :=   (* Some true = zero, Some false = non-zero *)
  match split2 (spec_trim tok) [61%N] with
  | [n; v] => if str_eqb (to_lower (spec_trim n)) name then
                let v' := spec_trim v in
                Some (nonempty v' && forallb (fun c => N.eqb c 48) v')
              else None
  | _ => None
  end.

Definition contradictory (name : str) (toks : list str) : bool :=
  existsb (fun t => match names_lifetime name t with Some true => true | _ => false end) toks &&
  existsb (fun t => match names_lifetime name t with Some false => true | _ => false end) toks.

Definition header_verdict (values : list str) : verdict3 :=
  let toks := flat_map (fun v => split v [44%N]) values in
  let vs := map (fun t => match names_lifetime (bytes "max-age") t, names_lifetime (bytes "s-maxage") t with
                          | Some true, _ => if contradictory (bytes "max-age") toks then Unclear else Forbid
                          | _, Some true => if contradictory (bytes "s-maxage") toks then Unclear else Forbid
                          | _, _ => directive_verdict t
                          end) toks in
  if existsb (fun v => match v with Forbid => true | _ => false end) vs then Forbid
  else if existsb (fun v => match v with Unclear => true | _ => false end) vs then Unclear
  else Allow.
