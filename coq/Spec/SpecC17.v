(* C17, the reference: what "last access" of an entry means over a history with restarts.
   A fill or a hit at clock reading t makes t the entry's last access. A flush makes the accesses
   since the previous flush durable. A restart forgets what was not durable: the last access of an
   entry on disk is then its last durable one, or unknown. A purged entry is forgotten (its
   durable record stays in the log, to be overwritten when the name is filled again). *)
From Coq Require Import String.
From Coq Require Import List NArith ZArith Bool.
From Verif Require Import GoStr Limiter.
Import ListNotations.
Open Scope Z_scope.

Record ref := mkRef {
  r_use : list (str * Z);     (* last access of the entries the limiter has a time for *)
  r_pend : list (str * Z);    (* accesses since the last flush *)
  r_pers : list (str * Z)     (* durable accesses *)
}.

Definition on_disk (files : list (str * Z)) (n : str) : bool :=
  match aget files n with Some _ => true | None => false end.

Definition ref_step (r : ref) (files : list (str * Z)) (o : hop) (purged : list str) : ref :=
  match o with
  | HAdd n _ t =>
    if on_disk files n then r      (* no fill: the entry is there *)
    else mkRef (aput (r_use r) n t) (aput (r_pend r) n t) (r_pers r)
  | HAccess n t =>
    if on_disk files n then mkRef (aput (r_use r) n t) (aput (r_pend r) n t) (r_pers r)
    else r                         (* no hit: the entry is not there *)
  | HFlush => mkRef (r_use r) [] (fold_left (fun m p => aput m (fst p) (snd p)) (r_pend r) (r_pers r))
  | HTick => mkRef (fold_left (fun m n => adel m n) purged (r_use r)) (r_pend r) (r_pers r)
  | HRestart => mkRef (filter (fun p => on_disk files (fst p)) (r_pers r)) [] (r_pers r)
  | HExtDel _ | HReplace _ _ => r
  end.

Definition ref_init : ref := mkRef [] [] [].

(* the history run with the reference alongside the model *)
Fixpoint ref_run (s : hstate) (r : ref) (ops : list hop) : hstate * ref :=
  match ops with
  | [] => (s, r)
  | o :: rest =>
    let '(s', purged) := hstep s o in
    ref_run s' (ref_step r (snd s) o purged) rest
  end.

(* The property at a pass of the limiter: b was removed, a is still known to the limiter.
   Then b's last access is unknown, or a's is known and not earlier than b's. *)
Definition lru_ok (r : ref) (l' : lim) (purged : list str) : Prop :=
  forall a b, In b purged ->
    (exists v, aget (l_with l') a = Some v) \/ (exists k, aget (l_without l') a = Some k) ->
    match aget (r_use r) b with
    | None => True
    | Some tb => exists ta, aget (r_use r) a = Some ta /\ tb <= ta
    end.
