(* C01: first matching enabled rule wins. The matching relation as the property
   text states it, three-valued where the text is silent. *)
From Coq Require Import List NArith ZArith Bool.
From Verif Require Import GoStr GoHeader Tables Route.
Import ListNotations.
Open Scope N_scope.

Inductive tri := Must | MustNot | DontCare.

(* Host with an optional port removed; bracketed IPv6 literals lose their brackets. *)
Definition spec_host (h : str) : str :=
  match h with
  | c :: rest =>
    if N.eqb c 91 then match last_index_byte rest 93 with Some i => firstn i rest | None => h end
    else match last_index_byte h 58 with Some i => firstn i h | None => h end
  | [] => []
  end.

Definition all_digits (s : str) : bool := forallb (fun c => (48 <=? c) && (c <=? 57)) s.

(* reg-name[:port] or [literal][:port]; for anything else the property does not say what "the host" is *)
Definition host_wellformed (h : str) : bool :=
  match h with
  | c :: rest =>
    if N.eqb c 91 then
      match last_index_byte rest 93 with
      | Some i => let after := skipn (S i) rest in
                  negb (mem_byte 91 (firstn i rest)) && negb (mem_byte 93 (firstn i rest)) &&
                  match after with [] => true | d :: p => N.eqb d 58 && all_digits p end
      | None => false
      end
    else negb (N.eqb c 58) && negb (mem_byte 91 h) && negb (mem_byte 93 h) &&
         match index_byte h 58 with
         | Some i => all_digits (skipn (S i) h)
         | None => true
         end
  | [] => true
  end.

(* pattern without its trailing '*', when it has one *)
Definition wildcard_prefix (p : str) : option str :=
  match rev p with 42 :: r => Some (rev r) | _ => None end.

Definition path_matches (pat uri : str) : tri :=
  match wildcard_prefix pat with
  | Some pre =>
    if str_eqb uri [47] && (str_eqb pat [42] || str_eqb pat [47; 42]) then Must   (* documented root case *)
    else if has_prefix uri pre then
      if Nat.ltb (length pre) (length uri) then Must else DontCare   (* empty capture: the text is silent *)
    else MustNot
  | None =>
    if str_eqb pat uri then Must
    else if has_prefix uri (pat ++ [63]) then DontCare   (* exact pattern, request carries a query *)
    else MustNot
  end.

Definition constraint_ok (c v : str) : bool := match c with [] => true | _ => str_eqb c v end.

(* does rule r apply to the request (scheme, Host header, request-target, method)? *)
Definition applies (r : rule) (scheme hosthdr uri m : str) : tri :=
  if negb (r_enabled r) then MustNot
  else if negb (method_ok r m) then MustNot
  else if negb (constraint_ok (r_scheme r) scheme) then MustNot
  else if nonempty (r_host r) && negb (host_wellformed hosthdr) then
    (match path_matches (r_path r) uri with MustNot => MustNot | _ => DontCare end)
  else if negb (constraint_ok (r_host r) (spec_host hosthdr)) then MustNot
  else path_matches (r_path r) uri.

Definition tri_is (a b : tri) : bool :=
  match a, b with Must, Must | MustNot, MustNot | DontCare, DontCare => true | _, _ => false end.

(* choice = index of the proxy rule that served the request, None for 404 *)
Fixpoint choice_ok_from (i : nat) (rs : list rule) (scheme hosthdr uri m : str) (choice : option nat) : bool :=
  match rs with
  | [] => match choice with None => true | Some _ => false end
  | r :: rs' =>
    if is_proxy r then
      match choice with
      | Some c =>
        if Nat.eqb c i then negb (tri_is (applies r scheme hosthdr uri m) MustNot)
        else negb (tri_is (applies r scheme hosthdr uri m) Must)
             && choice_ok_from (S i) rs' scheme hosthdr uri m choice
      | None => negb (tri_is (applies r scheme hosthdr uri m) Must)
                && choice_ok_from (S i) rs' scheme hosthdr uri m choice
      end
    else match choice with
         | Some c => if Nat.eqb c i then false else choice_ok_from (S i) rs' scheme hosthdr uri m choice
         | None => choice_ok_from (S i) rs' scheme hosthdr uri m choice
         end
  end.

Definition choice_ok (rs : list rule) (scheme hosthdr uri m : str) (choice : option nat) : bool :=
  choice_ok_from 0 rs scheme hosthdr uri m choice.
