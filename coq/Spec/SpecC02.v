(* C02: destination URL = rule destination + wildcard capture; query verbatim. *)
From Coq Require Import List NArith ZArith Bool.
From Verif Require Import GoStr GoHeader Tables Route Forward SpecC01.
Import ListNotations.
Open Scope N_scope.

(* the text matched by the trailing wildcard *)
Definition spec_capture (pat uri : str) : str :=
  match wildcard_prefix pat with
  | Some pre => if str_eqb uri [47] && (str_eqb pat [42] || str_eqb pat [47; 42]) then []
                else skipn (length pre) uri
  | None => []
  end.

Definition before_any (s : str) (stop : str) : str := take_until s stop.

(* destination with $1 replaced once, its own query/fragment dropped, the client's query appended *)
Definition expected_url (dest pat uri q : str) : str :=
  (* a pattern without a wildcard matches no text: the destination is used as written *)
  let t := match wildcard_prefix pat with
           | Some _ => replace_first dest s_dollar1 (spec_capture pat uri)
           | None => dest
           end in
  let base := before_any t [63; 35] in
  let forced := match cut_at (fst (cut_at t 35)) 63 with (_, Some []) => true | _ => false end in
  base ++ (if forced || nonempty q then 63 :: q else []).

(* scheme://authority/... destinations whose scheme and authority contain no placeholder *)
Definition dest_wellformed (dest : str) : bool :=
  match split_abs dest with
  | Some (sch, auth, rest) =>
    nonempty auth && has_prefix rest [47] && negb (contains (sch ++ s_css ++ auth) s_dollar1)
  | None => false
  end.

Definition same_origin (dest url : str) : bool :=
  match split_abs dest, split_abs url with
  | Some (s1, a1, _), Some (s2, a2, _) => str_eqb s1 s2 && str_eqb a1 a2
  | _, _ => false
  end.

Definition url_query (u : str) : option str := snd (cut_at u 63).
