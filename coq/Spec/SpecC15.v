(* C15: what a single byte range over a resource of n bytes may be answered with. *)
From Coq Require Import List NArith ZArith Bool.
From Verif Require Import GoStr GoNum Range.
Import ListNotations.
Open Scope Z_scope.

(* the three RFC 7233 single-range forms *)
Inductive brange := FromTo (a b : Z) | From (a : Z) | Suffix (s : Z).

(* the bytes a range names in a resource of length n: Some (first, last), or None when
   it names none (unsatisfiable) *)
Definition resolve (r : brange) (n : Z) : option (Z * Z) :=
  match r with
  | FromTo a b => if (0 <=? a) && (a <=? b) && (a <? n) then Some (a, Z.min b (n - 1)) else None
  | From a => if (0 <=? a) && (a <? n) then Some (a, n - 1) else None
  | Suffix s => if (0 <? s) && (0 <? n) then Some (Z.max 0 (n - s), n - 1) else None
  end.

Definition wholly_inside (r : brange) (n : Z) : bool :=
  match r with
  | FromTo a b => (0 <=? a) && (a <=? b) && (b <? n)
  | From a => (0 <=? a) && (a <? n)
  | Suffix s => (0 <? s) && (s <=? n)
  end.

(* an answer: status, Content-Length and Content-Range when present, body *)
Record answer := mkAnswer { an_status : Z; an_cl : option Z; an_cr : option (Z * Z * Z); an_body : str }.

Definition slice (body : str) (first last : Z) : str := take body first (last - first + 1).

(* 206 with exactly the named bytes, or the complete 200, or 416 when the range is not
   wholly inside the resource; nothing else *)
Definition answer_ok (r : brange) (resource : str) (a : answer) : bool :=
  let n := Z.of_nat (length resource) in
  if an_status a =? 206 then
    match resolve r n, an_cr a, an_cl a with
    | Some (f, l), Some (f', l', n'), Some cl =>
      (f =? f') && (l =? l') && (n =? n') && (cl =? l - f + 1) && str_eqb (an_body a) (slice resource f l)
    | _, _, _ => false
    end
  else if an_status a =? 200 then
    str_eqb (an_body a) resource &&
    match an_cl a with Some cl => cl =? n | None => true end &&
    match an_cr a with None => true | Some _ => false end
  else if an_status a =? 416 then negb (wholly_inside r n)
  else false.

(* the strict single-range grammar: bytes=a-b | bytes=a- | bytes=-s, decimal digits only *)
Definition digits_only (s : str) : bool := nonempty s && forallb is_digit s.

Definition spec_parse_range (h : str) : option brange :=
  let p := (98 :: 121 :: 116 :: 101 :: 115 :: 61 :: nil)%N in   (* "bytes=" *)
  if negb (has_prefix h p) then None else
  let bs := skipn 6 h in
  match split bs (45 :: nil)%N with
  | [a; b] =>
    match a, b with
    | [], _ => if digits_only b then match parse_int b with Some s => Some (Suffix s) | None => None end else None
    | _, [] => if digits_only a then match parse_int a with Some x => Some (From x) | None => None end else None
    | _, _ => if digits_only a && digits_only b then
                match parse_int a, parse_int b with
                | Some x, Some y => if (x <=? y)%Z then Some (FromTo x y) else None
                | _, _ => None
                end
              else None
    end
  | _ => None
  end.
