(* C04: routing-secret firewall. The property as a relation between what the
   client sent and what a destination received, with an equivalent boolean checker. *)
From Coq Require Import List NArith ZArith Bool.
From Verif Require Import GoStr GoHeader Tables Route.
Import ListNotations.

Section Spec.
  Variable client : hdrs.          (* client headers (after hop-by-hop filtering) *)
  Variable internal : bool.        (* effective: rule flag, and secrets are configured *)
  Variable secrets : list str.
  Variable uuid : str.             (* the value rrrouter would mint *)

  Definition c_secret := hget client hdr_secret.
  Definition c_id := hget client hdr_req_id.
  Definition c_ip := hget client hdr_orig_ip.

  Definition client_secret_valid : bool := nonempty c_secret && str_in secrets c_secret.

  (* must the request be denied? *)
  Definition must_deny : bool :=
    (nonempty c_secret && negb (str_in secrets c_secret))
    || (internal && negb (nonempty c_secret) && (nonempty c_id || nonempty c_ip)).

  (* what a destination may receive *)
  Definition delivered_ok (d : hdrs) : Prop :=
    if internal then
      (* a valid secret: the client's if it supplied a valid one, else the first configured *)
      str_in secrets (hget d hdr_secret) = true /\
      (if client_secret_valid then hget d hdr_secret = c_secret
       else Some (hget d hdr_secret) = hd_error secrets) /\
      hget d hdr_req_id <> [] /\ hget d hdr_orig_ip <> [] /\
      (* client id / IP kept only with a valid secret; with one, kept when supplied *)
      (if client_secret_valid then
         (c_id <> [] -> hget d hdr_req_id = c_id) /\ (c_ip <> [] -> hget d hdr_orig_ip = c_ip)
       else c_id = [] /\ c_ip = [])
    else
      hhas d hdr_secret = false /\ hhas d hdr_req_id = false /\ hhas d hdr_orig_ip = false.

  Definition delivered_ok_b (d : hdrs) : bool :=
    if internal then
      str_in secrets (hget d hdr_secret) &&
      (if client_secret_valid then str_eqb (hget d hdr_secret) c_secret
       else match hd_error secrets with Some s0 => str_eqb (hget d hdr_secret) s0 | None => false end) &&
      nonempty (hget d hdr_req_id) && nonempty (hget d hdr_orig_ip) &&
      (if client_secret_valid then
         (negb (nonempty c_id) || str_eqb (hget d hdr_req_id) c_id) &&
         (negb (nonempty c_ip) || str_eqb (hget d hdr_orig_ip) c_ip)
       else negb (nonempty c_id) && negb (nonempty c_ip))
    else negb (hhas d hdr_secret) && negb (hhas d hdr_req_id) && negb (hhas d hdr_orig_ip).
End Spec.

Lemma nonempty_false s : nonempty s = false <-> s = [].
Proof. destruct s; simpl; split; congruence. Qed.
Lemma nonempty_true s : nonempty s = true <-> s <> [].
Proof. destruct s; simpl; split; congruence. Qed.

Lemma delivered_ok_b_spec client internal secrets d :
  delivered_ok_b client internal secrets d = true <-> delivered_ok client internal secrets d.
Proof.
  unfold delivered_ok_b, delivered_ok. destruct internal.
  - destruct (client_secret_valid client secrets) eqn:V.
    + rewrite !andb_true_iff, !orb_true_iff, !negb_true_iff, !nonempty_false, !nonempty_true, !str_eqb_eq.
      split.
      * intros [[[[H1 H2] H3] H4] [H5 H6]]. repeat split; auto.
        -- intros Hn. destruct H5 as [H5|H5]; [contradiction | exact H5].
        -- intros Hn. destruct H6 as [H6|H6]; [contradiction | exact H6].
      * intros [H1 [H2 [H3 [H4 [H5 H6]]]]]. repeat split; auto.
        -- destruct (c_id client) eqn:E; [left; reflexivity | right; apply H5; discriminate].
        -- destruct (c_ip client) eqn:E; [left; reflexivity | right; apply H6; discriminate].
    + destruct (hd_error secrets) as [s0|] eqn:Hs.
      * rewrite !andb_true_iff, !negb_true_iff, !nonempty_false, !nonempty_true, !str_eqb_eq.
        split.
        -- intros [[[[H1 H2] H3] H4] [H5 H6]]. repeat split; auto. congruence.
        -- intros [H1 [H2 [H3 [H4 [H5 H6]]]]]. repeat split; auto. congruence.
      * split.
        -- rewrite !andb_true_iff. intros [[[[_ H] _] _] _]. discriminate.
        -- intros [_ [H _]]. discriminate.
  - rewrite !andb_true_iff, !negb_true_iff. tauto.
Qed.
