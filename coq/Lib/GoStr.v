(* Go `strings` functions over byte strings, as executable Gallina.
   str := list N (byte values; nothing here depends on bytes being < 256
   except to_lower/to_upper which only touch the ASCII letter ranges). *)
From Coq Require Export List NArith ZArith Bool Lia.
From Coq Require String Ascii.
From Coq.Strings Require Import Byte.
Export ListNotations.
Open Scope N_scope.

Definition str := list N.

Definition bytes (s : String.string) : str :=
  List.map Byte.to_N (String.list_byte_of_string s).

Fixpoint str_eqb (a b : str) : bool :=
  match a, b with
  | [], [] => true
  | x :: a', y :: b' => N.eqb x y && str_eqb a' b'
  | _, _ => false
  end.

Lemma str_eqb_eq a b : str_eqb a b = true <-> a = b.
Proof.
  revert b; induction a as [|x a IH]; intros [|y b]; simpl; split; intros H;
    try reflexivity; try discriminate.
  - apply andb_true_iff in H as [H1 H2]. apply N.eqb_eq in H1. apply IH in H2. congruence.
  - inversion H; subst. rewrite N.eqb_refl. simpl. apply IH. reflexivity.
Qed.

Lemma str_eqb_refl a : str_eqb a a = true.
Proof. apply str_eqb_eq. reflexivity. Qed.

Lemma str_eqb_neq a b : str_eqb a b = false <-> a <> b.
Proof.
  split; intros H.
  - intros E. apply str_eqb_eq in E. congruence.
  - destruct (str_eqb a b) eqn:E; [apply str_eqb_eq in E; contradiction | reflexivity].
Qed.

Definition str_eq_dec (a b : str) : {a = b} + {a <> b}.
Proof. apply (list_eq_dec N.eq_dec). Defined.

Definition nonempty (s : str) : bool := match s with [] => false | _ => true end.

(* strings.HasPrefix s p *)
Fixpoint has_prefix (s p : str) {struct p} : bool :=
  match p, s with
  | [], _ => true
  | y :: p', x :: s' => N.eqb x y && has_prefix s' p'
  | _ :: _, [] => false
  end.

Lemma has_prefix_spec s p : has_prefix s p = true <-> exists t, s = p ++ t.
Proof.
  revert s; induction p as [|y p IH]; intros s; simpl.
  - split; [intros _; exists s; reflexivity | reflexivity].
  - destruct s as [|x s]; split; intros H; try discriminate.
    + destruct H as [t Ht]. discriminate.
    + apply andb_true_iff in H as [H1 H2]. apply N.eqb_eq in H1. apply IH in H2 as [t Ht].
      exists t. subst. reflexivity.
    + destruct H as [t Ht]. inversion Ht; subst. rewrite N.eqb_refl. simpl. apply IH. exists t. reflexivity.
Qed.

Lemma has_prefix_app p t : has_prefix (p ++ t) p = true.
Proof. apply has_prefix_spec. exists t. reflexivity. Qed.

Definition has_suffix (s p : str) : bool := has_prefix (rev s) (rev p).

Lemma has_suffix_spec s p : has_suffix s p = true <-> exists t, s = t ++ p.
Proof.
  unfold has_suffix. rewrite has_prefix_spec. split; intros [t Ht].
  - exists (rev t). rewrite <- (rev_involutive s), Ht, rev_app_distr, rev_involutive. reflexivity.
  - exists (rev t). subst. apply rev_app_distr.
Qed.

(* strings.Index s sub : position of first occurrence, None for -1 *)
Fixpoint index (s sub : str) : option nat :=
  if has_prefix s sub then Some 0%nat else
  match s with
  | [] => None
  | _ :: s' => match index s' sub with Some i => Some (S i) | None => None end
  end.

Definition contains (s sub : str) : bool :=
  match index s sub with Some _ => true | None => false end.

(* strings.IndexByte *)
Fixpoint index_byte (s : str) (c : N) : option nat :=
  match s with
  | [] => None
  | x :: s' => if N.eqb x c then Some 0%nat
               else match index_byte s' c with Some i => Some (S i) | None => None end
  end.

(* strings.LastIndex for a single byte *)
Fixpoint last_index_byte (s : str) (c : N) : option nat :=
  match s with
  | [] => None
  | x :: s' => match last_index_byte s' c with
               | Some i => Some (S i)
               | None => if N.eqb x c then Some 0%nat else None
               end
  end.

Definition mem_byte (c : N) (cut : str) : bool := existsb (N.eqb c) cut.

(* strings.TrimLeft / TrimRight / Trim with a cutset *)
Fixpoint trim_left (s cut : str) : str :=
  match s with
  | [] => []
  | x :: s' => if mem_byte x cut then trim_left s' cut else s
  end.
Definition trim_right (s cut : str) : str := rev (trim_left (rev s) cut).
Definition trim (s cut : str) : str := trim_right (trim_left s cut) cut.

(* strings.TrimSpace restricted to ASCII white space: \t \n \v \f \r space *)
Definition ascii_space : str := [9; 10; 11; 12; 13; 32].
Definition trim_space (s : str) : str := trim s ascii_space.

Definition lower_byte (c : N) : N := if (65 <=? c) && (c <=? 90) then c + 32 else c.
Definition upper_byte (c : N) : N := if (97 <=? c) && (c <=? 122) then c - 32 else c.
Definition to_lower (s : str) : str := List.map lower_byte s.

(* strings.Split s sep with a non-empty separator: all pieces *)
Fixpoint split_aux (fuel : nat) (s sep cur : str) : list str :=
  match fuel with
  | O => [rev cur ++ s]
  | S f =>
    match s with
    | [] => [rev cur]
    | x :: s' =>
      if has_prefix s sep then rev cur :: split_aux f (skipn (length sep) s) sep []
      else split_aux f s' sep (x :: cur)
    end
  end.

Definition split (s sep : str) : list str :=
  match sep with
  | [] => List.map (fun c => [c]) s   (* Go explodes into characters; ASCII only *)
  | _ => split_aux (S (length s)) s sep []
  end.

(* strings.SplitN s sep 2 : cut at the first occurrence *)
Definition split2 (s sep : str) : list str :=
  match index s sep with
  | Some i => [firstn i s; skipn (i + length sep) s]
  | None => [s]
  end.

Fixpoint join (l : list str) (sep : str) : str :=
  match l with
  | [] => []
  | [a] => a
  | a :: l' => a ++ sep ++ join l' sep
  end.

(* strings.Replace s old new 1 (old non-empty) *)
Fixpoint replace_first (s old new : str) : str :=
  if has_prefix s old then new ++ skipn (length old) s else
  match s with
  | [] => []
  | x :: s' => x :: replace_first s' old new
  end.

Definition trim_suffix (s suf : str) : str :=
  if has_suffix s suf then firstn (length s - length suf) s else s.

Definition trim_prefix (s p : str) : str :=
  if has_prefix s p then skipn (length p) s else s.

(* ---------- basic facts ---------- *)

Lemma index_some s sub k :
  index s sub = Some k -> has_prefix (skipn k s) sub = true.
Proof.
  revert k; induction s as [|x s IH]; intros k; simpl.
  - destruct (has_prefix [] sub) eqn:E; [|discriminate]. intros H; inversion H; subst. exact E.
  - destruct (has_prefix (x :: s) sub) eqn:E.
    + intros H; inversion H; subst. exact E.
    + destruct (index s sub) as [i|] eqn:Ei; [|discriminate]. intros H; inversion H; subst. simpl. apply IH. reflexivity.
Qed.

Lemma index_none s sub : index s sub = None -> forall k, has_prefix (skipn k s) sub = false.
Proof.
  induction s as [|x s IH]; simpl.
  - destruct (has_prefix [] sub) eqn:E; [discriminate|]. intros _ k. destruct k; exact E.
  - destruct (has_prefix (x :: s) sub) eqn:E; [discriminate|].
    destruct (index s sub) eqn:Ei; [discriminate|]. intros _ k. destruct k as [|k]; [exact E|]. simpl. apply IH. reflexivity.
Qed.

(* minimality of index *)
Lemma index_min s sub k :
  index s sub = Some k -> forall j, (j < k)%nat -> has_prefix (skipn j s) sub = false.
Proof.
  revert k; induction s as [|x s IH]; intros k; simpl.
  - destruct (has_prefix [] sub); [|discriminate]. intros H j Hj; inversion H; subst. lia.
  - destruct (has_prefix (x :: s) sub) eqn:E.
    + intros H j Hj; inversion H; subst. lia.
    + destruct (index s sub) as [i|] eqn:Ei; [|discriminate]. intros H j Hj; inversion H; subst.
      destruct j as [|j]; [exact E|]. simpl. apply (IH i); [reflexivity | lia].
Qed.

Lemma index_prefix_zero s p : has_prefix s p = true -> index s p = Some 0%nat.
Proof. destruct s; simpl; intros ->; reflexivity. Qed.

Lemma index_bound s sub k : index s sub = Some k -> (k <= length s)%nat.
Proof.
  revert k; induction s as [|x s IH]; intros k; simpl.
  - destruct (has_prefix [] sub); [|discriminate]. intros H; inversion H; lia.
  - destruct (has_prefix (x :: s) sub); [intros H; inversion H; lia|].
    destruct (index s sub) as [i|]; [|discriminate]. intros H; inversion H; subst. specialize (IH i eq_refl). lia.
Qed.

(* the part before the first occurrence is copied, the occurrence replaced, the rest kept *)
Lemma replace_first_index s old new :
  replace_first s old new =
  match index s old with
  | Some i => firstn i s ++ new ++ skipn (i + length old) s
  | None => s
  end.
Proof.
  induction s as [|x s IH]; simpl.
  - destruct (has_prefix [] old); [|reflexivity]. simpl. reflexivity.
  - destruct (has_prefix (x :: s) old); [reflexivity|].
    rewrite IH. destruct (index s old); reflexivity.
Qed.

Lemma mem_byte_spec c cut : mem_byte c cut = true <-> In c cut.
Proof.
  unfold mem_byte. rewrite existsb_exists. split.
  - intros [x [Hx E]]. apply N.eqb_eq in E. subst. exact Hx.
  - intros H. exists c. split; [exact H | apply N.eqb_refl].
Qed.

Lemma trim_left_id s cut :
  match s with [] => True | x :: _ => mem_byte x cut = false end -> trim_left s cut = s.
Proof. destruct s as [|x s]; simpl; [reflexivity|]. intros ->. reflexivity. Qed.

Lemma to_lower_length s : length (to_lower s) = length s.
Proof. apply map_length. Qed.

Lemma to_lower_app a b : to_lower (a ++ b) = to_lower a ++ to_lower b.
Proof. apply map_app. Qed.

Lemma lower_byte_idem c : lower_byte (lower_byte c) = lower_byte c.
Proof.
  unfold lower_byte. destruct ((65 <=? c) && (c <=? 90)) eqn:E; [|rewrite E; reflexivity].
  apply andb_true_iff in E as [E1 E2]. apply N.leb_le in E1, E2.
  destruct ((65 <=? c + 32) && (c + 32 <=? 90)) eqn:E3; [|reflexivity].
  apply andb_true_iff in E3 as [_ E4]. apply N.leb_le in E4. lia.
Qed.

Lemma to_lower_idem s : to_lower (to_lower s) = to_lower s.
Proof. unfold to_lower. rewrite map_map. apply map_ext. apply lower_byte_idem. Qed.
