(* strconv.ParseInt(s,10,64) / Atoi / FormatInt over byte strings. *)
From Coq Require Import List NArith ZArith Bool Lia.
From Verif Require Import GoStr.
Open Scope Z_scope.

Definition is_digit (c : N) : bool := ((48 <=? c) && (c <=? 57))%N.

Fixpoint digits_val (s : str) (acc : Z) : option Z :=
  match s with
  | [] => Some acc
  | c :: s' => if is_digit c then digits_val s' (acc * 10 + (Z.of_N c - 48)) else None
  end.

Definition int64_min : Z := - 9223372036854775808.
Definition int64_max : Z := 9223372036854775807.

(* strconv.ParseInt(s, 10, 64): optional sign, at least one digit, digits only,
   value in int64 range; anything else is an error (None). *)
Definition parse_int (s : str) : option Z :=
  match s with
  | [] => None
  | c :: r =>
    let '(neg, ds) := if N.eqb c 45 then (true, r) else if N.eqb c 43 then (false, r) else (false, s) in
    match ds with
    | [] => None
    | _ => match digits_val ds 0 with
           | None => None
           | Some v => let v' := if neg then - v else v in
                       if (int64_min <=? v') && (v' <=? int64_max) then Some v' else None
           end
    end
  end.

Definition atoi := parse_int.

Definition digit_char (d : Z) : N := Z.to_N (48 + d).

Fixpoint fmt_pos (fuel : nat) (z : Z) (acc : str) : str :=
  match fuel with
  | O => acc
  | S f => if z <? 10 then digit_char z :: acc
           else fmt_pos f (z / 10) (digit_char (z mod 10) :: acc)
  end.

(* strconv.FormatInt(z, 10) / Itoa *)
Definition format_int (z : Z) : str :=
  if z <? 0 then 45%N :: fmt_pos 70 (- z) [] else fmt_pos 70 z [].
