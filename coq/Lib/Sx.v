(* A tiny tree language shared by the Go harness, the OCaml driver and the
   in-Coq cross-check: atoms are byte strings or integers, nodes are lists. *)
From Coq Require Import List NArith ZArith Bool.
From Verif Require Import GoStr.

Inductive sx : Type :=
| A (s : str)
| I (z : Z)
| L (l : list sx).

Fixpoint sx_eqb (a b : sx) {struct a} : bool :=
  match a, b with
  | A s, A t => str_eqb s t
  | I x, I y => Z.eqb x y
  | L l, L m =>
      (fix go (l m : list sx) {struct l} : bool :=
         match l, m with
         | [], [] => true
         | x :: l', y :: m' => sx_eqb x y && go l' m'
         | _, _ => false
         end) l m
  | _, _ => false
  end.

Definition sx_str (x : sx) : str := match x with A s => s | _ => [] end.
Definition sx_int (x : sx) : Z := match x with I z => z | _ => 0%Z end.
Definition sx_list (x : sx) : list sx := match x with L l => l | _ => [] end.
Definition sx_bool (x : sx) : bool := match x with I z => negb (Z.eqb z 0) | _ => false end.
Definition sx_nth (n : nat) (x : sx) : sx := nth n (sx_list x) (L []).
Definition sx_opt_str (x : sx) : option str :=
  match x with L [A s] => Some s | _ => None end.
Definition sx_opt_int (x : sx) : option Z :=
  match x with L [I z] => Some z | _ => None end.

Definition of_bool (b : bool) : sx := I (if b then 1 else 0)%Z.
Definition of_strs (l : list str) : sx := L (map A l).
Definition to_strs (x : sx) : list str := map sx_str (sx_list x).
Definition of_opt_str (o : option str) : sx := match o with Some s => L [A s] | None => L [] end.
Definition of_opt_int (o : option Z) : sx := match o with Some s => L [I s] | None => L [] end.
Definition of_nat (n : nat) : sx := I (Z.of_nat n).
