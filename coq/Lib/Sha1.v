(* SHA-1 over byte strings (FIPS 180-4), executable; words are N modulo 2^32.
   Used only to compute on-disk entry names when running the model; the theorems about
   cache keys treat the hash as an abstract injective function (see Props/C11.v). *)
From Coq Require Import String.
From Coq Require Import List NArith Bool.
From Verif Require Import GoStr.
Import ListNotations.
Open Scope N_scope.

Definition w32 : N := 4294967296.
Definition add32 (a b : N) : N := (a + b) mod w32.
Definition rotl (n : N) (x : N) : N := ((N.shiftl x n) mod w32) + N.shiftr x (32 - n).
Definition not32 (x : N) : N := 4294967295 - x.

Fixpoint be_bytes (k : nat) (x : N) : str :=
  match k with
  | O => []
  | S k' => be_bytes k' (x / 256) ++ [x mod 256]
  end.

Definition pad (msg : str) : str :=
  let l := N.of_nat (length msg) in
  let zeros := N.to_nat ((119 - (l mod 64)) mod 64) in
  msg ++ [128] ++ repeat 0 zeros ++ be_bytes 8 (l * 8).

Fixpoint words (bs : str) (fuel : nat) : list N :=
  match fuel, bs with
  | S f, a :: b :: c :: d :: rest => (((a * 256 + b) * 256 + c) * 256 + d) :: words rest f
  | _, _ => []
  end.

(* message schedule: w[t] = rotl1 (w[t-3] xor w[t-8] xor w[t-14] xor w[t-16]); kept most recent first *)
Fixpoint extend (n : nat) (rev_w : list N) : list N :=
  match n with
  | O => rev_w
  | S n' =>
    let x := N.lxor (N.lxor (nth 2 rev_w 0) (nth 7 rev_w 0)) (N.lxor (nth 13 rev_w 0) (nth 15 rev_w 0)) in
    extend n' (rotl 1 x :: rev_w)
  end.

Definition fk (t : nat) (b c d : N) : N * N :=
  if Nat.ltb t 20 then (N.lor (N.land b c) (N.land (not32 b) d), 1518500249)
  else if Nat.ltb t 40 then (N.lxor (N.lxor b c) d, 1859775393)
  else if Nat.ltb t 60 then (N.lor (N.lor (N.land b c) (N.land b d)) (N.land c d), 2400959708)
  else (N.lxor (N.lxor b c) d, 3395469782).

Fixpoint rounds (ws : list N) (t : nat) (st : N * N * N * N * N) : N * N * N * N * N :=
  match ws with
  | [] => st
  | w :: ws' =>
    let '(a, b, c, d, e) := st in
    let '(f, k) := fk t b c d in
    let tmp := add32 (add32 (add32 (add32 (rotl 5 a) f) e) k) w in
    rounds ws' (S t) (tmp, a, rotl 30 b, c, d)
  end.

Definition process_block (h : N * N * N * N * N) (block : str) : N * N * N * N * N :=
  let w16 := words block 16 in
  let ws := rev (extend 64 (rev w16)) in
  let '(h0, h1, h2, h3, h4) := h in
  let '(a, b, c, d, e) := rounds ws 0 h in
  (add32 h0 a, add32 h1 b, add32 h2 c, add32 h3 d, add32 h4 e).

Fixpoint blocks (bs : str) (fuel : nat) (h : N * N * N * N * N) : N * N * N * N * N :=
  match fuel with
  | O => h
  | S f => match bs with
           | [] => h
           | _ => blocks (skipn 64 bs) f (process_block h (firstn 64 bs))
           end
  end.

Definition sha1 (msg : str) : str :=
  let p := pad msg in
  let '(a, b, c, d, e) := blocks p (S (length p / 64)) (1732584193, 4023233417, 2562383102, 271733878, 3285377520) in
  be_bytes 4 a ++ be_bytes 4 b ++ be_bytes 4 c ++ be_bytes 4 d ++ be_bytes 4 e.

Definition hex_digit (n : N) : N := if n <? 10 then 48 + n else 87 + n.
Definition hex (bs : str) : str := flat_map (fun b => [hex_digit (b / 16); hex_digit (b mod 16)]) bs.

Definition sha1_hex (msg : str) : str := hex (sha1 msg).

(* FIPS 180-4 test vectors *)
Example sha1_abc : sha1_hex [97; 98; 99] = bytes "a9993e364706816aba3e25717850c26c9cd0d89d".
Proof. vm_compute. reflexivity. Qed.
Example sha1_empty : sha1_hex [] = bytes "da39a3ee5e6b4b0d3255bfef95601890afd80709".
Proof. vm_compute. reflexivity. Qed.
