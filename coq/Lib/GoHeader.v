(* net/http.Header as an association list with canonical MIME keys. *)
From Coq Require Import List NArith ZArith Bool Lia.
From Verif Require Import GoStr.
Open Scope N_scope.

(* httpguts / textproto: valid header field (token) bytes *)
Definition is_token_byte (c : N) : bool :=
  ((48 <=? c) && (c <=? 57)) || ((65 <=? c) && (c <=? 90)) || ((97 <=? c) && (c <=? 122)) ||
  existsb (N.eqb c) [33; 35; 36; 37; 38; 39; 42; 43; 45; 46; 94; 95; 96; 124; 126].

Fixpoint canon_go (s : str) (upper : bool) : str :=
  match s with
  | [] => []
  | c :: s' => (if upper then upper_byte c else lower_byte c) :: canon_go s' (N.eqb c 45)
  end.

(* textproto.CanonicalMIMEHeaderKey *)
Definition canon_key (s : str) : str :=
  if forallb is_token_byte s then canon_go s true else s.

Definition hdrs := list (str * list str).

Fixpoint hvalues_raw (h : hdrs) (k : str) : list str :=
  match h with
  | [] => []
  | (k', vs) :: h' => if str_eqb k' k then vs else hvalues_raw h' k
  end.

Definition hvalues (h : hdrs) (k : str) : list str := hvalues_raw h (canon_key k).
Definition hget (h : hdrs) (k : str) : str :=
  match hvalues h k with v :: _ => v | [] => [] end.

Fixpoint hdel_raw (h : hdrs) (k : str) : hdrs :=
  match h with
  | [] => []
  | (k', vs) :: h' => if str_eqb k' k then hdel_raw h' k else (k', vs) :: hdel_raw h' k
  end.
Definition hdel (h : hdrs) (k : str) : hdrs := hdel_raw h (canon_key k).

Definition hset (h : hdrs) (k v : str) : hdrs := (canon_key k, [v]) :: hdel h k.

Fixpoint hadd_raw (h : hdrs) (k v : str) : hdrs :=
  match h with
  | [] => [(k, [v])]
  | (k', vs) :: h' => if str_eqb k' k then (k', vs ++ [v]) :: h' else (k', vs) :: hadd_raw h' k v
  end.
Definition hadd (h : hdrs) (k v : str) : hdrs := hadd_raw h (canon_key k) v.

Definition hkeys (h : hdrs) : list str := map fst h.
Definition hhas (h : hdrs) (k : str) : bool := existsb (str_eqb (canon_key k)) (hkeys h).

(* byte-lexicographic order, as Go's string comparison *)
Fixpoint str_leb (a b : str) : bool :=
  match a, b with
  | [], _ => true
  | _ :: _, [] => false
  | x :: a', y :: b' => if x <? y then true else if y <? x then false else str_leb a' b'
  end.

Fixpoint insert_sorted {V} (kv : str * V) (l : list (str * V)) : list (str * V) :=
  match l with
  | [] => [kv]
  | kv' :: l' => if str_leb (fst kv) (fst kv') then kv :: l else kv' :: insert_sorted kv l'
  end.
Definition sort_hdrs {V} (h : list (str * V)) : list (str * V) := fold_right insert_sorted [] h.

Fixpoint insert_str (s : str) (l : list str) : list str :=
  match l with
  | [] => [s]
  | t :: l' => if str_leb s t then s :: l else t :: insert_str s l'
  end.
Definition sort_strs (l : list str) : list str := fold_right insert_str [] l.

(* ---------- facts ---------- *)

Lemma hvalues_raw_hdel_raw_same h k : hvalues_raw (hdel_raw h k) k = [].
Proof.
  induction h as [|[k' vs] h IH]; simpl; [reflexivity|].
  destruct (str_eqb k' k) eqn:E; [exact IH|]. simpl. rewrite E. exact IH.
Qed.

Lemma hvalues_raw_hdel_raw_other h k k2 : k2 <> k -> hvalues_raw (hdel_raw h k) k2 = hvalues_raw h k2.
Proof.
  intros Hne. induction h as [|[k' vs] h IH]; simpl; [reflexivity|].
  destruct (str_eqb k' k) eqn:E.
  - apply str_eqb_eq in E. subst k'.
    destruct (str_eqb k k2) eqn:E2; [apply str_eqb_eq in E2; congruence | exact IH].
  - simpl. destruct (str_eqb k' k2); [reflexivity | exact IH].
Qed.

Lemma hkeys_hdel_raw h k : ~ In k (hkeys (hdel_raw h k)).
Proof.
  induction h as [|[k' vs] h IH]; simpl; [tauto|].
  destruct (str_eqb k' k) eqn:E; [exact IH|]. simpl. intros [H|H]; [|tauto].
  subst. rewrite str_eqb_refl in E. discriminate.
Qed.

Lemma hkeys_hdel_raw_incl h k x : In x (hkeys (hdel_raw h k)) -> In x (hkeys h).
Proof.
  induction h as [|[k' vs] h IH]; simpl; [tauto|].
  destruct (str_eqb k' k); simpl; tauto.
Qed.

Lemma hkeys_hdel_raw_keep h k x : In x (hkeys h) -> x <> k -> In x (hkeys (hdel_raw h k)).
Proof.
  induction h as [|[k' vs] h IH]; simpl; [tauto|].
  intros [H|H] Hne.
  - subst. destruct (str_eqb x k) eqn:E; [apply str_eqb_eq in E; contradiction | simpl; tauto].
  - destruct (str_eqb k' k); simpl; auto.
Qed.
