# showfail.py <clause-substring> [n]: prints cases whose verdict contains the substring, op by op with observations
import sys,re,binascii
ins=open('/tmp/try.lines').read().splitlines(); outs=open('/tmp/try.out').read().splitlines()
def show(t): return re.sub(r'\bs([0-9a-f]*)', lambda m: '"'+binascii.unhexlify(m.group(1)).decode('latin1')+'"', t)
def split_top(t):
    toks=t.split(); depth=0; items=[]; cur=[]
    for tk in toks[1:-1]:
        if tk=='(': depth+=1
        if tk==')': depth-=1
        cur.append(tk)
        if depth==0: items.append(' '.join(cur)); cur=[]
    return items
n=int(sys.argv[2]) if len(sys.argv)>2 else 1
for i,o in zip(ins,outs):
    a=i.split('\t'); b=o.split('\t')
    if sys.argv[1] in show(b[2]) and a[1].startswith('( s6361636865'):
        print('=== ',show(b[2])); top=split_top(a[1]); print(' rules:',show(top[2])[:300],' suffix:',show(top[4]))
        I=split_top(b[1]); ri=0
        m=re.search(r' i(\d+) \)$',b[2]); failidx=int(m.group(1)) if m else -1
        for op in split_top(top[6]):
            print('  op',show(op)[:420])
            if op.startswith('( s726571'):
                ii=split_top(I[ri]); print('   >>> FAILS HERE' if ri==failidx else '   '); ri+=1
                print('      ->',show(ii[0])[:420]); print('      log',show(ii[1])[:300]); print('      disk',show(ii[2])[:260])
        n-=1
        if n==0: break
