#!/bin/bash
# keepmut3.sh <Cxx> <k> <needs> <caught_by>: store a confirmed round-3 sub-agent mutation under seeded/<Cxx>-<k>/
P=$1; K=$2; D=/verif/seeded/$P-$K; mkdir -p $D
cp /tmp/mut-$P-$K.diff $D/patch.diff
mkdir -p $D/demo; cp -r /tmp/mut-$P-$K/mutdemo/. $D/demo/ 2>/dev/null; find $D/demo -size +200k -delete
python3 - "$D" "$P" "$3" "$4" <<'PY'
import json,sys
d,breaks,needs,caught=sys.argv[1:5]
json.dump({"breaks":breaks,"origin":"independent sub-agent given only the property text and its own scratch worktree (round 3)","needs":needs,
 "ran":"tools/evalmut2.sh / evalmut3.sh: baseline suite passes with the change, the agent's demo fails with it and passes without it (re-run by us); then ./check <prop> --tier quick with the change applied (to /repo, or to the mutant's own worktree through VERIF_REPO), undone afterwards",
 "caught_by":caught},open(d+"/meta.json","w"),indent=1)
PY
