#!/bin/bash
# apply a patch to /repo, run the given checks (quick), undo the patch. Prints one line per check.
patch=$(realpath "$1"); shift
cp -r /verif/evidence /tmp/evidence.bak.$$
git -C /repo apply "$patch" || { echo "patch does not apply"; exit 2; }
for p in "$@"; do
  out=$(cd /verif && ./check $p --tier quick 2>&1 | grep -E "^VIOLATION|quick:" | cut -c1-220)
  echo "[$p] $out" | tr '\n' ' '; echo
done
git -C /repo checkout -- . ; rm -rf /verif/evidence; mv /tmp/evidence.bak.$$ /verif/evidence; git -C /repo status --short | grep -v '^??' | head -3
