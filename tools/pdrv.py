#!/usr/bin/env python3
# run the model driver on 16 interleaved shards in parallel: pdrv.py in.lines out.lines
import sys, subprocess, threading
ins=open(sys.argv[1]).read().splitlines(); n=min(16,max(1,len(ins)//8)); res=[None]*n
def run(i):
    p=subprocess.run(['/verif/build/modeldrv'],input=("\n".join(ins[i::n])+"\n").encode(),stdout=subprocess.PIPE)
    res[i]=p.stdout.decode().splitlines()
ths=[threading.Thread(target=run,args=(i,)) for i in range(n)]
[t.start() for t in ths]; [t.join() for t in ths]
outs=[None]*len(ins)
for i in range(n): outs[i::n]=res[i]
open(sys.argv[2],'w').write("\n".join(outs)+"\n")
