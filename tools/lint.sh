#!/bin/bash
# Forbidden tokens anywhere in the Coq development (comments included, to stay simple).
cd "$(dirname "$0")/../coq" || exit 2
bad=$(grep -rnE --include='*.v' '\b(Admitted|admit|Axiom|Axioms|Parameter|Parameters|Conjecture|Conjectures|Admit Obligations|Unset Guard Checking|Unset Positivity Checking|Unset Universe Checking|bypass_check|native_compute|type-in-type|impredicative-set)\b' . | grep -v '^./Gen/' )
if [ -n "$bad" ]; then echo "lint: forbidden tokens:"; echo "$bad"; exit 1; fi
# Variable / Hypothesis outside a Section
for f in $(find . -name '*.v'); do
  awk -v F="$f" '/^[ \t]*Section[ \t]/{d++} /^[ \t]*End[ \t]/{if(d>0)d--} /^[ \t]*(Variable|Variables|Hypothesis|Hypotheses|Context)[ \t]/{if(d==0){print "lint: " F ":" NR ": " $0; bad=1}} END{exit bad}' "$f" || exit 1
done
exit 0
