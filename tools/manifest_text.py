LEVEL = {
 "C04": "Machine-checked Coq theorems (C04_firewall, C04_frame) state, for every header set, secret list, minted id and IP, that the model of ensureInternalHeaders denies exactly what the property says must be denied and delivers exactly what a destination may receive, leaving all other headers untouched. The model is tied to /repo on every run by regenerated header-name tables and by an exhaustive differential run (about 3.9k cases through the real server and a scripted performer), on which the extracted spec monitor is also evaluated.",
}
NOTE = {
 "*": "Trusted: Coq kernel; tools/gotables; ExtrOcamlBasic extraction + driver.ml (cross-checked in Coq by vm_compute on a sample each run); the Go harness and its coverage; Go's net/http, net/url as modelled. No axioms (Print Assumptions: closed under the global context).",
}
TECH = {
 "*": "Coq proof over an executable model + differential correspondence with the Go code",
}
NA = {}
