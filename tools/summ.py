import sys,re,binascii,collections
ins=open(sys.argv[1]).read().splitlines(); outs=open(sys.argv[2]).read().splitlines()
k=int(sys.argv[3])
def show(t): return re.sub(r'\bs([0-9a-f]*)', lambda m: '"'+binascii.unhexlify(m.group(1)).decode('latin1')+'"', t)
rows=[(i.split('\t'),o.split('\t')) for i,o in zip(ins,outs)]
mis=[r for r in rows if r[1][0]!=r[1][1]]
bad=[r for r in rows if not r[1][2].startswith('( i1')]
print(len(rows),'cases; mismatch',len(mis),'; specfail',len(bad))
c=collections.Counter(show(r[1][2]) for r in bad); print(c.most_common(8))
for r in mis[:k]:
    print('--- MISMATCH'); print(' C',show(r[0][1])[:2500]); print(' M',show(r[1][0])[:1800]); print(' I',show(r[1][1])[:1800])
for r in bad[:k]:
    print('--- SPECFAIL',show(r[1][2])); print(' C',show(r[0][1])[:2500]); print(' I',show(r[1][1])[:1800])
