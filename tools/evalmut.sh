#!/bin/bash
# evalmut.sh <Cxx> <i> [checks...]: confirm a sub-agent's mutation in its scratch worktree
# (baseline passes with it, demo fails with it and passes without), then run our checks on it.
export GOFLAGS=-mod=mod GOPROXY=off GOSUMDB=off GOTOOLCHAIN=local ATIME_DISABLE=true
P=$1; I=$2; shift; shift
WT=/tmp/mut-$P
cd $WT || exit 2
git checkout -q -- . 2>/dev/null
demo=$(ls demo${I}_test.go 2>/dev/null)
run_demo() { go test -vet=off -count=1 -tags integration -run "Demo" ./demo${I}_test.go 2>&1 | tail -3 | tr '\n' ' '; }
echo "== $P patch$I"
echo -n "  demo without patch: "; run_demo; echo
git apply patch$I.diff || { echo "  patch does not apply in its own worktree"; exit 2; }
echo -n "  build+baseline with patch: "; (go build ./... && go test -vet=off -count=1 ./... 2>&1 | grep -c "^ok" ) | tr '\n' ' '; echo
echo -n "  demo with patch: "; run_demo; echo
git checkout -q -- .
# now our checks against /repo
cd /verif
cp -r /verif/evidence /tmp/evidence.bak.$$
if git -C /repo apply --check $WT/patch$I.diff 2>/dev/null; then git -C /repo apply $WT/patch$I.diff; else (cd /repo && patch -p1 -s --no-backup-if-mismatch < $WT/patch$I.diff) || { echo "  patch does not apply to /repo HEAD"; git -C /repo checkout -- .; rm -rf /tmp/evidence.bak.$$; exit 3; }; fi
for c in "$@"; do
  out=$(./check $c --tier quick 2>&1 | grep -E "^VIOLATION|quick:" | cut -c1-170 | tr '\n' ' ')
  echo "  [$c] $out"
done
git -C /repo checkout -- . ; git -C /repo clean -fdq -e '*.orig' 2>/dev/null; find /repo -name '*.orig' -o -name '*.rej' | xargs rm -f
rm -rf /verif/evidence; mv /tmp/evidence.bak.$$ /verif/evidence
