#!/usr/bin/env python3
"""Regenerates MANIFEST.json from tools/registry.py (claimed properties) and properties.jsonl."""
import json, os, sys
ROOT = os.path.dirname(os.path.dirname(os.path.abspath(__file__)))
sys.path.insert(0, os.path.join(ROOT, "tools"))
from registry import PROPS
from manifest_text import LEVEL, NOTE, TECH, NA
ids = [json.loads(l)["id"] for l in open(os.path.join(ROOT, "properties.jsonl"))]
checks = []
for p in ids:
    if p in PROPS:
        checks.append(dict(
            property_id=p,
            quick_cmd="./check %s --tier quick" % p,
            thorough_cmd="./check %s --tier thorough" % p,
            evidence_file="evidence/%s.json" % p,
            replay_cmd_template="./check %s --replay {path}" % p,
            engine="coq-proof+correspondence",
            level_claimed=dict(category="proof", text=LEVEL[p], design_ref="DESIGN.md section 9, " + p),
            level_note=NOTE.get(p, NOTE["*"]),
            technique=TECH.get(p, TECH["*"]),
        ))
m = dict(
    version=1,
    setup_cmd="./check --setup",
    hooks=dict(guard="verif", enable="go build -tags verif (harness module with replace github.com/richiefi/rrrouter => /repo)",
               baseline_off_cmd="cd /repo && go test -vet=off -count=1 ./...",
               source_commits=json.load(open(os.path.join(ROOT, "MANIFEST.hooks")))["source_commits"], add_only=True),
    engines=[dict(name="coq-proof+correspondence", path="check", serves_properties=[c["property_id"] for c in checks],
                  kind_free_text="Coq 8.16 theorems about a hand-written executable model (coq/), tied to /repo on every run by a generated-tables translator (tools/gotables) and a differential correspondence harness (harness/, extracted OCaml model + in-Coq vm_compute cross-check)")],
    checks=checks,
    notes="All checks share ./check; see DESIGN.md sections 5-7 for the protocol, section 10 for the trusted base.",
    not_applicable=[dict(property_id=p, reason=NA.get(p, "check not built yet; work in progress (see DESIGN.md section 13)")) for p in ids if p not in PROPS],
)
json.dump(m, open(os.path.join(ROOT, "MANIFEST.json"), "w"), indent=1)
print("MANIFEST.json: %d checks, %d not_applicable" % (len(checks), len(m["not_applicable"])))
