import sys,re,binascii
ins=open('/tmp/try.lines').read().splitlines(); outs=open('/tmp/try.out').read().splitlines()
def show(t): return re.sub(r'\bs([0-9a-f]*)', lambda m: '"'+binascii.unhexlify(m.group(1)).decode('latin1')+'"', t)
def split_top(t):
    toks=t.split(); depth=0; items=[]; cur=[]
    for tk in toks[1:-1]:
        if tk=='(': depth+=1
        if tk==')': depth-=1
        cur.append(tk)
        if depth==0: items.append(' '.join(cur)); cur=[]
    return items
want=sys.argv[1]; kfw=sys.argv[2] if len(sys.argv)>2 else None
for i,o in zip(ins,outs):
    a=i.split('\t'); b=o.split('\t'); v=show(b[2])
    if want in v and (kfw is None or ('"%s"'%kfw) in v):
        m=re.search(r' i(\d+) \)$',b[2]); idx=int(m.group(1)) if m else -1
        top=split_top(a[1]); ops=split_top(top[3]); I=split_top(b[1])
        print('===',v,' max',show(top[1]),'files0',show(top[2]))
        for j,op in enumerate(ops):
            ob=split_top(I[j])
            print(('>>' if j==idx else '  '),show(op),' est',show(ob[0]),'purged',show(ob[3]),'files',show(ob[4])[:200])
        break
