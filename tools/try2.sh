#!/bin/bash
set -e
export GOFLAGS=-mod=mod GOPROXY=off GOSUMDB=off GOTOOLCHAIN=local ATIME_DISABLE=true
P=$1; T=${2:-quick}; S=${3:-1}
cd /verif/coq && make -j16 Extract/Extract.vo 2>&1 | grep -E 'Error|error' -A8 || true
mkdir -p /verif/build/ml && cp /verif/coq/extracted.ml /verif/coq/extracted.mli /verif/coq/Extract/driver.ml /verif/build/ml/ && (cd /verif/build/ml && ocamlfind ocamlopt -O3 -w -a extracted.mli extracted.ml driver.ml -o ../modeldrv)
cd /verif/harness && go build -tags verif -o /verif/build/hx ./cmd/hx
cd /verif && ./build/hx run $P $T $S $(ls corpus/$P/*.case 2>/dev/null) > /tmp/try.lines
python3 /verif/tools/pdrv.py /tmp/try.lines /tmp/try.out
python3 /verif/tools/summ2.py /tmp/try.lines /tmp/try.out ${4:-2}
