#!/bin/bash
# evalmut3.sh <Cxx> <k> [checks...]: evaluate a sub-agent mutation WITHOUT touching /repo: the checks of the
# /verif copy this script is run from (cwd; e.g. a `vp run` snapshot) are pointed at the mutant's own scratch worktree
# /tmp/mut-Cxx-k (VERIF_REPO + harness replace). The worktree holds the change uncommitted and a demo in mutdemo/.
export GOFLAGS=-mod=mod GOPROXY=off GOSUMDB=off GOTOOLCHAIN=local
P=$1; K=$2; shift; shift
V=$(pwd); WT=/tmp/mut-$P-$K
cd $WT || exit 2
# bring the worktree to /repo's current HEAD (fix commits made since it was created), keeping the change
if [ "$(git rev-parse HEAD)" != "$(git -C /repo rev-parse HEAD)" ]; then
  git stash -q && git checkout -q --detach $(git -C /repo rev-parse HEAD) && git stash pop -q || { echo "  $P-$K: change does not carry over to /repo HEAD"; exit 3; }
fi
git diff -- . ':!mutdemo' > /tmp/mut-$P-$K.diff
[ -s /tmp/mut-$P-$K.diff ] || { echo "  no source change in $WT"; exit 2; }
echo "== $P-$K: $(git diff --stat -- . ':!mutdemo' | tail -1)"
run_demo() { (go test -vet=off -count=1 -tags "mutdemo integration verif" ./mutdemo/... 2>&1; [ -f mutdemo/main.go ] && go run -tags "mutdemo integration" ./mutdemo 2>&1) | grep -E "^(--- |ok|FAIL|PASS|VIOLATION|panic)" | head -4 | tr '\n' ' '; }
echo -n "  build+baseline with change: "; (go build ./... && go test -vet=off -count=1 $(go list ./... | grep -v mutdemo) 2>&1 | grep -c "^ok") | tr '\n' ' '; echo
echo -n "  demo with change: "; run_demo; echo
git stash -q -- $(git diff --name-only -- . ':!mutdemo')
echo -n "  demo without change: "; run_demo; echo
git stash pop -q
cd $V
(cd harness && go mod edit -replace github.com/richiefi/rrrouter=$WT)
for c in "$@"; do
  out=$(VERIF_REPO=$WT ./check $c --tier quick 2>&1 | grep -E "^VIOLATION|quick:" | cut -c1-200 | tr '\n' ' ')
  echo "  [$c] $out"
done
(cd harness && go mod edit -replace github.com/richiefi/rrrouter=/repo)
