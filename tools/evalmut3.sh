#!/bin/bash
# evalmut3.sh <Cxx> <k> [checks...]: evaluate a sub-agent mutation WITHOUT touching /repo: the checks of the
# /verif copy this script is run from (cwd; e.g. a `vp run` snapshot) are pointed at the mutant's own scratch worktree
# /tmp/mut-Cxx-k (VERIF_REPO + harness replace). The worktree holds the change uncommitted and a demo in mutdemo/.
export GOFLAGS=-mod=mod GOPROXY=off GOSUMDB=off GOTOOLCHAIN=local
P=$1; K=$2; shift; shift
V=$(pwd); WT=/tmp/mut-$P-$K
cd $WT || exit 2
# bring the worktree to /repo's current HEAD (fix commits made since it was created), keeping the change
# (no git stash: the stash is shared by all worktrees of a repository)
git diff -- . ':!mutdemo' > /tmp/mut-$P-$K.diff
if [ "$(git rev-parse HEAD)" != "$(git -C /repo rev-parse HEAD)" ]; then
  git apply -R /tmp/mut-$P-$K.diff && git checkout -q --detach $(git -C /repo rev-parse HEAD) && git apply /tmp/mut-$P-$K.diff || { echo "  $P-$K: change does not carry over to /repo HEAD"; exit 3; }
fi
[ -s /tmp/mut-$P-$K.diff ] || { echo "  no source change in $WT"; exit 2; }
echo "== $P-$K: $(git diff --stat -- . ':!mutdemo' | tail -1)"
run_demo() { (go test -vet=off -count=1 -tags "mutdemo integration verif" ./mutdemo/... 2>&1; [ -f mutdemo/main.go ] && go run -tags "mutdemo integration" ./mutdemo 2>&1) | grep -E "^(--- |ok|FAIL|PASS|VIOLATION|panic)" | head -4 | tr '\n' ' '; }
echo -n "  build+baseline with change: "; (go build ./... && go test -vet=off -count=1 $(go list ./... | grep -v mutdemo) 2>&1 | grep -c "^ok") | tr '\n' ' '; echo
echo -n "  demo with change: "; run_demo; echo
git apply -R /tmp/mut-$P-$K.diff
echo -n "  demo without change: "; run_demo; echo
git apply /tmp/mut-$P-$K.diff
cd $V
(cd harness && go mod edit -replace github.com/richiefi/rrrouter=$WT)
for c in "$@"; do
  out=$(VERIF_REPO=$WT ./check $c --tier quick 2>&1 | grep -E "^VIOLATION|quick:" | cut -c1-200 | tr '\n' ' ')
  echo "  [$c] $out"
done
(cd harness && go mod edit -replace github.com/richiefi/rrrouter=/repo)
