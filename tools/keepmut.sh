#!/bin/bash
# keepmut.sh <Cxx> <i> <breaks> <needs> <caught_by>: store a confirmed sub-agent mutation under seeded/
P=$1; I=$2; D=/verif/seeded/$P-m$I; mkdir -p $D
cp /tmp/mut-$P/patch$I.diff $D/patch.diff
cp /tmp/mut-$P/demo${I}_test.go $D/ 2>/dev/null
python3 - "$D" "$3" "$4" "$5" <<'PY'
import json,sys
d,breaks,needs,caught=sys.argv[1:5]
json.dump({"breaks":breaks,"origin":"independent sub-agent given only the property text","needs":needs,
 "ran":"tools/evalmut.sh: baseline suite passes with the patch, demo fails with it and passes without it; then ./check <prop> --tier quick on /repo with the patch applied",
 "caught_by":caught},open(d+"/meta.json","w"),indent=1)
PY
