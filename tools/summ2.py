# per-request diff of cache-family runs: shows the first differing request of the first k mismatching cases
import sys,re,binascii
ins=open(sys.argv[1]).read().splitlines(); outs=open(sys.argv[2]).read().splitlines(); k=int(sys.argv[3])
def show(t): return re.sub(r'\bs([0-9a-f]*)', lambda m: '"'+binascii.unhexlify(m.group(1)).decode('latin1')+'"', t)
def split_top(t):
    # split "( a b c )" into top-level items
    toks=t.split(); assert toks[0]=='('; depth=0; items=[]; cur=[]
    for tk in toks[1:-1]:
        if tk=='(': depth+=1
        if tk==')': depth-=1
        cur.append(tk)
        if depth==0: items.append(' '.join(cur)); cur=[]
    return items
n=0; mism=0
for i,o in zip(ins,outs):
    a=i.split('\t'); b=o.split('\t')
    if b[0]!=b[1]:
        mism+=1
        if n<k:
            n+=1
            M=split_top(b[0]); I=split_top(b[1]); ops=[x for x in split_top(split_top(a[1])[6])]
            print('=== case'); print(' rules:',show(split_top(a[1])[2])[:400])
            ri=0
            for op in ops:
                if op.startswith('( s726571'):
                    if ri<len(M) and ri<len(I) and M[ri]!=I[ri]:
                        print('  op',show(op)[:300]); mi=split_top(M[ri]); ii=split_top(I[ri])
                        for nm,x,y in zip(['client','log','disk'],mi,ii):
                            if x!=y: print('   ',nm,'M:',show(x)[:700]); print('   ',nm,'I:',show(y)[:700])
                        break
                    ri+=1
                else: print('  op',show(op)[:300])
print(len(ins),'cases; mismatch',mism)
