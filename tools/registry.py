"""Per-property configuration of ./check."""
import re

TB_COMMON = [
    "Coq 8.16.1 kernel via coqc (full .vo build; vm_compute used, native_compute not used)",
    "axioms: none declared; Print Assumptions output recorded under coverage.print_assumptions",
    "tools/gotables (Go AST literal tables -> coq/Gen/Tables.v)",
    "extraction: ExtrOcamlBasic only (Extract Inductive bool/option/unit/list/prod/sumbool/sumor; Extract Inlined Constant andb/orb); no Extract Constant of our own; nat/N/Z/positive stay inductive",
    "coq/Extract/driver.ml (hex/tree parser and printer) and the OCaml compiler; bounded by the in-Coq vm_compute cross-check of a sample on every run",
    "the Go correspondence harness (generators, scripted performer, raw client, canonicalisation) and its coverage: agreement is established on the cases run",
    "modelled, not verified: Go net/http server and header canonicalisation, net/url parse/String/RequestURI normalisation (computed by the harness with net/url alone and handed to the model)",
]

ASSUME_COMMON = [
    "the hand-written Coq model agrees with the code on inputs the harness does not reach",
    "Go's standard library behaves as modelled (see trusted_base)",
]


def kind_of(row):
    m = re.match(r"\( \( s([0-9a-f]*) i(-?\d+)", row["proj"])
    if not m:
        return "other"
    import binascii
    return "%s/%s" % (binascii.unhexlify(m.group(1)).decode("latin1"), m.group(2))


PROPS = {
    "C04": dict(
        family="route",
        proof_files=["Proofs/C04Proofs.v", "Proofs/HeaderFacts.v", "Spec/SpecC04.v"],
        trusted_base=TB_COMMON,
        assumptions=ASSUME_COMMON + ["the minted request id is any non-empty string; the originating IP is util.RequestIP as modelled"],
        rule="exhaustive product: secret lists {nil,[s1],[s1,s0]} x main internal/external x copy {none,external,internal} x secret header values (absent, valid, rotated, unknown, empty, two values either order, prefix/extension of a valid one) x request-id values x originating-ip values x 3 header-name casings, with method and client-IP headers drawn from the PRNG; a case is non-trivial when it carries at least one of the three headers or targets an internal rule; distinct = distinct case encodings",
        exhaustive=True,
        classify=kind_of,
    ),
}
