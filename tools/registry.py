"""Per-property configuration of ./check."""
import re

TB_COMMON = [
    "Coq 8.16.1 kernel via coqc (full .vo build; vm_compute used, native_compute not used)",
    "axioms: none declared; Print Assumptions output recorded under coverage.print_assumptions",
    "tools/gotables (Go AST literal tables -> coq/Gen/Tables.v)",
    "extraction: ExtrOcamlBasic only (Extract Inductive bool/option/unit/list/prod/sumbool/sumor; Extract Inlined Constant andb/orb); no Extract Constant of our own; nat/N/Z/positive stay inductive",
    "coq/Extract/driver.ml (hex/tree parser and printer) and the OCaml compiler; bounded by the in-Coq vm_compute cross-check of a sample on every run",
    "the Go correspondence harness (generators, scripted performer, raw client, canonicalisation) and its coverage: agreement is established on the cases run",
    "modelled, not verified: Go net/http server and header canonicalisation, net/url parse/String/RequestURI normalisation (computed by the harness with net/url alone and handed to the model)",
]

ASSUME_COMMON = [
    "the hand-written Coq model agrees with the code on inputs the harness does not reach",
    "Go's standard library behaves as modelled (see trusted_base)",
]


def kind_of(row):
    m = re.match(r"\( \( s([0-9a-f]*) i(-?\d+)", row["proj"])
    if not m:
        return "other"
    import binascii
    return "%s/%s" % (binascii.unhexlify(m.group(1)).decode("latin1"), m.group(2))


ROUTE_TB = TB_COMMON + ["the scripted performer stands for the network: a destination is identified by the URL host it is asked for"]

PROPS = {
    "C01": dict(
        family="route",
        proof_files=["Proofs/C01Proofs.v", "Proofs/RouteProofs.v"],
        trusted_base=ROUTE_TB,
        assumptions=ASSUME_COMMON + ["rulesets are those NewRule accepts (at most one wildcard, in last position); the request-URI after Go's URL round trip is an input computed with net/url alone",
                                     "don't-care cells (property text silent): empty wildcard capture, exact pattern against a target with a query, host constraints against a Host value that is not reg-name[:port] or [literal][:port]"],
        rule="pinned corner cases + a small-scope sweep (all ordered pairs over 32 rule shapes x 3 targets x 2 hosts, strided in quick) + random rulesets of 1-6 rules over a colliding vocabulary (paths /a /a/ /a/b /ab / with and without *, hosts, schemes, method lists, enabled flags, copy/proxy) x requests (method, Host with/without port incl. IPv6 and malformed values, X-Forwarded-Proto, path, query); non-trivial = at least one rule is enabled and the request is not rejected by Go's own server; distinct = distinct case encodings",
        classify=kind_of,
    ),
    "C02": dict(
        family="route",
        proof_files=["Proofs/C02Proofs.v", "Proofs/C01Proofs.v"],
        trusted_base=ROUTE_TB + ["Go's url.Parse/String round trip preserving an already-normalised escaped path (exercised by the adversarial stream, not proved)"],
        assumptions=ASSUME_COMMON + ["request targets containing '#' and targets Go's ServeMux redirects by itself (// and dot segments) never reach rrrouter and are not generated",
                                     "C02_authority_fixed speaks of destinations scheme://authority/rest whose scheme and authority are free of '$', '/', '?', '#' (and ':' in the scheme)"],
        rule="wildcard rules over 10 destination shapes (with/without $1, ports, path prefixes, $1 in the middle, own query/fragment, userinfo) x targets built from adversarial segments (%2F %2f @evil a:b ;p %3F %23 {x} a|b quotes $1 * ^ backtick) x 16 query strings, optional copy rule and catch-all; non-trivial = the request reached a destination; distinct = distinct case encodings",
        classify=kind_of,
    ),
    "C03": dict(
        family="route",
        proof_files=["Proofs/RouteProofs.v", "Proofs/ForwardProofs.v", "Proofs/C04Proofs.v", "Proofs/HeaderFacts.v"],
        trusted_base=ROUTE_TB,
        assumptions=ASSUME_COMMON + ["Content-Length / Transfer-Encoding of forwarded requests are Go's framing and are not compared",
                                     "cache-enabled rules (Range and conditional headers managed by the cache) are covered by the cache properties, not here"],
        rule="methods GET/POST/PUT/DELETE/OPTIONS x bodies (empty, 1 byte, text, all 256 byte values, 100 KiB) x header multisets drawn from a pool with repeated names, mixed case, every hop-by-hop name, Authorization, conditional and Range headers x rule flavours (copy target, retry_rule that matches or not, four hostheader modes, request_headers set/delete/add) x fault scripts (k connection failures then success with k up to the retry budget + 1, 4xx then fallback, copy failures); non-trivial = at least one delivery; distinct = distinct case encodings",
        classify=kind_of,
    ),
    "C05": dict(
        family="cache", xcheck=40,
        proof_files=["Proofs/C05Proofs.v"],
        trusted_base=TB_COMMON + ["caching/verif_export.go hooks (VerifWaitIdle, VerifSetCreated)", "HTTP framing on the wire (Content-Length enforcement, chunking, HEAD/204/304 bodies) is Go's net/http server, modelled by wire_body and exercised on every run", "a request parked by the harness after 300 origin deliveries stands for a request that never completes"],
        assumptions=ASSUME_COMMON + ["Range and conditional requests are judged by C15 and C09, not here", "Content-Type sniffing by Go's server when the origin sends none is not rrrouter's doing"],
        rule="origin statuses drawn from 31 representative codes 200-599 (uniformly from 200..599 in half of the thorough cases) x header sets (repeated Set-Cookie / X-Custom, ETag, Location, Cache-Control incl. no-store/private/max-age=0) x bodies of 0, 1, 7, 1000, 32767, 32768, 32769, 70000 bytes with and without Content-Length (chunked) x GET/HEAD/POST x rule flavours (cache on/off, response_headers incl. an override of an origin header), each request also repeated warm; plus requests rrrouter must answer itself (malformed Host values, no route, wrong secret, id without secret, unreachable origin); non-trivial = the request reached the handler; distinct = distinct case encodings",
        classify=lambda row: "history",
    ),
    "C08": dict(
        family="cache", xcheck=30,
        proof_files=["Proofs/C08Proofs.v"],
        trusted_base=TB_COMMON + ["caching/verif_export.go hooks: VerifWaitIdle (quiescence after each request), VerifSetCreated through a Storage decorator (one injected clock for creation stamps and ages)", "the scripted origin answers 304 only to conditional requests (mirrored in the model)", "on-disk state is compared after every request: entry names (SHA-1 computed in Coq), the raw xattr metadata and the body"],
        assumptions=ASSUME_COMMON + ["responses without any explicit lifetime and without force_revalidate are a don't-care (served until evicted)",
                                     "sequential histories: stale-while-revalidate only matters under concurrency (C12)",
                                     "time.Parse of Expires is an oracle computed by the harness with the code's two layouts"],
        rule="histories of 3-9 operations on one resource: fill with a lifetime from every source (max-age, s-maxage+max-age, stale-if-error, stale-while-revalidate, Expires, upper case, none), clock advances of 1, L-1, L, L+1, 3L, 100000 s, origin changes (new version, 304 with and without refreshed headers, 4xx/5xx with a body, connection refused), HEAD requests, with force_revalidate 0/10/45/1000; each request is compared (client response, origin deliveries incl. validators, disk content) and judged by the freshness monitor; non-trivial = at least one request served from the cache or revalidated; distinct = distinct case encodings",
        classify=lambda row: "history",
    ),
    "C15": dict(
        family="unit+cache", xcheck=60,
        proof_files=["Proofs/C15Proofs.v", "Spec/SpecC15.v"],
        trusted_base=TB_COMMON + ["server/verif_export.go (verif-tagged wrapper calling getRange, setRangedHeaders and the requestRange methods)", "caching/verif_export.go hooks (VerifWaitIdle, VerifSetCreated) for the end-to-end histories"],
        assumptions=ASSUME_COMMON + ["offsets near the int64 limits wrap in Go and are not generated", "416 is accepted whenever the named range is not wholly inside the resource (lenient reading of 'lies outside')"],
        rule="(histories) for each length 0..12 and each origin framing (Content-Length / chunked): 14 fresh paths each requested with a random range on the miss and another on the hit (a-b, a-, -s with values 0..14, malformed spellings), HEAD with Range, and a plain request; (unit) exhaustive: resource lengths 0..12 (0..24 thorough) x every a-b, a-, -s with values 0..14 (0..27) (the a-b grid thinned to a third in quick, keeping the diagonal and both boundaries) + 26 malformed / multi-range / signed / overflowing spellings per length + non-200 statuses + unknown length; each case runs the real getRange, setRangedHeaders, start/size arithmetic; non-trivial = the header is non-empty; distinct = distinct case encodings",
        exhaustive=True,
        classify=lambda row: "range-unit",
    ),
    "C06": dict(
        family="unit+cache",
        proof_files=["Proofs/C06Proofs.v", "Spec/SpecC06.v"],
        trusted_base=TB_COMMON + ["compress/gzip and the brotli binding: only dec(enc x) = x is assumed, as a hypothesis in the theorem statement"],
        assumptions=ASSUME_COMMON + ["proxy.canTransform is unexported without a hook: at unit level its model is compared with a transcription, it is exercised for real in the end-to-end stream"],
        rule="exhaustive decision table: 20 Accept-Encoding strings (every class incl. substrings such as x-brand, upper case, q-values) x 10 Content-Encoding values x 9 Content-Type values x 7 Cache-Control values through the real util.GetRecompression; non-trivial = all; distinct = distinct case encodings",
        exhaustive=True,
        classify=lambda row: "recomp-unit",
    ),
    "C07": dict(
        family="unit+cache", xcheck=120,
        proof_files=["Proofs/C07Proofs.v"],
        trusted_base=TB_COMMON + ["caching/verif_export.go hooks: VerifWaitIdle (quiescence after each request), VerifSetCreated through a Storage decorator (one injected clock for creation stamps and ages)", "the scripted origin answers 304 only to conditional requests (mirrored in the model)", "on-disk state is compared after every request: entry names (SHA-1 computed in Coq), the raw xattr metadata and the body"] + ["caching/verif_export.go (verif-tagged aliases of encodeStorageMetadata / decodeStorageMetadata)", "the JSON fallback decoder is outside the model (a custom-encoded record never starts with '{')"],
        assumptions=ASSUME_COMMON + ["a panic of sToHeader on corrupted metadata (empty last part) is reported as a decode error"],
        rule="(histories) fill with plain or hostile header sets (repeated names, delimiter bytes, JSON-like values, binary bodies, 301/400/403/404 answers, response_headers overrides), then hits after clock advances, after a restart of the server over the same directory, and after a 304 revalidation - the hit must replay status, body and every header value of the fill; (codec) metadata records with header names/values drawn half from plain HTTP vocabulary and half from the delimiter alphabet (| [ ] ], { } : , quotes backslash JSON), single and repeated values, hosts/paths/redirects with '|'; plus raw strings for the decoder (valid, perturbed, truncated, JSON-looking, junk); the real encoder's output is decoded by the model and compared with the input record; non-trivial = the record has at least one header; distinct = distinct case encodings",
        classify=lambda row: "codec-unit",
    ),
    "C09": dict(
        family="unit+cache", xcheck=60,
        proof_files=[],
        trusted_base=TB_COMMON + ["caching/verif_export.go hooks: VerifWaitIdle (quiescence after each request), VerifSetCreated through a Storage decorator (one injected clock for creation stamps and ages)", "the scripted origin answers 304 only to conditional requests (mirrored in the model)", "on-disk state is compared after every request: entry names (SHA-1 computed in Coq), the raw xattr metadata and the body"] + ["ETAG_SUFFIX is read from the process environment: unit cases set it under a mutex"],
        assumptions=ASSUME_COMMON,
        rule="(histories) conditional and unconditional clients (matching, non-matching, weak, suffixed validators; If-Modified-Since), origin answers 304 (with refreshed, empty or cache-forbidding headers) / new 200 / 4xx / 5xx with and without a body, HEAD, ETAG_SUFFIX unset or set in 20% of the histories; (unit) ETag forms (quoted, weak, unquoted, empty, already suffixed, stray quotes, W and / prefixes) x suffix unset / four suffix values through the real AddETagSuffix, StripETagSuffix, normalizeEtag; non-trivial = non-empty ETag; distinct = distinct case encodings",
        exhaustive=True,
        classify=lambda row: "etag-unit",
    ),
    "C10": dict(
        family="unit+cache", xcheck=120,
        proof_files=["Proofs/C10Proofs.v", "Spec/SpecC10.v"],
        trusted_base=TB_COMMON + ["caching/verif_export.go hooks: VerifWaitIdle (quiescence after each request), VerifSetCreated through a Storage decorator (one injected clock for creation stamps and ages)", "the scripted origin answers 304 only to conditional requests (mirrored in the model)", "on-disk state is compared after every request: entry names (SHA-1 computed in Coq), the raw xattr metadata and the body"] + ["caching/verif_export.go (VerifDirectives exposes the unexported directive fields)"],
        assumptions=ASSUME_COMMON + ["qualified no-cache=\"...\" / private=\"...\", quoted or signed lifetimes and contradictory repeated lifetimes are don't-cares (the property text does not decide them)"],
        rule="(histories) uncacheable and cacheable answers alternating on one resource, methods GET/POST/PUT/DELETE, Authorization with and without a rule that strips or replaces it, each followed by a later plain request: no forbidden body may be on disk or be served from the cache; (unit) 36 directive spellings (cases, HTAB/SP padding, quoted, signed, qualified, malformed) alone, after 'public,', before ',max-age=60' and on a second header line, then random multi-line headers of 1-4 lines x 1-4 members with four separators, with and without Vary; non-trivial = at least one directive; distinct = distinct case encodings",
        classify=lambda row: "cc-unit",
    ),
    "C11": dict(
        family="unit+cache",
        proof_files=["Proofs/C11Proofs.v"],
        trusted_base=TB_COMMON + ["SHA-1 is implemented in Coq (Lib/Sha1.v, FIPS test vectors checked by vm_compute) to compute entry names; the theorems treat the hash as an injective function (hypothesis in the statement)"],
        assumptions=ASSUME_COMMON + ["finding F11 (key host is the client Host while the key path is the destination path) is an end-to-end matter, see known_findings.json"],
        rule="entry names of the real KeysFromRequest/FsName compared with the model's (SHA-1 computed in Coq) on requests over colliding vocabularies, and pairs of requests: every legal re-split of one request's key string (method|host, path|headers, value|value, name|value, opaqueOrigin), near copies differing in one field, equal pairs and random pairs; the monitor demands equal names only for the same resource; non-trivial = all; distinct = distinct case encodings",
        classify=lambda row: "key-unit",
    ),
    "C18": dict(
        family="cache", xcheck=40,
        proof_files=["Proofs/C18Proofs.v"],
        trusted_base=TB_COMMON + ["caching/verif_export.go hooks (VerifWaitIdle, VerifSetCreated)", "origins are scripted per host: every path on a host gets that host's answer", "net/url parsing and RedirectedURL resolution are modelled on unescaped paths (parse_url / redirected_url in coq/Model/Cache.v)"],
        assumptions=ASSUME_COMMON + ["relative Location references (no leading slash) are a don't-care for WHICH response is final (the code resolves them against the client's path); termination and well-formedness are still required", "a redirected request for the client-facing host itself would go back through the network to rrrouter and is not generated"],
        rule="all 64 redirect graphs over three origin URLs (each node final or redirecting to any node: chains, self-loops, cycles of length 2 and 3) x cache off/on x Location spelling (absolute always; path-absolute and relative for a quarter of the graphs in quick, all in thorough) x per-hop rules (none / for one host / for all hosts, with their own request and response header overrides and cache setting, else fallback to the parent rule); each history requests a start node cold, again warm, and sometimes a second start node; non-trivial = at least one redirect was followed; distinct = distinct case encodings",
        classify=lambda row: "history",
    ),
    "C20": dict(
        family="copy",
        proof_files=["Proofs/C20Proofs.v", "Proofs/RouteProofs.v", "Proofs/C01Proofs.v"],
        trusted_base=ROUTE_TB,
        assumptions=ASSUME_COMMON + ["latency added by the copy request is observed, not specified",
                                     "a request the firewall (C04) must deny on an internal copy route is answered 407: the one stated exception to non-interference"],
        rule="random rulesets of 2-7 rules interleaving copy and proxy rules (copy rules with hostheader modes and internal flags) x requests x main-side scripts (ok, one connection failure then ok, 503); each case is run once without the copy rules and once per copy-side behaviour (200, connection refused, 5xx with headers, k refusals then ok, 302, occasionally a 1 MiB body) and the client responses compared; non-trivial = a copy rule was contacted in at least one variant; distinct = distinct case encodings",
        classify=lambda row: "copy-variants",
        nontrivial=lambda row: True,
    ),
    "C16": dict(
        family="lim", xcheck=150, realtime=True,
        proof_files=["Proofs/C16Proofs.v", "Proofs/AssocFacts.v"],
        trusted_base=TB_COMMON + ["caching/verif_export.go VerifLimiter: runs the real readFiles, readStorableAccessTimes, purgeableItemNames, flushStorableAccessTimes and storage fields; the few lines of runSizeLimiter's op switch, start-up merge and post-purge bookkeeping are repeated in the hook because the loop itself is driven by wall-clock time (the real-time run below exercises the loop itself)",
                                  "the limiter's 5 s period and Go's channel delivery are modelled as explicit tick operations",
                                  "Go's map iteration order among entries without access time is not modelled: generated histories keep at most one such entry at a time"],
        assumptions=ASSUME_COMMON + ["theorems speak of histories whose entry sizes are whole KiB below 4 GiB and in which the directory is changed only through the cache (outside finding F14)",
                                     "'within a bounded time as long as the cache keeps being used' is read as: each pass of the limiter (one per 5 s while operations arrive) reclaims the excess, at most maxPurgeBytes per pass"],
        rule="histories of 4-17 operations over limits 4 KiB-200 KB: fills (fresh names, names used before: refused while on disk, refilled after a purge), hits, atimes flushes, limiter passes, restarts after a flush (with and without every entry hit before), deletions behind the limiter's back and revalidations that change an entry's size; sizes whole KiB in 60% of the histories, else from {0,1,500,1000,1023,1024,1025,1536,4000,10000,65535,1 MiB}; at most one pre-existing file; after every operation the estimate, both maps, the purged names and the directory listing are compared; non-trivial = at least one pass of the limiter over the limit; distinct = distinct case encodings",
        classify=lambda row: "lim-history",
    ),
    "C17": dict(
        family="lim", xcheck=150, realtime=True,
        proof_files=["Proofs/C17Proofs.v", "Proofs/C16Proofs.v", "Proofs/AssocFacts.v", "Spec/SpecC17.v"],
        trusted_base=TB_COMMON + ["caching/verif_export.go VerifLimiter (see C16): access times are given to the real bookkeeping as explicit clock readings",
                                  "sort.Slice is not stable: ties in access time are ordered by name in the model and generated clock readings are distinct",
                                  "Go's map iteration order among entries without access time is not modelled: generated histories keep at most one such entry at a time"],
        assumptions=ASSUME_COMMON + ["clock readings are below 2^32 (the code keeps uint32 seconds: year 2106)", "accesses not yet flushed at a restart are lost (the property quantifies over restarts after a flush)",
                                     "'remains' is read as: still known to the limiter after the pass; with no deletions behind its back those are the entries on disk (C16_books_exact)"],
        rule="the C16 histories (fills and hits in any order at distinct increasing clock readings, flushes, restarts after a flush, space pressure from later fills) judged by a last-use monitor kept by the harness side alone: at every pass, no entry removed may have a later last access than one that stays, and none with a known last access may go while one with an unknown one stays; non-trivial = at least one entry purged; distinct = distinct case encodings",
        classify=lambda row: "lim-history",
    ),
    "C19": dict(
        family="cfg", xcheck=120, realtime=True, rt_workers=16,
        proof_files=["Proofs/C19Proofs.v"],
        trusted_base=TB_COMMON + ["proxy/verif_export.go VerifDumpRules (reads the unexported fields of the parsed rules)",
                                  "YAML and JSON text parsing are Go libraries (gopkg.in/yaml.v2, encoding/json's tokenizer): the harness hands the model the trees they produce for each text; fmt's %v printing of YAML scalars and keys, url.Parse's verdict on each destination and datasize's on each size string are likewise computed by the harness and handed over",
                                  "the reload sequences drive the real rrrouter binary (go build of cmd/richie-request-router, no tag) with a mapping file and SIGHUP; what is in force is read off probe requests against a local origin stub",
                                  "the rule-swap runs depend on the scheduler: they can show a request handled under two versions, not prove there is none (that is the structural argument: the handler takes the rules once, Router.Pinned)"],
        assumptions=ASSUME_COMMON + ["object keys are ASCII (encoding/json also folds a few non-ASCII letters) and no object has two keys that differ only in case for a struct-valued field",
                                     "YAML mappings whose keys print alike (1 and \"1\") are not generated: yamlconfig's clean-up then depends on Go's map order",
                                     "an id kept across a reload keeps its directory: a changed path for an existing id is not generated",
                                     "equal SHA-1 checksums are taken to mean equal documents"],
        rule="(documents) 20 pinned texts (empty, null, arrays, unterminated, YAML idioms: no/~/10.0/quoted numbers, flow maps, nested retry rules three deep, duplicate cache ids, caches of the wrong type, key-case variants) + random documents of 1-4 rules over every field (methods, host, scheme, enabled, type, hostheader, internal, recompression, cache, force_revalidate, request/response header maps with padded names, null and numeric values, restart_on_redirect, retry_rule to depth 3, unknown fields) and 0-2 caches, 65% of them damaged in 1-3 places (field dropped, value replaced by one of 15 wrong-typed or odd values, key re-cased, list element duplicated, string replaced by one of 20 invalid paths/methods/types/destinations/sizes); each rendered as JSON and as YAML (yaml.Marshal), both through the real ParseRules and ParseStorageConfigs, accepted rules dumped field by field, 3 requests routed through the real server under each accepted spelling; (reloads) 24/160 sequences of 3-7 documents against the real binary: each a new version with a random subset of three caches, 45% damaged (rules of the wrong type, bad wildcard, bad destination, caches not a list, duplicate cache, junk, file missing, same text again), always ending with a good one; (rule swaps) 2 runs of 8 x 1500/15000 requests while SetRules flips between two rule sets; non-trivial = all; distinct = distinct case encodings",
        classify=lambda row: "reload" if row["case"].startswith("( s72656c6f6164 ") else ("swap" if row["case"].startswith("( s73776170 ") else "document"),
    ),
    "C14": dict(
        family="crash", xcheck=60,
        proof_files=["Proofs/C14Proofs.v"],
        trusted_base=TB_COMMON + ["strace 6.x: the recorded sequence of openat/write/setxattr/rename/unlink calls on the entry, .tmp, changed-key and access-log paths IS the implementation's effect list (compared with the model's on every run), and -e inject=<call>:signal=SIGKILL:when=n kills the operation's process on entry to the n-th such call (the call does not take effect)",
                                  "a process crash, not a power failure: what was written before the kill is what a restart finds (no fsync in the code; page-cache loss is outside the property)",
                                  "operations are driven through the Storage interface (GetWriter, WriteHeader, Write, ChangeKey, Close) in the order server.go uses; the limiter's eviction is an unlink"],
        assumptions=ASSUME_COMMON + ["the old entry is a complete version (it was stored by a completed fill)",
                                     "ChangeKey is called before the response head is written, as server.go does (after it, ChangeKey renames a file into a directory that may not exist: not reachable from the server)"],
        rule="7 operations (fill with and without Content-Length, revalidation storing a new body through .tmp and rename, 304 revalidation rewriting the metadata in place, fill under a changed key, refill after eviction, access-log append and rewrite with ATIME_LOG_SIZE_BYTES=200) x every file-system call the real code makes on the traced paths (kill on entry to the n-th openat, write, setxattr, renameat, unlinkat) + the run to completion: 44 crash points; after each, a fresh DiskStorage (and the limiter's start-up) on the directory, Get on both names, and a refill of every name not served; non-trivial = all; distinct = distinct case encodings",
        exhaustive=True,
        classify=lambda row: "crash-point",
    ),
    "C04": dict(
        family="route",
        proof_files=["Proofs/C04Proofs.v", "Proofs/HeaderFacts.v", "Spec/SpecC04.v", "Proofs/RouteProofs.v", "Proofs/ForwardProofs.v"],
        trusted_base=TB_COMMON,
        assumptions=ASSUME_COMMON + ["the minted request id is any non-empty string; the originating IP is util.RequestIP as modelled"],
        rule="exhaustive product: secret lists {nil,[s1],[s1,s0]} x main internal/external x copy {none,external,internal} x secret header values (absent, valid, rotated, unknown, empty, two values either order, prefix/extension of a valid one) x request-id values x originating-ip values x 3 header-name casings, with method and client-IP headers drawn from the PRNG; a case is non-trivial when it carries at least one of the three headers or targets an internal rule; distinct = distinct case encodings",
        exhaustive=True,
        classify=kind_of,
    ),
}
