#!/bin/bash
# evalmut2.sh <Cxx> <k> [checks...]: round-2 layout: worktree /tmp/mut-Cxx-k with the change uncommitted and a demo in mutdemo/.
export GOFLAGS=-mod=mod GOPROXY=off GOSUMDB=off GOTOOLCHAIN=local
P=$1; K=$2; shift; shift
WT=/tmp/mut-$P-$K
cd $WT || exit 2
git diff -- . ':!mutdemo' > /tmp/mut-$P-$K.diff
[ -s /tmp/mut-$P-$K.diff ] || { echo "  no source change in $WT"; exit 2; }
echo "== $P-$K: $(git diff --stat -- . ':!mutdemo' | tail -1)"
run_demo() { (go test -vet=off -count=1 -tags "mutdemo integration verif" ./mutdemo/... 2>&1; [ -f mutdemo/main.go ] && go run -tags "mutdemo integration" ./mutdemo 2>&1) | grep -E "^(--- |ok|FAIL|PASS|VIOLATION|panic)" | head -4 | tr '\n' ' '; }
echo -n "  build+baseline with change: "; (go build ./... && go test -vet=off -count=1 $(go list ./... | grep -v mutdemo) 2>&1 | grep -c "^ok") | tr '\n' ' '; echo
echo -n "  demo with change: "; run_demo; echo
git stash -q -- $(git diff --name-only -- . ':!mutdemo')
echo -n "  demo without change: "; run_demo; echo
git stash pop -q
cd /verif
cp -r /verif/evidence /tmp/evidence.bak.$$
git -C /repo apply /tmp/mut-$P-$K.diff || { echo "  change does not apply to /repo HEAD"; rm -rf /tmp/evidence.bak.$$; exit 3; }
for c in "$@"; do
  out=$(./check $c --tier quick 2>&1 | grep -E "^VIOLATION|quick:" | cut -c1-200 | tr '\n' ' ')
  echo "  [$c] $out"
done
git -C /repo checkout -- . ; rm -rf /verif/evidence; mv /tmp/evidence.bak.$$ /verif/evidence
git -C /repo status --short | grep -v '^??' | head -3
