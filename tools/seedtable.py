#!/usr/bin/env python3
"""Rewrites the table of seeded changes in DESIGN.md (section A.7) from seeded/*/meta.json."""
import json, os, re
ROOT = os.path.dirname(os.path.dirname(os.path.abspath(__file__)))
rows = []
for d in sorted(os.listdir(os.path.join(ROOT, "seeded"))):
    mp = os.path.join(ROOT, "seeded", d, "meta.json")
    if not os.path.exists(mp):
        continue
    m = json.load(open(mp))
    cell = lambda t: str(t).replace("|", "\\|").replace("\n", " ")
    rows.append("| `%s` | %s | %s | %s |" % (d, cell(m.get("breaks", "")), cell(m.get("needs", ""))[:400], cell(m.get("caught_by", ""))))
p = os.path.join(ROOT, "DESIGN.md")
s = open(p).read()
head = "| id | breaks | needs | caught by |\n|---|---|---|---|\n"
a = s.index(head) + len(head)
b = s.index("\n\n", a)
s = s[:a] + "\n".join(rows) + s[b:]
open(p, "w").write(s)
print("%d rows" % len(rows))
