# first differing op of lim-family cases
import sys,re,binascii
ins=open('/tmp/try.lines').read().splitlines(); outs=open('/tmp/try.out').read().splitlines(); k=int(sys.argv[1]) if len(sys.argv)>1 else 2
def show(t): return re.sub(r'\bs([0-9a-f]*)', lambda m: '"'+binascii.unhexlify(m.group(1)).decode('latin1')+'"', t)
def split_top(t):
    toks=t.split(); depth=0; items=[]; cur=[]
    for tk in toks[1:-1]:
        if tk=='(': depth+=1
        if tk==')': depth-=1
        cur.append(tk)
        if depth==0: items.append(' '.join(cur)); cur=[]
    return items
n=0;mm=0
for i,o in zip(ins,outs):
    a=i.split('\t'); b=o.split('\t')
    if b[0]!=b[1]:
        mm+=1
        if n<k:
            n+=1; top=split_top(a[1]); ops=split_top(top[3]); M=split_top(b[0]); I=split_top(b[1])
            print('=== max',show(top[1]),'files',show(top[2]))
            for j,op in enumerate(ops):
                print('  op',show(op))
                if j<len(M) and j<len(I) and M[j]!=I[j]:
                    for nm,x,y in zip(['est','with','without','purged','files'],split_top(M[j]),split_top(I[j])):
                        if x!=y: print('     ',nm,'M:',show(x)[:500]); print('     ',nm,'I:',show(y)[:500])
                    break
print(len(ins),'cases; mismatch',mm)
