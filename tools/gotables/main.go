// gotables: copies literal tables out of /repo's Go sources (via go/ast) into
// coq/Gen/Tables.v so the Coq theorems are re-checked against what the code
// says now. It only copies literals; it fails loudly when a table is not found
// in the shape it expects.
package main

import (
	"fmt"
	"go/ast"
	"go/constant"
	"go/parser"
	"go/token"
	"os"
	"path/filepath"
	"sort"
	"strconv"
	"strings"
)

var fset = token.NewFileSet()
var failed []string

func fail(format string, a ...interface{}) {
	failed = append(failed, fmt.Sprintf(format, a...))
}

func parse(repo, rel string) *ast.File {
	f, err := parser.ParseFile(fset, filepath.Join(repo, rel), nil, 0)
	if err != nil {
		fmt.Fprintf(os.Stderr, "gotables: cannot parse %s: %v\n", rel, err)
		os.Exit(2)
	}
	return f
}

func strLit(e ast.Expr) (string, bool) {
	bl, ok := e.(*ast.BasicLit)
	if !ok || bl.Kind != token.STRING {
		return "", false
	}
	s, err := strconv.Unquote(bl.Value)
	return s, err == nil
}

// evalInt evaluates an integer constant expression built from literals and + - * /.
func evalInt(e ast.Expr) (int64, bool) {
	switch v := e.(type) {
	case *ast.BasicLit:
		if v.Kind != token.INT {
			return 0, false
		}
		c := constant.MakeFromLiteral(v.Value, token.INT, 0)
		i, ok := constant.Int64Val(c)
		return i, ok
	case *ast.ParenExpr:
		return evalInt(v.X)
	case *ast.BinaryExpr:
		a, ok1 := evalInt(v.X)
		b, ok2 := evalInt(v.Y)
		if !ok1 || !ok2 {
			return 0, false
		}
		switch v.Op {
		case token.ADD:
			return a + b, true
		case token.SUB:
			return a - b, true
		case token.MUL:
			return a * b, true
		case token.QUO:
			if b == 0 {
				return 0, false
			}
			return a / b, true
		}
	}
	return 0, false
}

// findValue finds `name = <expr>` / `name := <expr>` / `var name = <expr>` / `const name = <expr>` anywhere in the file.
func findValue(f *ast.File, name string) ast.Expr {
	var found ast.Expr
	ast.Inspect(f, func(n ast.Node) bool {
		if found != nil {
			return false
		}
		switch v := n.(type) {
		case *ast.ValueSpec:
			for i, id := range v.Names {
				if id.Name == name && i < len(v.Values) {
					found = v.Values[i]
				}
			}
		case *ast.AssignStmt:
			for i, l := range v.Lhs {
				if id, ok := l.(*ast.Ident); ok && id.Name == name && i < len(v.Rhs) && v.Tok == token.DEFINE {
					found = v.Rhs[i]
				}
			}
		}
		return true
	})
	return found
}

func strConst(f *ast.File, name string) string {
	e := findValue(f, name)
	if e == nil {
		fail("string %s not found", name)
		return ""
	}
	s, ok := strLit(e)
	if !ok {
		fail("%s is not a string literal", name)
	}
	return s
}

func intConst(f *ast.File, name string) int64 {
	e := findValue(f, name)
	if e == nil {
		fail("int %s not found", name)
		return 0
	}
	i, ok := evalInt(e)
	if !ok {
		fail("%s is not an integer constant expression", name)
	}
	return i
}

func strSlice(f *ast.File, name string) []string {
	e := findValue(f, name)
	cl, ok := e.(*ast.CompositeLit)
	if e == nil || !ok {
		fail("slice %s not found", name)
		return nil
	}
	var out []string
	for _, el := range cl.Elts {
		s, ok := strLit(el)
		if !ok {
			fail("%s has a non-literal element", name)
			return nil
		}
		out = append(out, s)
	}
	return out
}

func intSlice(f *ast.File, name string) []int64 {
	e := findValue(f, name)
	cl, ok := e.(*ast.CompositeLit)
	if e == nil || !ok {
		fail("int slice %s not found", name)
		return nil
	}
	var out []int64
	for _, el := range cl.Elts {
		i, ok := evalInt(el)
		if !ok {
			fail("%s has a non-literal element", name)
			return nil
		}
		out = append(out, i)
	}
	return out
}

func mapKeys(f *ast.File, name string) []string {
	e := findValue(f, name)
	cl, ok := e.(*ast.CompositeLit)
	if e == nil || !ok {
		fail("map %s not found", name)
		return nil
	}
	var out []string
	for _, el := range cl.Elts {
		kv, ok := el.(*ast.KeyValueExpr)
		if !ok {
			fail("%s has a non key-value element", name)
			return nil
		}
		s, ok := strLit(kv.Key)
		if !ok {
			fail("%s has a non-literal key", name)
			return nil
		}
		out = append(out, s)
	}
	sort.Strings(out)
	return out
}

func findFunc(f *ast.File, name string) *ast.FuncDecl {
	for _, d := range f.Decls {
		if fd, ok := d.(*ast.FuncDecl); ok && fd.Name.Name == name {
			return fd
		}
	}
	return nil
}

// switchCaseInts collects the integer case labels of the first switch in func name whose body returns true.
func switchCaseInts(f *ast.File, fn string) []int64 {
	fd := findFunc(f, fn)
	if fd == nil {
		fail("func %s not found", fn)
		return nil
	}
	var out []int64
	ast.Inspect(fd, func(n ast.Node) bool {
		cc, ok := n.(*ast.CaseClause)
		if !ok {
			return true
		}
		for _, e := range cc.List {
			i, ok := evalInt(e)
			if !ok {
				fail("%s: non-literal case", fn)
				return false
			}
			out = append(out, i)
		}
		return true
	})
	if len(out) == 0 {
		fail("%s: no integer cases found", fn)
	}
	return out
}

// rangeBounds expects the body `return x >= LO && x <= HI`.
func rangeBounds(f *ast.File, fn string) (int64, int64) {
	fd := findFunc(f, fn)
	if fd == nil || len(fd.Body.List) != 1 {
		fail("func %s not found or not a single statement", fn)
		return 0, 0
	}
	rs, ok := fd.Body.List[0].(*ast.ReturnStmt)
	if !ok || len(rs.Results) != 1 {
		fail("%s: not a return", fn)
		return 0, 0
	}
	be, ok := rs.Results[0].(*ast.BinaryExpr)
	if !ok || be.Op != token.LAND {
		fail("%s: not a conjunction", fn)
		return 0, 0
	}
	l, ok1 := be.X.(*ast.BinaryExpr)
	r, ok2 := be.Y.(*ast.BinaryExpr)
	if !ok1 || !ok2 || l.Op != token.GEQ || r.Op != token.LEQ {
		fail("%s: not of the form x >= LO && x <= HI", fn)
		return 0, 0
	}
	lo, ok1 := evalInt(l.Y)
	hi, ok2 := evalInt(r.Y)
	if !ok1 || !ok2 {
		fail("%s: bounds are not literals", fn)
	}
	return lo, hi
}

func coqStr(s string) string {
	if len(s) == 0 {
		return "(@nil N)"
	}
	parts := make([]string, len(s))
	for i := 0; i < len(s); i++ {
		parts[i] = strconv.Itoa(int(s[i]))
	}
	return "[" + strings.Join(parts, "; ") + "]%N"
}

func coqStrList(ss []string) string {
	if len(ss) == 0 {
		return "(@nil str)"
	}
	parts := make([]string, len(ss))
	for i, s := range ss {
		parts[i] = coqStr(s)
	}
	return "[" + strings.Join(parts, ";\n   ") + "]"
}

func coqIntList(is []int64) string {
	if len(is) == 0 {
		return "(@nil Z)"
	}
	parts := make([]string, len(is))
	for i, v := range is {
		parts[i] = strconv.FormatInt(v, 10)
	}
	return "[" + strings.Join(parts, "; ") + "]%Z"
}

func main() {
	if len(os.Args) != 3 {
		fmt.Fprintln(os.Stderr, "usage: gotables <repo> <out.v>")
		os.Exit(2)
	}
	repo, out := os.Args[1], os.Args[2]
	px := parse(repo, "proxy/proxy.go")
	rc := parse(repo, "proxy/ruleconfig.go")
	uh := parse(repo, "util/http.go")
	cc := parse(repo, "caching/caching.go")
	dk := parse(repo, "caching/disk.go")
	sv := parse(repo, "server/server.go")

	var b strings.Builder
	b.WriteString("(* GENERATED by tools/gotables from /repo's current working tree. Do not edit. *)\n")
	b.WriteString("From Coq Require Import List NArith ZArith.\nFrom Verif Require Import GoStr.\nImport ListNotations.\n\n")
	def := func(name, typ, val, src string) {
		fmt.Fprintf(&b, "(* %s *)\nDefinition %s : %s :=\n  %s.\n\n", src, name, typ, val)
	}
	def("hdr_secret", "str", coqStr(strConst(px, "headerRichieRoutingSecret")), "proxy/proxy.go headerRichieRoutingSecret")
	def("hdr_orig_ip", "str", coqStr(strConst(px, "headerRichieOriginatingIP")), "proxy/proxy.go headerRichieOriginatingIP")
	def("hdr_req_id", "str", coqStr(strConst(px, "headerRichieRequestID")), "proxy/proxy.go headerRichieRequestID")
	def("hop_by_hop", "list str", coqStrList(strSlice(px, "nonForwardedHeaderNames")), "proxy/proxy.go createProxyRequest nonForwardedHeaderNames")
	lo, hi := rangeBounds(px, "is4xxError")
	def("retry_4xx_lo", "Z", fmt.Sprintf("%d%%Z", lo), "proxy/proxy.go is4xxError")
	def("retry_4xx_hi", "Z", fmt.Sprintf("%d%%Z", hi), "proxy/proxy.go is4xxError")
	def("known_methods", "list str", coqStrList(mapKeys(rc, "knownMethodsMap")), "proxy/ruleconfig.go knownMethodsMap (sorted keys)")
	def("known_types", "list str", coqStrList(mapKeys(rc, "knownTypesMap")), "proxy/ruleconfig.go knownTypesMap (sorted keys)")
	def("allowed_in_304", "list str", coqStrList(strSlice(uh, "HeadersAllowedIn304")), "util/http.go HeadersAllowedIn304")
	def("redirect_statuses", "list Z", coqIntList(switchCaseInts(uh, "IsRedirect")), "util/http.go IsRedirect")
	def("key_client_headers", "list str", coqStrList(strSlice(cc, "keyClientHeaders")), "caching/caching.go keyClientHeaders")
	def("hdr_cache_status", "str", coqStr(strConst(cc, "HeaderRrrouterCacheStatus")), "caching/caching.go HeaderRrrouterCacheStatus")
	lo, hi = rangeBounds(cc, "IsCacheableError")
	def("cacheable_err_lo", "Z", fmt.Sprintf("%d%%Z", lo), "caching/caching.go IsCacheableError")
	def("cacheable_err_hi", "Z", fmt.Sprintf("%d%%Z", hi), "caching/caching.go IsCacheableError")
	def("max_purge_bytes", "Z", fmt.Sprintf("%d%%Z", intConst(dk, "maxPurgeBytes")), "caching/disk.go maxPurgeBytes")
	def("metadata_xattr_name", "str", coqStr(strConst(dk, "metadataXAttrName")), "caching/disk.go metadataXAttrName")
	def("wait_timeouts", "list Z", coqIntList(intSlice(sv, "ts")), "server/server.go cachingFunc wait list")

	if len(failed) > 0 {
		for _, m := range failed {
			fmt.Fprintln(os.Stderr, "gotables: "+m)
		}
		os.Exit(1)
	}
	old, _ := os.ReadFile(out)
	if string(old) != b.String() { // keep mtime stable when nothing changed (incremental make)
		if err := os.WriteFile(out, []byte(b.String()), 0644); err != nil {
			fmt.Fprintln(os.Stderr, err)
			os.Exit(2)
		}
	}
}
