module verif/gotables

go 1.21
