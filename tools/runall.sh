#!/bin/bash
# run every registered quick check, one line each
cd /verif
for p in $(python3 -c "import json;print(' '.join(c['property_id'] for c in json.load(open('MANIFEST.json'))['checks']))"); do
  ./check $p --tier ${1:-quick} 2>&1 | grep -E "^VIOLATION|quick:|thorough:" | cut -c1-220 | tr '\n' ' '; echo
done
