package main

// The "route" family: a real rrrouter server (proxy + server packages, built from
// /repo's working tree) behind a real listener, a scripted performer in place of
// the network, and a raw TCP client.

import (
	"bufio"
	"bytes"
	"encoding/json"
	"errors"
	"fmt"
	"io/ioutil"
	"net"
	"net/http"
	"net/http/httptest"
	"net/url"
	"path"
	"regexp"
	"strconv"
	"sort"
	"strings"
	"sync"
	"time"

	apexlog "github.com/apex/log"
	"github.com/apex/log/handlers/discard"
	"github.com/richiefi/rrrouter/config"
	"github.com/richiefi/rrrouter/proxy"
	"github.com/richiefi/rrrouter/server"

	"verif/harness/sx"
)

type KV struct{ K, V string }
type KVOpt struct {
	K string
	V *string
}

type Rule struct {
	Enabled    bool
	Scheme     string
	Host       string
	Path       string
	Dest       string
	Internal   bool
	Methods    []string
	Type       int // 1 proxy, 2 copy
	HostHeader string
	Recomp     bool
	Cache      string
	Force      int
	ReqHdrs    []KVOpt
	RespHdrs   []KV
	Restart    bool
	Retry      *Rule
}

type Req struct {
	Method string
	Host   string
	Target string
	Hdrs   []KV
	Body   string
}

type Behaviour struct {
	Err    bool
	Status int
	Hdrs   []KV
	Body   string
	Enc    string // "", "gzip", "br", "gzip-multi": how the origin encodes Body on the wire (Hdrs says Content-Encoding)
}

type HostScript struct {
	Host string
	Bs   []Behaviour
}

type RouteCase struct {
	Secrets *[]string
	Retries int
	Rules   []Rule
	Req     Req
	Script  []HostScript
}

// ---------- sx encoding / decoding ----------

func kvs(l []KV) sx.V {
	out := []sx.V{}
	for _, kv := range l {
		out = append(out, sx.L(sx.S(kv.K), sx.S(kv.V)))
	}
	return sx.L(out...)
}

func unkvs(v sx.V) []KV {
	out := []KV{}
	for _, e := range v.List() {
		out = append(out, KV{e.N(0).Str(), e.N(1).Str()})
	}
	return out
}

func (r Rule) sx() sx.V {
	rq := []sx.V{}
	for _, kv := range r.ReqHdrs {
		rq = append(rq, sx.L(sx.S(kv.K), sx.OptS(kv.V)))
	}
	retry := sx.L()
	if r.Retry != nil {
		retry = sx.L(r.Retry.sx())
	}
	return sx.L(sx.B(r.Enabled), sx.S(r.Scheme), sx.S(r.Host), sx.S(r.Path), sx.S(r.Dest), sx.B(r.Internal),
		sx.Strs(r.Methods), sx.I(int64(r.Type)), sx.S(r.HostHeader), sx.B(r.Recomp), sx.S(r.Cache), sx.I(int64(r.Force)),
		sx.L(rq...), kvs(r.RespHdrs), sx.B(r.Restart), retry)
}

func ruleFromSx(v sx.V) Rule {
	r := Rule{Enabled: v.N(0).Bool(), Scheme: v.N(1).Str(), Host: v.N(2).Str(), Path: v.N(3).Str(), Dest: v.N(4).Str(),
		Internal: v.N(5).Bool(), Methods: v.N(6).StrList(), Type: int(v.N(7).Int()), HostHeader: v.N(8).Str(),
		Recomp: v.N(9).Bool(), Cache: v.N(10).Str(), Force: int(v.N(11).Int()), RespHdrs: unkvs(v.N(13)), Restart: v.N(14).Bool()}
	for _, e := range v.N(12).List() {
		kv := KVOpt{K: e.N(0).Str()}
		if len(e.N(1).List()) == 1 {
			s := e.N(1).N(0).Str()
			kv.V = &s
		}
		r.ReqHdrs = append(r.ReqHdrs, kv)
	}
	if len(v.N(15).List()) == 1 {
		rr := ruleFromSx(v.N(15).N(0))
		r.Retry = &rr
	}
	return r
}

// normalise computes what Go's net/url makes of a request-target, with net/url alone:
// the request-URI after the String/Parse round trip, the raw query, and URL.String().
func normalise(target string) (uri, query, ustr string, ok bool) {
	u, err := url.ParseRequestURI(target)
	if err != nil || !strings.HasPrefix(target, "/") {
		return "", "", "", false
	}
	ustr = u.String()
	query = u.RawQuery
	u2 := *u
	u2.Scheme = "http"
	u2.Host = "h"
	u3, err := url.Parse(u2.String())
	if err != nil {
		return "", "", "", false
	}
	return u3.RequestURI(), query, ustr, true
}

// badHosts: which of the strings DropPort could make of a Host value does net/url refuse
// (or change) when the URL is rendered and parsed again? Computed with net/url alone.
func badHosts(h string) []string {
	cands := []string{h}
	if i := strings.LastIndex(h, ":"); i >= 0 {
		cands = append(cands, h[:i])
	}
	if i := strings.LastIndex(h, "]"); i >= 1 {
		cands = append(cands, h[1:i])
	}
	out := []string{}
	for _, c := range cands {
		u := url.URL{Scheme: "http", Host: c, Path: "/"}
		u2, err := url.Parse(u.String())
		if err != nil || u2.Host != c {
			out = append(out, c)
		}
	}
	return out
}

// muxWouldRedirect: Go's ServeMux answers 301 by itself for unclean paths.
func muxWouldRedirect(target string) bool {
	u, err := url.ParseRequestURI(target)
	if err != nil {
		return true
	}
	p := u.Path
	if p == "" {
		return true
	}
	np := path.Clean(p)
	if p[len(p)-1] == '/' && np != "/" {
		np += "/"
	}
	return np != p
}

const mintedUUID = "<uuid>"

// a request that carries this header (it is forwarded like any other) sends its body with
// Transfer-Encoding: chunked instead of a Content-Length
const chunkedHeader = "X-Hx-Chunked"

// a scripted answer with this body is answered with a text naming the URL that was requested
const echoBody = "@echo-url"
const echoOriginBody = "@echo-origin"
const remoteIP = "127.0.0.1"

func (c RouteCase) sx() sx.V {
	secrets := sx.L()
	if c.Secrets != nil {
		secrets = sx.L(sx.Strs(*c.Secrets))
	}
	rules := []sx.V{}
	for _, r := range c.Rules {
		rules = append(rules, r.sx())
	}
	uri, query, ustr, _ := normalise(c.Req.Target)
	hdrs := []KV{}
	for _, kv := range c.Req.Hdrs {
		// Go's request reader trims optional white space around field values
		hdrs = append(hdrs, KV{kv.K, strings.Trim(kv.V, " \t")})
	}
	script := []sx.V{}
	for _, hs := range c.Script {
		bs := []sx.V{}
		for _, b := range hs.Bs {
			if b.Err {
				bs = append(bs, sx.L())
			} else {
				bs = append(bs, sx.L(sx.I(int64(b.Status)), kvs(b.Hdrs), sx.S(b.Body)))
			}
		}
		script = append(script, sx.L(sx.S(hs.Host), sx.L(bs...)))
	}
	req := sx.L(sx.S(c.Req.Method), sx.S(c.Req.Host), sx.B(false), sx.S(uri), sx.S(query), sx.S(ustr),
		kvs(hdrs), sx.S(c.Req.Body), sx.S(remoteIP), sx.S(mintedUUID), sx.S(c.Req.Target), sx.Strs(badHosts(c.Req.Host)))
	return sx.L(sx.S("route"), sx.L(secrets, sx.I(int64(c.Retries))), sx.L(rules...), req, sx.L(script...))
}

func routeCaseFromSx(v sx.V) RouteCase {
	c := RouteCase{Retries: int(v.N(1).N(1).Int())}
	if len(v.N(1).N(0).List()) == 1 {
		ss := v.N(1).N(0).N(0).StrList()
		c.Secrets = &ss
	}
	for _, r := range v.N(2).List() {
		c.Rules = append(c.Rules, ruleFromSx(r))
	}
	q := v.N(3)
	c.Req = Req{Method: q.N(0).Str(), Host: q.N(1).Str(), Target: q.N(10).Str(), Hdrs: unkvs(q.N(6)), Body: q.N(7).Str()}
	for _, hs := range v.N(4).List() {
		h := HostScript{Host: hs.N(0).Str()}
		for _, b := range hs.N(1).List() {
			if len(b.List()) == 0 {
				h.Bs = append(h.Bs, Behaviour{Err: true})
			} else {
				h.Bs = append(h.Bs, Behaviour{Status: int(b.N(0).Int()), Hdrs: unkvs(b.N(1)), Body: b.N(2).Str()})
			}
		}
		c.Script = append(c.Script, h)
	}
	return c
}

// ---------- config rendering ----------

func (r Rule) jsonMap() map[string]interface{} {
	m := map[string]interface{}{"path": r.Path, "destination": r.Dest}
	if !r.Enabled {
		m["enabled"] = false
	}
	if r.Scheme != "" {
		m["scheme"] = r.Scheme
	}
	if r.Host != "" {
		m["host"] = r.Host
	}
	if r.Internal {
		m["internal"] = true
	}
	if len(r.Methods) > 0 {
		m["methods"] = r.Methods
	}
	if r.Type == 2 {
		m["type"] = "copy_traffic"
	}
	if r.HostHeader != "" {
		m["hostheader"] = r.HostHeader
	}
	if r.Recomp {
		m["recompression"] = true
	}
	if r.Cache != "" {
		m["cache"] = r.Cache
	}
	if r.Force != 0 {
		m["force_revalidate"] = r.Force
	}
	if len(r.ReqHdrs) > 0 {
		h := map[string]interface{}{}
		for _, kv := range r.ReqHdrs {
			if kv.V == nil {
				h[kv.K] = nil
			} else {
				h[kv.K] = *kv.V
			}
		}
		m["request_headers"] = h
	}
	if len(r.RespHdrs) > 0 {
		h := map[string]string{}
		for _, kv := range r.RespHdrs {
			h[kv.K] = kv.V
		}
		m["response_headers"] = h
	}
	if r.Restart {
		m["restart_on_redirect"] = true
	}
	if r.Retry != nil {
		m["retry_rule"] = r.Retry.jsonMap()
	}
	return m
}

func rulesJSON(rs []Rule) []byte {
	l := []interface{}{}
	for _, r := range rs {
		l = append(l, r.jsonMap())
	}
	b, _ := json.Marshal(map[string]interface{}{"rules": l})
	return b
}

// ---------- scripted performer ----------

type Delivery struct {
	URL    string
	Host   string
	Method string
	Hdrs   http.Header
	Body   string
}

type performer struct {
	mu     sync.Mutex
	script map[string][]Behaviour
	log    []Delivery
	sent   map[string]bool // client-sent header values (to tell minted ids from relayed ones)
	clFromHeader bool      // Response.ContentLength from the scripted Content-Length header (-1 when absent)
	runaway      chan struct{} // closed when the case ends; a request with hundreds of deliveries is parked on it
	hook   func(d *Delivery, b *Behaviour)
	late   chan struct{} // non-nil: request bodies are read only after this channel is closed
	lateWG sync.WaitGroup
}

func newPerformer(script []HostScript) *performer {
	p := &performer{script: map[string][]Behaviour{}, sent: map[string]bool{}}
	for _, hs := range script {
		p.script[hs.Host] = append([]Behaviour{}, hs.Bs...)
	}
	return p
}

func (p *performer) Do(req *http.Request) (*http.Response, error) {
	body := ""
	p.mu.Lock()
	late := p.late
	p.mu.Unlock()
	// a destination that answers before it has read the request body (a RoundTripper may go on reading the body
	// after RoundTrip has returned): only for requests rrrouter buffers, i.e. not a POST it streams through
	lateRead := late != nil && req.Body != nil && req.Method != "POST"
	if req.Body != nil && !lateRead {
		b, _ := ioutil.ReadAll(req.Body)
		body = string(b)
	}
	p.mu.Lock()
	d := Delivery{URL: req.URL.String(), Host: req.Host, Method: req.Method, Hdrs: req.Header.Clone(), Body: body}
	p.log = append(p.log, d)
	if lateRead {
		idx := len(p.log) - 1
		rb := req.Body
		p.lateWG.Add(1)
		go func() {
			defer p.lateWG.Done()
			<-late
			b, _ := ioutil.ReadAll(rb)
			rb.Close()
			p.mu.Lock()
			if idx < len(p.log) {
				p.log[idx].Body = string(b)
			}
			p.mu.Unlock()
		}()
	}
	if len(p.log) > 300 && p.runaway != nil {
		// runaway request (unbounded internal recursion): park it instead of letting the stack grow
		ch := p.runaway
		p.mu.Unlock()
		<-ch
		return nil, errors.New("runaway request stopped by the harness")
	}
	bs := p.script[req.URL.Host]
	var b Behaviour
	switch len(bs) {
	case 0:
		b = Behaviour{Err: true}
	case 1:
		b = bs[0]
	default:
		b = bs[0]
		p.script[req.URL.Host] = bs[1:]
	}
	hook := p.hook
	p.mu.Unlock()
	if b.Body == echoOriginBody {
		// a resource whose content depends on the Origin of the request
		b.Body = "generated for origin " + req.Header.Get("Origin")
	}
	if b.Body == echoBody {
		// a resource whose content depends on the whole URL it was asked for, query included
		b.Body = "generated for " + req.URL.String()
	}
	if hook != nil {
		hook(&d, &b)
	}
	if b.Err {
		return nil, errors.New("dial tcp: connection refused (scripted)")
	}
	// the scripted origin answers 304 only to a conditional request
	if b.Status == 304 && req.Header.Get("If-None-Match") == "" && req.Header.Get("If-Modified-Since") == "" {
		b = Behaviour{Status: 200, Hdrs: []KV{{"Content-Type", "text/plain"}, {"Content-Length", "13"}}, Body: "unconditional"}
	}
	h := http.Header{}
	for _, kv := range b.Hdrs {
		h.Add(kv.K, kv.V)
	}
	if b.Enc != "" {
		b.Body = encodeBody(b.Body, b.Enc)
		if h.Get("Content-Length") != "" {
			h.Set("Content-Length", strconv.Itoa(len(b.Body)))
		}
	}
	cl := int64(len(b.Body))
	if p.clFromHeader {
		cl = -1
		if v := h.Get("Content-Length"); v != "" {
			if n, err := strconv.ParseInt(v, 10, 64); err == nil {
				cl = n
			}
		}
	}
	return &http.Response{
		Status: fmt.Sprintf("%d %s", b.Status, http.StatusText(b.Status)), StatusCode: b.Status,
		Proto: "HTTP/1.1", ProtoMajor: 1, ProtoMinor: 1,
		Header: h, Body: ioutil.NopCloser(strings.NewReader(b.Body)), ContentLength: cl,
		Request: req,
	}, nil
}

func (p *performer) CloseIdleConnections() {}

// ---------- raw client ----------

type ClientObs struct {
	Kind    string
	Status  int
	Hdrs    http.Header
	Body    string
	Aborted bool
}

func rawRequest(addr string, r Req) (ClientObs, error) {
	conn, err := net.DialTimeout("tcp", addr, 5*time.Second)
	if err != nil {
		return ClientObs{}, err
	}
	defer conn.Close()
	conn.SetDeadline(time.Now().Add(6 * time.Second))
	var b bytes.Buffer
	fmt.Fprintf(&b, "%s %s HTTP/1.1\r\nHost: %s\r\n", r.Method, r.Target, r.Host)
	for _, kv := range r.Hdrs {
		fmt.Fprintf(&b, "%s: %s\r\n", kv.K, kv.V)
	}
	chunked := false
	for _, kv := range r.Hdrs {
		if kv.K == chunkedHeader && len(r.Body) > 0 {
			chunked = true
		}
	}
	if chunked {
		// a body of unknown length: Transfer-Encoding: chunked, in pieces of at most 1000 bytes
		b.WriteString("Transfer-Encoding: chunked\r\n\r\n")
		for rest := r.Body; len(rest) > 0; {
			n := len(rest)
			if n > 1000 {
				n = 1000
			}
			fmt.Fprintf(&b, "%x\r\n%s\r\n", n, rest[:n])
			rest = rest[n:]
		}
		b.WriteString("0\r\n\r\n")
	} else {
		if len(r.Body) > 0 || r.Method == "POST" || r.Method == "PUT" {
			fmt.Fprintf(&b, "Content-Length: %d\r\n", len(r.Body))
		}
		b.WriteString("\r\n")
		b.WriteString(r.Body)
	}
	if _, err := conn.Write(b.Bytes()); err != nil {
		return ClientObs{}, err
	}
	br := bufio.NewReader(conn)
	resp, err := http.ReadResponse(br, &http.Request{Method: r.Method})
	if err != nil {
		return ClientObs{Kind: "no-response"}, nil
	}
	body, rerr := ioutil.ReadAll(resp.Body)
	resp.Body.Close()
	o := ClientObs{Status: resp.StatusCode, Hdrs: resp.Header, Body: string(body), Aborted: rerr != nil}
	rawLen := len(body)
	if cl := resp.Header.Get("Content-Length"); cl != "" && r.Method != "HEAD" && resp.StatusCode != 304 && resp.StatusCode != 204 && resp.StatusCode >= 200 {
		if fmt.Sprint(rawLen) != cl {
			o.Aborted = true
		}
	}
	// what the client makes of the body: decoded as the response's Content-Encoding says
	if dec, ok := decodeBody(o.Body, resp.Header.Get("Content-Encoding")); ok {
		o.Body = dec
	} else {
		o.Body = "<undecodable " + resp.Header.Get("Content-Encoding") + ">"
	}
	o.Kind = classify(o, r.Method)
	return o, nil
}

func classify(o ClientObs, method string) string {
	if o.Hdrs.Get("Richie-Edge-Cache") != "" {
		return "origin"
	}
	var m map[string]interface{}
	if strings.HasPrefix(o.Hdrs.Get("Content-Type"), "application/json") && json.Unmarshal([]byte(o.Body), &m) == nil {
		if _, ok := m["Message"]; ok {
			return "error-json"
		}
	}
	if method == "HEAD" && strings.HasPrefix(o.Hdrs.Get("Content-Type"), "application/json") && o.Status >= 400 {
		return "error-json" // the body of rrrouter's JSON error is not sent for HEAD
	}
	if o.Status == 200 && o.Body == "" {
		return "recovered"
	}
	return "bare"
}

func hdrSx(h http.Header) sx.V {
	keys := []string{}
	for k := range h {
		keys = append(keys, k)
	}
	sort.Strings(keys)
	out := []sx.V{}
	for _, k := range keys {
		out = append(out, sx.L(sx.S(k), sx.Strs(h[k])))
	}
	return sx.L(out...)
}

var uuidRe = regexp.MustCompile(`^[0-9a-f]{8}-[0-9a-f]{4}-[0-9a-f]{4}-[0-9a-f]{4}-[0-9a-f]{12}$`)

func (o ClientObs) sx() sx.V {
	return sx.L(sx.S(o.Kind), sx.I(int64(o.Status)), hdrSx(o.Hdrs), sx.S(o.Body), sx.B(o.Aborted))
}

func deliveriesSx(log []Delivery, sent map[string]bool) sx.V {
	out := []sx.V{}
	for _, d := range log {
		h := d.Hdrs.Clone()
		for k, vs := range h {
			for i, v := range vs {
				if uuidRe.MatchString(v) && !sent[v] {
					h[k][i] = mintedUUID
				}
			}
		}
		out = append(out, sx.L(sx.S(d.URL), sx.S(d.Host), sx.S(d.Method), hdrSx(h), sx.S(d.Body)))
	}
	return sx.L(out...)
}

var discardLogger = &apexlog.Logger{Handler: discard.New(), Level: apexlog.FatalLevel}

// runRoute executes one case against the real code and returns the raw observation.
func runRoute(c RouteCase) (sx.V, error) {
	rules, err := proxy.ParseRules(rulesJSON(c.Rules), discardLogger)
	if err != nil {
		return sx.L(), fmt.Errorf("ParseRules rejected a generated ruleset: %v", err)
	}
	conf := &config.Config{RetryTimes: make([]int, c.Retries)}
	if c.Secrets != nil {
		conf.RoutingSecrets = *c.Secrets
	}
	perf := newPerformer(c.Script)
	for _, kv := range c.Req.Hdrs {
		perf.sent[kv.V] = true
	}
	router := proxy.NewRouterWithPerformer(rules, discardLogger, conf, perf)
	smux := http.NewServeMux()
	server.ConfigureServeMux(smux, conf, router, discardLogger, nil)
	ts := httptest.NewServer(smux)
	defer ts.Close()
	o, err := rawRequest(ts.Listener.Addr().String(), c.Req)
	if err != nil {
		return sx.L(), err
	}
	perf.mu.Lock()
	defer perf.mu.Unlock()
	return sx.L(o.sx(), deliveriesSx(perf.log, perf.sent)), nil
}
