package main

import (
	"verif/harness/sx"
)

// The "copy" family (C20): the same request is run without the copy rules and
// with them under several copy-destination behaviours.
type CopyCase struct {
	Base     RouteCase
	Variants [][]HostScript
}

type copyCase struct{ c CopyCase }

func scriptSx(script []HostScript) sx.V {
	out := []sx.V{}
	for _, hs := range script {
		bs := []sx.V{}
		for _, b := range hs.Bs {
			if b.Err {
				bs = append(bs, sx.L())
			} else {
				if b.Enc != "" {
					bs = append(bs, sx.L(sx.I(int64(b.Status)), kvs(b.Hdrs), sx.S(b.Body), sx.S(b.Enc)))
				} else {
					bs = append(bs, sx.L(sx.I(int64(b.Status)), kvs(b.Hdrs), sx.S(b.Body)))
				}
			}
		}
		out = append(out, sx.L(sx.S(hs.Host), sx.L(bs...)))
	}
	return sx.L(out...)
}

func scriptFromSx(v sx.V) []HostScript {
	var out []HostScript
	for _, hs := range v.List() {
		h := HostScript{Host: hs.N(0).Str()}
		for _, b := range hs.N(1).List() {
			if len(b.List()) == 0 {
				h.Bs = append(h.Bs, Behaviour{Err: true})
			} else {
				h.Bs = append(h.Bs, Behaviour{Status: int(b.N(0).Int()), Hdrs: unkvs(b.N(1)), Body: b.N(2).Str(), Enc: b.N(3).Str()})
			}
		}
		out = append(out, h)
	}
	return out
}

func (c copyCase) Sx() sx.V {
	b := c.c.Base.sx()
	vs := []sx.V{}
	for _, v := range c.c.Variants {
		vs = append(vs, scriptSx(v))
	}
	l := append([]sx.V{sx.S("copy")}, b.L[1:]...)
	l = append(l, sx.L(vs...))
	return sx.L(l...)
}

func copyCaseFromSx(v sx.V) CopyCase {
	c := CopyCase{Base: routeCaseFromSx(v)}
	for _, s := range v.N(5).List() {
		c.Variants = append(c.Variants, scriptFromSx(s))
	}
	return c
}

func (c copyCase) Run() (sx.V, error) {
	base := c.c.Base
	var rs []Rule
	for _, r := range base.Rules {
		if r.Type == 1 {
			rs = append(rs, r)
		}
	}
	nc := base
	nc.Rules = rs
	var out []sx.V
	if len(rs) == 0 {
		// a ruleset needs at least one rule: keep a disabled one so the configuration loads
		nc.Rules = []Rule{{Enabled: false, Path: "/never", Dest: "http://never.test/", Type: 1}}
	}
	o, err := runRoute(nc)
	if err != nil {
		return sx.L(), err
	}
	out = append(out, o)
	for _, v := range c.c.Variants {
		vc := base
		vc.Script = append(append([]HostScript{}, v...), base.Script...)
		o, err := runRoute(vc)
		if err != nil {
			return sx.L(), err
		}
		out = append(out, o)
	}
	return sx.L(out...), nil
}
