package main

// The "aecache" family (C06): one resource behind a rule with recompression AND a cache, requested by a
// sequence of clients with different Accept-Encoding values. Each client must get the origin's content in an
// encoding that is the origin's own or one it listed - also when the answer comes from the cache, where an
// entry written for another client's Accept-Encoding must not be handed out.

import (
	"fmt"
	"regexp"
	"strconv"
	"strings"

	"verif/harness/sx"
)

type aeCase struct {
	Recomp         bool
	CE, CT, CC     string
	Content        string
	AEs            []string // "-" = no Accept-Encoding header
	Ranges         []string // per request: a Range header, or "" (with an identity or a gzip origin)
	Vary           bool     // every client sends the same Origin and the resource says Vary: Origin (the entries live under the Origin's key)
}

func (c aeCase) Sx() sx.V {
	return sx.L(sx.S("aecache"), sx.B(c.Recomp), sx.S(c.CE), sx.S(c.CT), sx.S(c.CC), sx.S(c.Content), sx.Strs(c.AEs), sx.Strs(c.rangesOrNone()), sx.B(c.Vary))
}

func (c aeCase) rangesOrNone() []string {
	if len(c.Ranges) == len(c.AEs) {
		return c.Ranges
	}
	return make([]string, len(c.AEs))
}

func aeCaseFromSx(v sx.V) aeCase {
	return aeCase{Recomp: v.N(1).Bool(), CE: v.N(2).Str(), CT: v.N(3).Str(), CC: v.N(4).Str(), Content: v.N(5).Str(), AEs: v.N(6).StrList(), Ranges: v.N(7).StrList(), Vary: len(v.List()) > 8 && v.N(8).Bool()}
}

var contentRangeRe = regexp.MustCompile(`^bytes (\d+)-(\d+)/(\d+|\*)$`)

func (c aeCase) Run() (sx.V, error) {
	rule := Rule{Enabled: true, Path: "/r/*", Dest: "http://o.test/$1", Type: 1, Recomp: c.Recomp, Cache: "c1"}
	hdrs := []KV{{"Content-Type", c.CT}, {"Cache-Control", c.CC}}
	if c.CE != "" {
		hdrs = append(hdrs, KV{"Content-Encoding", c.CE})
	}
	if c.Vary {
		hdrs = append(hdrs, KV{"Vary", "Origin"})
	}
	hdrs = append(hdrs, KV{"Content-Length", strconv.Itoa(len(c.Content))}) // replaced by the length on the wire for an encoded body
	ops := []Op{{Kind: "script", Script: []HostScript{{"o.test", []Behaviour{{Status: 200, Hdrs: hdrs, Body: c.Content, Enc: c.CE}}}}}}
	ranges := c.rangesOrNone()
	for i, ae := range c.AEs {
		q := Req{Method: "GET", Host: "client.test", Target: "/r/x"}
		if ae != "-" {
			q.Hdrs = []KV{{"Accept-Encoding", ae}}
		}
		if ranges[i] != "" {
			q.Hdrs = append(q.Hdrs, KV{"Range", ranges[i]})
		}
		if c.Vary {
			q.Hdrs = append(q.Hdrs, KV{"Origin", "https://app.example"})
		}
		ops = append(ops, Op{Kind: "req", Req: q})
	}
	raw, err := cacheCase{CacheCase{Rules: []Rule{rule}, Caches: []string{"c1"}, Base: cacheBase, Ops: ops}}.Run()
	if err != nil {
		return sx.L(), err
	}
	var outs []sx.V
	for _, o := range raw.List() {
		cl := o.N(0)
		ce, edge, cr, clen := "", "", "", ""
		for _, kv := range cl.N(2).List() {
			switch strings.ToLower(kv.N(0).Str()) {
			case "content-encoding":
				ce = strings.Join(kv.N(1).StrList(), ",")
			case "richie-edge-cache":
				edge = strings.Join(kv.N(1).StrList(), ",")
			case "content-range":
				cr = strings.Join(kv.N(1).StrList(), ",")
			case "content-length":
				clen = strings.Join(kv.N(1).StrList(), ",")
			}
		}
		status := cl.N(1).Int()
		body := cl.N(3).Str()
		// for a partial response: the span its Content-Range names and its Content-Length (the client has already
		// compared the Content-Length with the bytes that arrived: "cut short")
		span, declared := int64(-1), int64(-1)
		if status == 206 {
			if m := contentRangeRe.FindStringSubmatch(cr); m != nil {
				a, _ := strconv.ParseInt(m[1], 10, 64)
				b, _ := strconv.ParseInt(m[2], 10, 64)
				span = b - a + 1
			}
			if n, err := strconv.ParseInt(clen, 10, 64); err == nil {
				declared = n
			}
			if ce != "" {
				body = "<part of the encoded entry>" // a slice of gzip/br bytes cannot be decoded on its own
			}
		}
		if cl.N(4).Bool() {
			body += "<cut short>"
		}
		outs = append(outs, sx.L(sx.I(status), sx.S(ce), sx.S(body), sx.S(edge), sx.I(int64(len(o.N(1).List()))), sx.I(span), sx.I(declared)))
	}
	if len(outs) != len(c.AEs) {
		return sx.L(), fmt.Errorf("aecache: %d observations for %d requests", len(outs), len(c.AEs))
	}
	return sx.L(outs...), nil
}

var aePool = []string{"-", "gzip", "br", "gzip, br", "gzip, deflate, br", "br, gzip", "deflate", "identity", "gzip;q=1.0, br;q=0.5", "GZIP", "x-gzip", "gzip, deflate", "*"}

func genAeCache(tier string, rng *Rng) []Case {
	n := 150
	if tier == "thorough" {
		n = 2500
	}
	var out []Case
	// pinned: a browser that lists gzip before br, then a gzip-only client, and back
	out = append(out, aeCase{Recomp: true, CT: "text/html", CC: "max-age=600", Content: strings.Repeat("lorem ipsum ", 200),
		AEs: []string{"gzip, deflate, br", "gzip", "gzip, deflate, br", "gzip", "deflate", "-", "br", "gzip"}})
	// pinned: a part of the resource requested by clients for which the body is recompressed (first request and hit) and is not
	out = append(out, aeCase{Recomp: true, CT: "text/plain", CC: "max-age=600", Content: strings.Repeat("0123456789", 10),
		AEs:    []string{"gzip", "gzip", "-", "-", "br", "br", "gzip"},
		Ranges: []string{"bytes=10-19", "bytes=10-19", "bytes=10-19", "bytes=-5", "bytes=90-", "", "bytes=0-0"}})
	// pinned: a gzip origin and a client for which rrrouter takes the coding off (q-values): the range on the fill cannot be
	// cut out of the compressed length; and a client that takes the gzip body as it is
	out = append(out, aeCase{Recomp: true, CE: "gzip", CT: "text/plain", CC: "max-age=600", Content: strings.Repeat("0123456789", 400),
		AEs:    []string{"gzip;q=1.0, identity;q=0.5", "gzip;q=1.0, identity;q=0.5", "gzip", "gzip", "br", "br"},
		Ranges: []string{"bytes=10-19", "bytes=3000-3009", "bytes=10-19", "bytes=0-4", "bytes=3990-", "bytes=10-15"}})
	for i := 0; i < n; i++ {
		c := aeCase{Recomp: rng.Chance(85, 100), Vary: rng.Chance(30, 100), CE: rng.Pick([]string{"", "", "gzip", "br"}),
			CT: rng.Pick([]string{"text/html", "text/plain; charset=utf-8", "application/json", "image/png"}),
			CC: rng.Pick([]string{"max-age=600", "max-age=600", "max-age=600, no-transform", "public, max-age=600"})}
		size := rng.Pick2([]int{1, 17, 1000, 40000})
		var b strings.Builder
		for b.Len() < size {
			b.WriteString(rng.Pick([]string{"lorem ipsum ", "{\"k\": [1,2,3]} ", "\x00\xff\x10binary ", "aaaaaaaaaaaaaaaaaaaaaaaa"}))
		}
		c.Content = b.String()[:size]
		// a few distinct values, each likely to come back: later requests meet entries written for earlier ones
		k := 2 + rng.Intn(3)
		vals := make([]string, k)
		for j := range vals {
			vals[j] = rng.Pick(aePool)
		}
		for j := 4 + rng.Intn(5); j > 0; j-- {
			c.AEs = append(c.AEs, vals[rng.Intn(k)])
		}
		if (c.CE == "" || c.CE == "gzip") && size >= 17 && rng.Chance(50, 100) {
			// some of the clients ask for a part of the resource
			c.Ranges = make([]string, len(c.AEs))
			for j := range c.Ranges {
				if rng.Chance(45, 100) {
					lim := size
					if c.CE != "" {
						lim = 16 // inside the encoded body whatever its length (a gzip stream has at least 18 bytes of framing)
					}
					a := rng.Intn(lim - 1)
					b := a + rng.Intn(lim-a)
					c.Ranges[j] = rng.Pick([]string{fmt.Sprintf("bytes=%d-%d", a, b), fmt.Sprintf("bytes=%d-", a), fmt.Sprintf("bytes=-%d", 1+rng.Intn(lim-1))})
				}
			}
		}
		out = append(out, c)
	}
	return out
}
