package main

// The "cfg" family (C19): configuration documents in a JSON and a YAML spelling through the real
// proxy.ParseRules / caching.ParseStorageConfigs, the parsed rules dumped (verif hook) and a few
// requests routed under each accepted spelling. The model is handed the trees the Go YAML and
// JSON parsers produce for the two texts.

import (
	"bytes"
	"encoding/json"
	"fmt"
	"io"
	"net/http"
	"net/http/httptest"
	"net/url"
	"sort"
	"strconv"
	"strings"
	"time"

	datasize "github.com/c2h5oh/datasize"
	yaml "gopkg.in/yaml.v2"

	"github.com/richiefi/rrrouter/caching"
	"github.com/richiefi/rrrouter/config"
	"github.com/richiefi/rrrouter/proxy"
	"github.com/richiefi/rrrouter/server"

	"verif/harness/sx"
)

// ---------- document trees ----------

type JV struct {
	K byte // n b i f s a o
	B bool
	I int64
	S string // string value, or the literal of a non-integer number
	A []JV
	O []JKV
}
type JKV struct {
	K string
	V JV
}

func jnull() JV            { return JV{K: 'n'} }
func jbool(b bool) JV      { return JV{K: 'b', B: b} }
func jint(i int64) JV      { return JV{K: 'i', I: i} }
func jfloat(lit string) JV { return JV{K: 'f', S: lit} }
func jstr(s string) JV     { return JV{K: 's', S: s} }
func jarr(a ...JV) JV      { return JV{K: 'a', A: a} }
func jobj(kv ...JKV) JV    { return JV{K: 'o', O: kv} }

func (v JV) toJSON(b *bytes.Buffer) {
	switch v.K {
	case 'n':
		b.WriteString("null")
	case 'b':
		b.WriteString(strconv.FormatBool(v.B))
	case 'i':
		b.WriteString(strconv.FormatInt(v.I, 10))
	case 'f':
		b.WriteString(v.S)
	case 's':
		e, _ := json.Marshal(v.S)
		b.Write(e)
	case 'a':
		b.WriteByte('[')
		for i, x := range v.A {
			if i > 0 {
				b.WriteByte(',')
			}
			x.toJSON(b)
		}
		b.WriteByte(']')
	case 'o':
		b.WriteByte('{')
		for i, kv := range v.O {
			if i > 0 {
				b.WriteByte(',')
			}
			e, _ := json.Marshal(kv.K)
			b.Write(e)
			b.WriteByte(':')
			kv.V.toJSON(b)
		}
		b.WriteByte('}')
	}
}

func (v JV) toYAMLValue() interface{} {
	switch v.K {
	case 'n':
		return nil
	case 'b':
		return v.B
	case 'i':
		return int(v.I)
	case 'f':
		f, _ := strconv.ParseFloat(v.S, 64)
		return f
	case 's':
		return v.S
	case 'a':
		out := make([]interface{}, 0, len(v.A))
		for _, x := range v.A {
			out = append(out, x.toYAMLValue())
		}
		return out
	case 'o':
		out := yaml.MapSlice{}
		for _, kv := range v.O {
			out = append(out, yaml.MapItem{Key: kv.K, Value: kv.V.toYAMLValue()})
		}
		return out
	}
	return nil
}

// ---------- what the parsers make of a text ----------

// the tree yaml.v2 produces, keys and odd scalars printed as yamlconfig.cleanupMapValue prints them
func yamlSx(v interface{}) sx.V {
	switch t := v.(type) {
	case nil:
		return sx.L(sx.S("n"))
	case bool:
		return sx.L(sx.S("b"), sx.B(t))
	case int:
		return sx.L(sx.S("i"), sx.I(int64(t)))
	case string:
		return sx.L(sx.S("s"), sx.S(t))
	case []interface{}:
		out := []sx.V{}
		for _, x := range t {
			out = append(out, yamlSx(x))
		}
		return sx.L(sx.S("a"), sx.L(out...))
	case map[interface{}]interface{}:
		type kv struct {
			k string
			v interface{}
		}
		var kvs []kv
		for k, x := range t {
			kvs = append(kvs, kv{fmt.Sprintf("%v", k), x})
		}
		sort.Slice(kvs, func(i, j int) bool { return kvs[i].k < kvs[j].k })
		out := []sx.V{}
		for _, e := range kvs {
			out = append(out, sx.L(sx.S(e.k), yamlSx(e.v)))
		}
		return sx.L(sx.S("o"), sx.L(out...))
	default:
		return sx.L(sx.S("x"), sx.S(fmt.Sprintf("%v", t)))
	}
}

// printed keys that collide (1 and "1") make cleanupInterfaceMap's result depend on map order
func yamlKeysCollide(v interface{}) bool {
	switch t := v.(type) {
	case []interface{}:
		for _, x := range t {
			if yamlKeysCollide(x) {
				return true
			}
		}
	case map[interface{}]interface{}:
		seen := map[string]bool{}
		for k, x := range t {
			p := fmt.Sprintf("%v", k)
			if seen[p] {
				return true
			}
			seen[p] = true
			if yamlKeysCollide(x) {
				return true
			}
		}
	}
	return false
}

// an ordered JSON tree (duplicate keys kept) from encoding/json's tokenizer
func jsonTokSx(dec *json.Decoder) (sx.V, error) {
	tok, err := dec.Token()
	if err != nil {
		return sx.L(), err
	}
	switch t := tok.(type) {
	case nil:
		return sx.L(sx.S("n")), nil
	case bool:
		return sx.L(sx.S("b"), sx.B(t)), nil
	case json.Number:
		if n, err := strconv.ParseInt(string(t), 10, 64); err == nil {
			return sx.L(sx.S("i"), sx.I(n)), nil
		}
		return sx.L(sx.S("f"), sx.S(string(t))), nil
	case string:
		return sx.L(sx.S("s"), sx.S(t)), nil
	case json.Delim:
		if t == '[' {
			out := []sx.V{}
			for dec.More() {
				x, err := jsonTokSx(dec)
				if err != nil {
					return sx.L(), err
				}
				out = append(out, x)
			}
			if _, err := dec.Token(); err != nil {
				return sx.L(), err
			}
			return sx.L(sx.S("a"), sx.L(out...)), nil
		}
		if t == '{' {
			out := []sx.V{}
			for dec.More() {
				kt, err := dec.Token()
				if err != nil {
					return sx.L(), err
				}
				k, ok := kt.(string)
				if !ok {
					return sx.L(), fmt.Errorf("non-string key")
				}
				x, err := jsonTokSx(dec)
				if err != nil {
					return sx.L(), err
				}
				out = append(out, sx.L(sx.S(k), x))
			}
			if _, err := dec.Token(); err != nil {
				return sx.L(), err
			}
			return sx.L(sx.S("o"), sx.L(out...)), nil
		}
	}
	return sx.L(), fmt.Errorf("unexpected token")
}

func jsonSx(text []byte) (sx.V, bool) {
	if !json.Valid(text) {
		return sx.L(), false
	}
	dec := json.NewDecoder(bytes.NewReader(text))
	dec.UseNumber()
	v, err := jsonTokSx(dec)
	if err != nil {
		return sx.L(), false
	}
	if _, err := dec.Token(); err != io.EOF {
		return sx.L(), false
	}
	return v, true
}

// docSx mirrors the first lines of ParseRules / ParseStorageConfigs: YAML first, plain JSON if that fails.
// usable = false when the model cannot be given a faithful tree (colliding printed keys).
func docSx(text []byte) (doc sx.V, usable bool) {
	var data map[interface{}]interface{}
	if err := yaml.Unmarshal(text, &data); err == nil {
		if yamlKeysCollide(data) {
			return sx.L(), false
		}
		if data == nil {
			// an empty document: Convert marshals a nil map to "null"
			return sx.L(sx.S("y"), sx.L(sx.S("n"))), true
		}
		return sx.L(sx.S("y"), yamlSx(data)), true
	}
	if v, ok := jsonSx(text); ok {
		return sx.L(sx.S("j"), v), true
	}
	return sx.L(sx.S("x")), true
}

// ---------- the case ----------

type cfgCase struct {
	Texts [2]string // JSON spelling, YAML spelling (or any two texts)
	Same  bool      // the two texts spell one configuration
	Reqs  []Req
}

var cfgHosts = []string{"a.test", "b.test", "c.test"}

func collectStrings(v sx.V, field string, out map[string]bool) {
	// every string value under a key named field (any case), anywhere in a doc tree
	if v.Kind != 'l' {
		return
	}
	if len(v.L) == 2 && v.L[0].Kind == 's' && v.L[0].S == "o" {
		for _, kv := range v.L[1].L {
			if strings.EqualFold(kv.N(0).Str(), field) {
				val := kv.N(1)
				if len(val.L) == 2 && (val.L[0].S == "s" || val.L[0].S == "x") {
					out[val.L[1].S] = true
				}
			}
			collectStrings(kv.N(1), field, out)
		}
		return
	}
	for _, x := range v.L {
		collectStrings(x, field, out)
	}
}

func (c cfgCase) Sx() sx.V {
	docs := []sx.V{}
	dests, sizes := map[string]bool{}, map[string]bool{"": true} // a missing size field is the empty string
	for _, t := range c.Texts {
		d, _ := docSx([]byte(t))
		docs = append(docs, d)
		collectStrings(d, "destination", dests)
		collectStrings(d, "size", sizes)
	}
	bad := []string{}
	for d := range dests {
		if _, err := url.Parse(d); err != nil {
			bad = append(bad, d)
		}
	}
	sort.Strings(bad)
	szs := []string{}
	for s := range sizes {
		szs = append(szs, s)
	}
	sort.Strings(szs)
	sizeTab := []sx.V{}
	for _, s := range szs {
		var v datasize.ByteSize
		if err := v.UnmarshalText([]byte(s)); err == nil && v.Bytes() < 1<<62 {
			sizeTab = append(sizeTab, sx.L(sx.S(s), sx.I(int64(v.Bytes()))))
		}
	}
	reqs := []sx.V{}
	for _, r := range c.Reqs {
		reqs = append(reqs, reqSx(r))
	}
	return sx.L(sx.S("cfg"), docs[0], docs[1], sx.L(reqs...), sx.Strs(bad), sx.L(sizeTab...), sx.B(c.Same),
		sx.L(sx.S(c.Texts[0]), sx.S(c.Texts[1])))
}

func cfgCaseFromSx(v sx.V) cfgCase {
	c := cfgCase{Same: v.N(6).Bool()}
	c.Texts[0], c.Texts[1] = v.N(7).N(0).Str(), v.N(7).N(1).Str()
	for _, r := range v.N(3).List() {
		c.Reqs = append(c.Reqs, reqFromSx(r))
	}
	return c
}

func verifRuleToRule(v proxy.VerifRule) Rule {
	r := Rule{Enabled: v.Enabled, Scheme: v.Scheme, Host: v.Host, Path: v.Path, Dest: v.Dest, Internal: v.Internal,
		Methods: v.Methods, Type: v.Type, Recomp: v.Recompression, Cache: v.CacheId, Force: v.ForceRevalidate, Restart: v.RestartOnRedirect}
	switch v.HostHeaderMode {
	case int(proxy.HostHeaderOriginal):
		r.HostHeader = "original"
	case int(proxy.HostHeaderDestination):
		r.HostHeader = "destination"
	case int(proxy.HostHeaderOverride):
		r.HostHeader = v.HostHeader
	}
	keys := []string{}
	for k := range v.RequestHeaders {
		keys = append(keys, k)
	}
	sort.Strings(keys)
	for _, k := range keys {
		r.ReqHdrs = append(r.ReqHdrs, KVOpt{k, v.RequestHeaders[k]})
	}
	keys = keys[:0]
	for k := range v.ResponseHeaders {
		keys = append(keys, k)
	}
	sort.Strings(keys)
	for _, k := range keys {
		r.RespHdrs = append(r.RespHdrs, KV{k, v.ResponseHeaders[k]})
	}
	if v.Retry != nil {
		rr := verifRuleToRule(*v.Retry)
		r.Retry = &rr
	}
	return r
}

func cfgRunText(text []byte, reqs []Req) (out sx.V) {
	// rules
	var rules *proxy.Rules
	rulesRes := func() (res sx.V) {
		defer func() {
			if r := recover(); r != nil {
				res = sx.L(sx.S("panic"), sx.L())
			}
		}()
		rs, err := proxy.ParseRules(text, discardLogger)
		if err != nil {
			return sx.L(sx.S("error"), sx.L())
		}
		rules = rs
		dump := []sx.V{}
		for _, vr := range proxy.VerifDumpRules(rs) {
			dump = append(dump, verifRuleToRule(vr).sx())
		}
		return sx.L(sx.S("ok"), sx.L(dump...))
	}()
	storRes := func() (res sx.V) {
		defer func() {
			if r := recover(); r != nil {
				res = sx.L(sx.S("panic"), sx.L())
			}
		}()
		cfgs, err := caching.ParseStorageConfigs(text)
		if err != nil {
			return sx.L(sx.S("error"), sx.L())
		}
		l := []sx.V{}
		for _, c := range cfgs {
			l = append(l, sx.L(sx.S(c.Id), sx.S(c.Path), sx.I(int64(c.Size.Bytes()))))
		}
		return sx.L(sx.S("ok"), sx.L(l...))
	}()
	reqObs := []sx.V{}
	if rules != nil {
		conf := &config.Config{RetryTimes: []int{}}
		for _, rq := range reqs {
			script := []HostScript{}
			for _, h := range cfgHosts {
				script = append(script, HostScript{h, []Behaviour{{Status: 200, Hdrs: []KV{{"Content-Type", "text/plain"}}, Body: "from " + h}}})
			}
			perf := newPerformer(script)
			for _, kv := range rq.Hdrs {
				perf.sent[kv.V] = true
			}
			router := proxy.NewRouterWithPerformer(rules, discardLogger, conf, perf)
			smux := http.NewServeMux()
			// a cache without storages: rules naming a cache id are served uncached
			server.ConfigureServeMux(smux, conf, router, discardLogger, caching.NewCacheWithStorages([]*caching.Storage{}, discardLogger, time.Now))
			ts := httptest.NewServer(smux)
			o, err := rawRequest(ts.Listener.Addr().String(), rq)
			ts.Close()
			if err != nil {
				reqObs = append(reqObs, sx.L(sx.S("harness-error")))
				continue
			}
			perf.mu.Lock()
			reqObs = append(reqObs, sx.L(o.sx(), deliveriesSx(perf.log, perf.sent)))
			perf.mu.Unlock()
		}
	}
	return sx.L(rulesRes, storRes, sx.L(reqObs...))
}

func (c cfgCase) Run() (sx.V, error) {
	for _, t := range c.Texts {
		if _, usable := docSx([]byte(t)); !usable {
			return sx.L(), fmt.Errorf("generated document has colliding printed keys")
		}
	}
	return sx.L(cfgRunText([]byte(c.Texts[0]), c.Reqs), cfgRunText([]byte(c.Texts[1]), c.Reqs)), nil
}

// ---------- generator ----------

func kv(k string, v JV) JKV { return JKV{k, v} }

type cfgGen struct{ rng *Rng }

func (g *cfgGen) validRule(depth int) JV {
	r := g.rng
	paths := []string{"/a/*", "/a/b", "/b/*", "/*", "/c", "/A/*"}
	dests := []string{"http://a.test/$1", "http://b.test/x/$1", "https://c.test/", "http://a.test/fixed", "http://b.test:8080/$1?k=v"}
	o := []JKV{kv("path", jstr(r.Pick(paths))), kv("destination", jstr(r.Pick(dests)))}
	if r.Chance(40, 100) {
		ms := []JV{}
		for _, m := range []string{"GET", "POST", "HEAD", "PUT", "DELETE", "OPTIONS", "TRACE"} {
			if r.Chance(40, 100) {
				ms = append(ms, jstr(m))
			}
		}
		o = append(o, kv("methods", jarr(ms...)))
	}
	if r.Chance(30, 100) {
		o = append(o, kv("host", jstr(r.Pick([]string{"client.test", "other.test", ""}))))
	}
	if r.Chance(20, 100) {
		o = append(o, kv("scheme", jstr(r.Pick([]string{"http", "https", ""}))))
	}
	if r.Chance(30, 100) {
		o = append(o, kv("enabled", jbool(r.Chance(70, 100))))
	}
	if r.Chance(25, 100) {
		o = append(o, kv("type", jstr(r.Pick([]string{"proxy", "copy_traffic"}))))
	}
	if r.Chance(25, 100) {
		o = append(o, kv("hostheader", jstr(r.Pick([]string{"original", "destination", "override.test", ""}))))
	}
	if r.Chance(15, 100) {
		o = append(o, kv("internal", jbool(r.Bool())))
	}
	if r.Chance(15, 100) {
		o = append(o, kv("recompression", jbool(r.Bool())))
	}
	if r.Chance(20, 100) {
		o = append(o, kv("cache", jstr(r.Pick([]string{"c1", "c2", "nocache", ""}))))
	}
	if r.Chance(20, 100) {
		o = append(o, kv("force_revalidate", jint(int64(r.Pick2([]int{0, 1, 60, -5, 86400})))))
	}
	if r.Chance(25, 100) {
		hs := []JKV{}
		for _, n := range []string{"X-Set", " X-Pad ", "x-del", "X-Num"} {
			if r.Chance(50, 100) {
				switch n {
				case "x-del":
					hs = append(hs, kv(n, jnull()))
				case "X-Num":
					hs = append(hs, kv(n, jint(5)))
				default:
					hs = append(hs, kv(n, jstr("v-"+strings.TrimSpace(n))))
				}
			}
		}
		o = append(o, kv("request_headers", jobj(hs...)))
	}
	if r.Chance(25, 100) {
		hs := []JKV{}
		for _, n := range []string{"X-Resp", " X-RPad ", "Cache-Control"} {
			if r.Chance(50, 100) {
				hs = append(hs, kv(n, jstr(r.Pick([]string{"v1", " padded ", "max-age=60", ""}))))
			}
		}
		o = append(o, kv("response_headers", jobj(hs...)))
	}
	if r.Chance(15, 100) {
		o = append(o, kv("restart_on_redirect", jbool(r.Bool())))
	}
	if depth < 3 && r.Chance(20, 100) {
		o = append(o, kv("retry_rule", g.validRule(depth+1)))
	}
	if r.Chance(10, 100) {
		o = append(o, kv("comment", jstr("unknown fields are ignored")))
	}
	return jobj(o...)
}

func (g *cfgGen) validCaches() JV {
	r := g.rng
	cs := []JV{}
	for i, id := range []string{"c1", "c2"} {
		if r.Chance(60, 100) {
			cs = append(cs, jobj(kv("id", jstr(id)), kv("path", jstr(fmt.Sprintf("/tmp/hx-none/%d", i))), kv("size", jstr(r.Pick([]string{"10MB", "1GB", "512", "2 kb"})))))
		}
	}
	return jarr(cs...)
}

// every kind of damage to one value
func (g *cfgGen) confuse(v JV) JV {
	r := g.rng
	alts := []JV{jnull(), jbool(true), jint(7), jint(-1), jfloat("1.5"), jfloat("1e3"), jstr(""), jstr("yes"), jstr("7"), jarr(), jarr(jstr("x")), jarr(jint(1)), jobj(), jobj(kv("k", jstr("v"))), jobj(kv("k", jint(1)))}
	return alts[r.Intn(len(alts))]
}

func (g *cfgGen) mutate(v JV, budget *int) JV {
	r := g.rng
	if *budget <= 0 {
		return v
	}
	switch v.K {
	case 'o':
		out := []JKV{}
		for _, e := range v.O {
			switch {
			case *budget > 0 && r.Chance(6, 100): // drop the field
				*budget--
			case *budget > 0 && r.Chance(8, 100): // wrong type or odd value
				*budget--
				out = append(out, kv(e.K, g.confuse(e.V)))
			case *budget > 0 && r.Chance(4, 100): // other spelling of the key
				*budget--
				out = append(out, kv(strings.ToUpper(e.K[:1])+e.K[1:], e.V))
			default:
				out = append(out, kv(e.K, g.mutate(e.V, budget)))
			}
		}
		return jobj(out...)
	case 'a':
		out := []JV{}
		for _, e := range v.A {
			if *budget > 0 && r.Chance(5, 100) {
				*budget--
				out = append(out, g.confuse(e))
			} else {
				out = append(out, g.mutate(e, budget))
			}
		}
		if *budget > 0 && r.Chance(5, 100) && len(out) > 0 {
			*budget--
			out = append(out, out[r.Intn(len(out))]) // a duplicate (cache ids!)
		}
		return jarr(out...)
	case 's':
		if r.Chance(10, 100) {
			*budget--
			bad := []string{"", "*", "/a/*/b", "/**", "/a*b*", "BREW", "get", "teleport", "http://[::1", "http://a b/", "%zz", "http://a.test:port/", ":", "10parsecs", "-1", "1e3", "no", "~", "null", "0x10"}
			return jstr(bad[r.Intn(len(bad))])
		}
	}
	return v
}

func cfgRequests(rng *Rng) []Req {
	var out []Req
	for i := 0; i < 3; i++ {
		out = append(out, Req{Method: rng.Pick([]string{"GET", "GET", "POST", "HEAD"}), Host: rng.Pick([]string{"client.test", "other.test"}),
			Target: rng.Pick([]string{"/a/x", "/a/b", "/b/y?q=1", "/c", "/zzz", "/A/x"}),
			Hdrs:   []KV{{"X-Set", "client"}, {"X-Del", "client"}}})
	}
	return out
}

func genCfg(tier string, rng *Rng) []Case {
	n := 500
	if tier == "thorough" {
		n = 8000
	}
	g := &cfgGen{rng}
	var out []Case
	add := func(j, y string, same bool) {
		c := cfgCase{Texts: [2]string{j, y}, Same: same, Reqs: cfgRequests(rng)}
		for _, t := range c.Texts {
			if _, usable := docSx([]byte(t)); !usable {
				return
			}
		}
		out = append(out, c)
	}
	// pinned documents
	pinned := [][2]string{
		{`{"rules":[{"path":"/a/*","destination":"http://a.test/$1"}]}`, "rules:\n  - path: /a/*\n    destination: http://a.test/$1\n"},
		{`{"rules":[]}`, "rules: []\n"},
		{`{}`, "{}\n"},
		{``, "\n"},
		{`null`, "~\n"},
		{`[1,2]`, "- 1\n- 2\n"},
		{`{"rules":[{"path":"/a/*","destination":"http://a.test/$1","enabled":"no"}]}`, "rules:\n  - path: /a/*\n    destination: http://a.test/$1\n    enabled: no\n"},
		{`{"rules":[{"path":"/a/*","destination":"http://a.test/$1","host":"no"}]}`, "rules:\n  - path: /a/*\n    destination: http://a.test/$1\n    host: no\n"},
		{`{"rules":[{"path":"/a/*","destination":"http://a.test/$1","force_revalidate":10.0}]}`, "rules:\n  - path: /a/*\n    destination: http://a.test/$1\n    force_revalidate: 10.0\n"},
		{`{"rules":[{"path":"/a/*","destination":"http://a.test/$1","force_revalidate":"10"}]}`, "rules:\n  - path: /a/*\n    destination: http://a.test/$1\n    force_revalidate: '10'\n"},
		{`{"rules":[{"path":"/a/*","destination":"http://[::1"}]}`, "rules:\n  - path: /a/*\n    destination: 'http://[::1'\n"},
		{`{"rules":[{"path":"/a/*","destination":"http://a.test/$1"}],"caches":[{"id":"c1","path":"/tmp/hx-none/1","size":"1MB"},{"id":"c1","path":"/tmp/hx-none/2","size":"1MB"}]}`,
			"rules:\n  - path: /a/*\n    destination: http://a.test/$1\ncaches:\n  - {id: c1, path: /tmp/hx-none/1, size: 1MB}\n  - {id: c1, path: /tmp/hx-none/2, size: 1MB}\n"},
		{`{"rules":[{"path":"/a/*","destination":"http://a.test/$1"}],"caches":"oops"}`, "rules:\n  - path: /a/*\n    destination: http://a.test/$1\ncaches: oops\n"},
		{`{"rules":[{"path":"/a/*","destination":"http://a.test/$1","retry_rule":{"path":"/*","destination":"http://b.test/$1","retry_rule":{"path":"/*","destination":"http://c.test/$1"}}}]}`,
			"rules:\n  - path: /a/*\n    destination: http://a.test/$1\n    retry_rule:\n      path: /*\n      destination: http://b.test/$1\n      retry_rule: {path: /*, destination: 'http://c.test/$1'}\n"},
		{`{"rules":[{"path":"/a/*","destination":"http://a.test/$1","retry_rule":{"path":"/x*y","destination":"http://b.test/$1"}}]}`, "rules: [{path: /a/*, destination: 'http://a.test/$1', retry_rule: {path: '/x*y', destination: 'http://b.test/$1'}}]\n"},
		{`{"rules":[{"path":"/a/*","destination":"http://a.test/$1","Path":"/b/*"}]}`, "rules:\n  - Path: /b/*\n    destination: http://a.test/$1\n    path: /a/*\n"},
		{"{\"rules\":[{\"path\":\"/a/*\",\"destination\":\"http://a.test/$1\"}]", "rules:\n  - path: [unclosed\n"},
		{`{"rules":[{"path":"/a/*","destination":"http://a.test/$1","methods":["GET",null]}]}`, "rules:\n  - path: /a/*\n    destination: http://a.test/$1\n    methods: [GET, ~]\n"},
		{`{"rules":[null]}`, "rules: [~]\n"},
		{`{"rules":[{"path":"/a/*","destination":"http://a.test/$1","request_headers":{"X":1,"Y":null,"Z":"z"},"response_headers":{"A":null}}]}`,
			"rules:\n  - path: /a/*\n    destination: http://a.test/$1\n    request_headers: {X: 1, Y: ~, Z: z}\n    response_headers: {A: ~}\n"},
	}
	for _, p := range pinned {
		add(p[0], p[1], false) // hand-written pairs: not always one configuration (YAML reads no, 10.0, ~ its own way)
	}
	for len(out) < n {
		nr := 1 + rng.Intn(4)
		rules := []JV{}
		for i := 0; i < nr; i++ {
			rules = append(rules, g.validRule(0))
		}
		top := []JKV{kv("rules", jarr(rules...))}
		if rng.Chance(60, 100) {
			top = append(top, kv("caches", g.validCaches()))
		}
		doc := jobj(top...)
		if rng.Chance(65, 100) {
			budget := 1 + rng.Intn(3)
			doc = g.mutate(doc, &budget)
		}
		var jb bytes.Buffer
		doc.toJSON(&jb)
		yb, err := yaml.Marshal(doc.toYAMLValue())
		if err != nil {
			continue
		}
		// a number with a fraction or exponent has no faithful YAML rendering through yaml.Marshal
		add(jb.String(), string(yb), !strings.Contains(jb.String(), "1.5") && !strings.Contains(jb.String(), "1e3"))
	}
	return out
}
