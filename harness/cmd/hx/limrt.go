package main

// The "limrt" family: the size limiter as it really runs - caching.NewDiskStorage with its
// runSizeLimiter goroutine, the 5 s period, the atimes flusher (ATIME_FLUSH_INTERVAL=1) and
// wall-clock access times - driven through the Storage interface (GetWriter / Get) in real time.
// The plan says what to do; the trace that results (fills and hits with the clock readings
// observed, the passes of the limiter that removed something, restarts) is a "lim" history
// the model and the monitors are run on.

import (
	"context"
	"fmt"
	"io/ioutil"
	"net/http"
	"net/url"
	"os"
	"path/filepath"
	"strconv"
	"time"

	"github.com/richiefi/rrrouter/caching"

	"verif/harness/sx"
)

type RtStep struct {
	Kind string // fill | hit | quiet | restart
	I    int
	Size int64
}

type RtPlan struct {
	Max   int64
	Pre   int64 // size of one entry present before the first start without access time, or -1
	Steps []RtStep
}

type limRtCase struct {
	plan  RtPlan
	trace LimCase
}

func (p RtPlan) sx() sx.V {
	steps := []sx.V{}
	for _, s := range p.Steps {
		steps = append(steps, sx.L(sx.S(s.Kind), sx.I(int64(s.I)), sx.I(s.Size)))
	}
	return sx.L(sx.I(p.Max), sx.I(p.Pre), sx.L(steps...))
}

func rtPlanFromSx(v sx.V) RtPlan {
	p := RtPlan{Max: v.N(0).Int(), Pre: v.N(1).Int()}
	for _, s := range v.N(2).List() {
		p.Steps = append(p.Steps, RtStep{Kind: s.N(0).Str(), I: int(s.N(1).Int()), Size: s.N(2).Int()})
	}
	return p
}

func (c *limRtCase) Sx() sx.V {
	t := limCase{c.trace}.Sx()
	t.L[0] = sx.S("limrt")
	t.L = append(t.L, c.plan.sx())
	return t
}

func rtKey(i int) caching.Key {
	u, _ := url.ParseRequestURI("/rt/" + strconv.Itoa(i))
	r := &http.Request{Method: "GET", Host: "rt.test", URL: u, Header: http.Header{}}
	return caching.KeysFromRequest(r)[0]
}

const preIndex = 900
const varyBase = 500 // indices from here on are filled under a changed key

func rtKeyOf(i int) caching.Key {
	if i >= varyBase && i < preIndex {
		return rtVaryKey(i)
	}
	return rtKey(i)
}

// the key a fill under "Vary: Origin" ends up with (the server changes the writer's key before the head is written)
func rtVaryKey(i int) caching.Key {
	u, _ := url.ParseRequestURI("/rt/" + strconv.Itoa(i))
	r := &http.Request{Method: "GET", Host: "rt.test", URL: u, Header: http.Header{"Origin": []string{"https://o.test"}}}
	for _, k := range caching.KeysFromRequest(r) {
		if k.HasFullOrigin() {
			return k
		}
	}
	return caching.KeysFromRequest(r)[0]
}

func rtFillVary(s caching.Storage, root string, i int, size int64) (bool, error) {
	// (looked up on the file system: a Get would count as a hit)
	if _, err := os.Stat(filepath.Join(root, rtVaryKey(i).FsName())); err == nil {
		return false, nil // the entry is on disk: the server would have served it
	}
	w := s.GetWriter(rtKey(i), false, nil)
	if w == nil {
		return false, nil
	}
	if err := w.ChangeKey(rtVaryKey(i)); err != nil {
		return false, err
	}
	h := http.Header{"Content-Length": []string{strconv.FormatInt(size, 10)}, "Cache-Control": []string{"max-age=86400"}, "Vary": []string{"Origin"}}
	w.WriteHeader(200, h)
	if _, err := w.Write(make([]byte, size)); err != nil {
		return false, err
	}
	if err := w.Close(); err != nil {
		return false, err
	}
	return true, nil
}

func rtFill(s caching.Storage, i int, size int64) (bool, error) {
	w := s.GetWriter(rtKey(i), false, nil)
	if w == nil {
		return false, nil // the entry is on disk
	}
	h := http.Header{"Content-Length": []string{strconv.FormatInt(size, 10)}, "Cache-Control": []string{"max-age=86400"}}
	w.WriteHeader(200, h)
	buf := make([]byte, size)
	if _, err := w.Write(buf); err != nil {
		return false, err
	}
	if err := w.Close(); err != nil {
		return false, err
	}
	return true, nil
}

// rtReval: a revalidation that stores a new body of another size over entry i (the writer works on a .tmp file and
// renames it over the entry; the limiter is not told: the region of known finding F14-drift)
func rtReval(s caching.Storage, root string, i int, size int64) (bool, error) {
	if _, err := os.Stat(filepath.Join(root, rtKeyOf(i).FsName())); err != nil {
		return false, nil // nothing to revalidate
	}
	w := s.GetWriter(rtKeyOf(i), true, nil)
	if w == nil {
		return false, nil
	}
	h := http.Header{"Content-Length": []string{strconv.FormatInt(size, 10)}, "Cache-Control": []string{"max-age=86400"}}
	w.WriteHeader(200, h)
	if _, err := w.Write(make([]byte, size)); err != nil {
		return false, err
	}
	if err := w.Close(); err != nil {
		return false, err
	}
	return true, nil
}

func rtHit(s caching.Storage, i int) bool {
	f, _, _, err := s.Get(context.Background(), []caching.Key{rtKeyOf(i)})
	if err != nil || f == nil {
		return false
	}
	f.Close()
	return true
}

func dirMapOnce(root string) map[string]int64 {
	m := map[string]int64{}
	for _, e := range listFiles(root).L {
		m[e.N(0).Str()] = e.N(1).Int()
	}
	return m
}

// a listing that two readings 30 ms apart agree on: never half of a pass of the limiter
func dirMap(root string) map[string]int64 {
	a := dirMapOnce(root)
	for k := 0; k < 100; k++ {
		time.Sleep(30 * time.Millisecond)
		b := dirMapOnce(root)
		same := len(a) == len(b)
		for n, v := range a {
			if w, ok := b[n]; !ok || w != v {
				same = false
			}
		}
		if same {
			return b
		}
		a = b
	}
	return a
}

func filesSx(m map[string]int64) sx.V {
	names := []string{}
	for n := range m {
		names = append(names, n)
	}
	sortStrings(names)
	out := []sx.V{}
	for _, n := range names {
		out = append(out, sx.L(sx.S(n), sx.I(m[n])))
	}
	return sx.L(out...)
}

func sortStrings(a []string) {
	for i := 1; i < len(a); i++ {
		for j := i; j > 0 && a[j] < a[j-1]; j-- {
			a[j], a[j-1] = a[j-1], a[j]
		}
	}
}

func rtObs(purged []string, files map[string]int64) sx.V {
	sortStrings(purged)
	return sx.L(sx.I(0), sx.L(), sx.L(), sx.Strs(purged), filesSx(files))
}

func total(m map[string]int64) int64 {
	var t int64
	for _, v := range m {
		t += v
	}
	return t
}

func (c *limRtCase) Run() (sx.V, error) {
	p := c.plan
	dir, err := ioutil.TempDir(tmpRoot(), "hxrt")
	if err != nil {
		return sx.L(), err
	}
	c.trace = LimCase{Max: p.Max}
	var s caching.Storage
	stop := func() {
		if s != nil {
			s.SetIsReplaced()
			time.Sleep(1500 * time.Millisecond) // the old limiter leaves its loop at the next flush operation (1 s)
		}
	}
	if p.Pre >= 0 {
		// an entry from an earlier life of the cache whose access log is lost
		s0 := caching.NewDiskStorage("rt", dir, 1<<40, discardLogger, time.Now)
		if ok, err := rtFill(s0, preIndex, p.Pre); err != nil || !ok {
			return sx.L(), fmt.Errorf("could not create the pre-existing entry: %v", err)
		}
		s = s0
		stop()
		os.Remove(filepath.Join(dir, "atimes"))
		c.trace.Files = []LimOp{{Name: rtKey(preIndex).FsName(), Size: p.Pre}}
	}
	s = caching.NewDiskStorage("rt", dir, p.Max, discardLogger, time.Now)
	defer func() { s.SetIsReplaced() }()
	var outs []sx.V
	prev := dirMap(dir)
	// observe: what is on disk now; entries that went since the last observation went in a pass of
	// the limiter, recorded as a tick after the operation
	observe := func(op LimOp, appeared string) {
		now := dirMap(dir)
		var gone []string
		for n := range prev {
			if _, ok := now[n]; !ok && n != appeared {
				gone = append(gone, n)
			}
		}
		if op.Kind != "" && op.Kind != "quiet-pass" {
			c.trace.Ops = append(c.trace.Ops, op)
			mid := map[string]int64{}
			for n, v := range now {
				mid[n] = v
			}
			for _, n := range gone {
				mid[n] = prev[n]
			}
			outs = append(outs, rtObs(nil, mid))
		}
		if len(gone) > 0 || op.Kind == "quiet-pass" {
			c.trace.Ops = append(c.trace.Ops, LimOp{Kind: "tick"})
			outs = append(outs, rtObs(gone, now))
		}
		prev = now
	}
	for _, st := range p.Steps {
		switch st.Kind {
		case "fill":
			var ok bool
			var err error
			if st.I >= varyBase && st.I < preIndex {
				ok, err = rtFillVary(s, dir, st.I, st.Size)
			} else {
				ok, err = rtFill(s, st.I, st.Size)
			}
			if err != nil {
				return sx.L(), err
			}
			t := time.Now().Unix()
			time.Sleep(1100 * time.Millisecond)
			if ok {
				observe(LimOp{Kind: "add", Name: rtKeyOf(st.I).FsName(), Size: st.Size, T: t}, rtKeyOf(st.I).FsName())
			} else {
				observe(LimOp{}, "") // nothing was done, but a pass of the limiter during the wait is recorded where it happened
			}
		case "reval":
			ok, err := rtReval(s, dir, st.I, st.Size)
			if err != nil {
				return sx.L(), err
			}
			time.Sleep(1100 * time.Millisecond)
			if ok {
				observe(LimOp{Kind: "replace", Name: rtKeyOf(st.I).FsName(), Size: st.Size}, "")
			} else {
				observe(LimOp{}, "")
			}
		case "hit":
			ok := rtHit(s, st.I)
			t := time.Now().Unix()
			time.Sleep(1100 * time.Millisecond)
			if ok {
				name := rtKeyOf(st.I).FsName()
				observe(LimOp{Kind: "access", Name: name, Size: prev[name], T: t}, "")
			} else {
				observe(LimOp{}, "")
			}
		case "quiet":
			// the limiter runs when an operation arrives 5 s or more after its last pass; the flusher
			// sends one every second. Wait for a pass, longer on a loaded machine.
			time.Sleep(7 * time.Second)
			for k := 0; k < 40 && total(dirMap(dir)) > p.Max; k++ {
				time.Sleep(500 * time.Millisecond)
			}
			observe(LimOp{Kind: "quiet-pass"}, "")
		case "restart":
			time.Sleep(4200 * time.Millisecond) // every access so far is flushed (ATIME_FLUSH_INTERVAL=3)
			observe(LimOp{Kind: "flush"}, "")
			stop()
			s = caching.NewDiskStorage("rt", dir, p.Max, discardLogger, time.Now)
			time.Sleep(300 * time.Millisecond)
			observe(LimOp{Kind: "restart"}, "")
		}
	}
	return sx.L(outs...), nil
}

// Most sizes are whole KiB and nothing else touches the directory: the region in which C16 is proved; one plan in
// five (and one pinned plan) uses other sizes, to tie the real loop's books to the model's inside F14-kib as well.
func genLimRT(tier string, rng *Rng) []Case {
	n := 28
	if tier == "thorough" {
		n = 192
	}
	var out []Case
	// pinned: a cache filled exactly to its limit loses nothing; two accesses of one entry within one
	// flush interval with another entry's in between, then a restart and pressure
	out = append(out, &limRtCase{plan: RtPlan{Max: 65536, Pre: -1, Steps: []RtStep{{"fill", 0, 16384}, {"fill", 1, 16384}, {"fill", 2, 16384}, {"fill", 3, 16384},
		{"quiet", 0, 0}, {"hit", 0, 0}, {"hit", 1, 0}, {"quiet", 0, 0}}}})
	out = append(out, &limRtCase{plan: RtPlan{Max: 49152, Pre: -1, Steps: []RtStep{{"fill", 0, 16384}, {"fill", 1, 16384}, {"hit", 0, 0}, {"restart", 0, 0},
		{"fill", 2, 16384}, {"fill", 3, 16384}, {"quiet", 0, 0}}}})
	out = append(out, &limRtCase{plan: RtPlan{Max: 49152, Pre: -1, Steps: []RtStep{{"fill", varyBase, 16384}, {"fill", varyBase + 1, 16384}, {"fill", 2, 16384}, {"fill", 3, 16384},
		{"quiet", 0, 0}, {"fill", 4, 16384}, {"quiet", 0, 0}}}})
	// sizes that are not whole KiB (the region of known finding F14-kib: the books are kept in KiB, rounded down):
	// the real loop must still keep them exactly as the model says - fills, hits on them, a pass, a small fill, a pass
	out = append(out, &limRtCase{plan: RtPlan{Max: 20992, Pre: -1, Steps: []RtStep{{"fill", 0, 5125}, {"fill", 1, 5125}, {"fill", 2, 5125}, {"fill", 3, 5125}, {"fill", 4, 5125},
		{"hit", 0, 0}, {"hit", 1, 0}, {"hit", 2, 0}, {"hit", 3, 0}, {"hit", 4, 0}, {"quiet", 0, 0}, {"fill", 5, 400}, {"hit", 5, 0}, {"quiet", 0, 0}, {"fill", 6, 1025}, {"hit", 6, 0}, {"quiet", 0, 0}}}})
	// a revalidation stores a smaller (a larger) body over an entry, the entry is hit, the limiter passes: the books are not
	// corrected (known finding F14-drift) - but they must drift exactly as the model says, no further
	out = append(out, &limRtCase{plan: RtPlan{Max: 65536, Pre: -1, Steps: []RtStep{{"fill", 0, 8192}, {"fill", 1, 8192}, {"fill", 2, 8192}, {"reval", 0, 4096}, {"hit", 0, 0},
		{"quiet", 0, 0}, {"fill", 3, 8192}, {"hit", 1, 0}, {"quiet", 0, 0}}}})
	out = append(out, &limRtCase{plan: RtPlan{Max: 32768, Pre: -1, Steps: []RtStep{{"fill", 0, 8192}, {"fill", 1, 8192}, {"reval", 1, 16384}, {"hit", 1, 0}, {"quiet", 0, 0},
		{"fill", 2, 8192}, {"quiet", 0, 0}}}})
	for i := 0; i < n; i++ {
		p := RtPlan{Max: int64(rng.Pick2([]int{16384, 65536})), Pre: -1}
		odd := i%5 == 4
		size := func() int64 {
			sz := int64(1+rng.Intn(int(p.Max/1024/2))) * 1024
			if odd {
				sz += int64(1 + rng.Intn(1023))
			}
			return sz
		}
		if rng.Chance(35, 100) {
			p.Pre = size()
		}
		filled := []int{}
		if p.Pre >= 0 {
			filled = append(filled, preIndex)
		}
		next := 0
		bursts := 2 + rng.Intn(2)
		for b := 0; b < bursts; b++ {
			// hits first, then fills: a pass of the limiter in the middle of a burst changes nothing then
			for h := rng.Intn(3); h > 0 && len(filled) > 0; h-- {
				p.Steps = append(p.Steps, RtStep{Kind: "hit", I: filled[rng.Intn(len(filled))]})
			}
			for f := 1 + rng.Intn(3); f > 0; f-- {
				idx := next
				if len(filled) > 0 && rng.Chance(10, 100) {
					idx = filled[rng.Intn(len(filled))]
				} else {
					next++
					if rng.Chance(25, 100) {
						idx += varyBase // filled under a changed key (Vary: Origin)
					}
					filled = append(filled, idx)
				}
				p.Steps = append(p.Steps, RtStep{Kind: "fill", I: idx, Size: size()})
			}
			p.Steps = append(p.Steps, RtStep{Kind: "quiet"})
			if b+1 < bursts && rng.Chance(40, 100) {
				p.Steps = append(p.Steps, RtStep{Kind: "restart"})
			}
		}
		out = append(out, &limRtCase{plan: p})
	}
	return out
}
