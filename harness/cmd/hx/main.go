// hx: the correspondence harness. `hx run <prop> <tier> <seed> [corpus files...]`
// generates cases, runs each against the real code built from /repo's working
// tree, and prints one line per case:  sx(prop) \t sx(case) \t sx(raw observation)
package main

import (
	"bufio"
	"fmt"
	"os"
	"runtime"
	"strconv"
	"strings"
	"sync"
	"syscall"

	"verif/harness/sx"
)

type Case interface {
	Sx() sx.V
	Run() (sx.V, error)
}

type routeCase struct{ c RouteCase }

func (r routeCase) Sx() sx.V           { return r.c.sx() }
func (r routeCase) Run() (sx.V, error) { return runRoute(r.c) }

// splitmix64: every random choice of a run derives from VERIF_SEED
type Rng struct{ s uint64 }

func (r *Rng) Next() uint64 {
	r.s += 0x9e3779b97f4a7c15
	z := r.s
	z = (z ^ (z >> 30)) * 0xbf58476d1ce4e5b9
	z = (z ^ (z >> 27)) * 0x94d049bb133111eb
	return z ^ (z >> 31)
}
func (r *Rng) Intn(n int) int { return int(r.Next() % uint64(n)) }
func (r *Rng) Bool() bool     { return r.Next()&1 == 1 }
func (r *Rng) Pick(ss []string) string {
	return ss[r.Intn(len(ss))]
}
func (r *Rng) Chance(num, den int) bool { return r.Intn(den) < num }

func caseFromSx(v sx.V) (Case, error) {
	switch v.N(0).Str() {
	case "route":
		return routeCase{routeCaseFromSx(v)}, nil
	case "copy":
		return copyCase{copyCaseFromSx(v)}, nil
	case "unit":
		return unitCaseFromSx(v), nil
	case "cache":
		return cacheCase{cacheCaseFromSx(v)}, nil
	case "lim":
		return limCase{limCaseFromSx(v)}, nil
	case "limrt":
		return &limRtCase{plan: rtPlanFromSx(v.N(4))}, nil
	case "cfg":
		return cfgCaseFromSx(v), nil
	case "reload":
		return reloadCaseFromSx(v), nil
	case "swap":
		return swapCase{N: int(v.N(1).Int())}, nil
	case "crash":
		return crashCaseFromSx(v), nil
	case "coord":
		return coordCaseFromSx(v), nil
	case "aecache":
		return aeCaseFromSx(v), nil
	}
	return nil, fmt.Errorf("unknown family %q", v.N(0).Str())
}

func generate(prop, tier string, rng *Rng) []Case {
	switch prop {
	case "C01":
		return append(genC01(tier, rng), genC01Seq(tier, rng)...)
	case "C02":
		return append(genC02(tier, rng), genStorm(tier, rng, prop)...)
	case "C03":
		return append(genC03(tier, rng), genStorm(tier, rng, prop)...)
	case "C04":
		return genC04(tier, rng)
	case "C20":
		return genC20(tier, rng)
	case "C18":
		return genC18(tier, rng)
	case "C16", "C17":
		if os.Getenv("HX_RT") != "" {
			return genLimRT(tier, rng)
		}
		cs := genLim(tier, rng, prop)
		if prop == "C17" {
			// the rewrite of the access log when it has grown past its size: the records of the flush that triggers it must be
			// in the rewritten log (a restarted limiter reads the entry's last use from there) - the crash family's operation,
			// run to its end
			cs = append(cs, &crashCase{Op: "atimes-rewrite"})
		}
		return cs
	case "C05":
		cs := genC05(tier, rng)
		// complete, well-formed answers also where recompression, the cache and byte ranges meet (the aecache family)
		for _, c := range genAeCache(tier, rng) {
			if ac, ok := c.(aeCase); ok && len(ac.Ranges) == len(ac.AEs) {
				cs = append(cs, c)
			}
		}
		return cs
	case "C14":
		return genCrash(tier, rng)
	case "C12", "C13":
		return genCoord(tier, rng)
	case "C19":
		if os.Getenv("HX_RT") != "" {
			n := 1500
			if tier == "thorough" {
				n = 15000
			}
			return append(genReload(tier, rng), swapCase{N: n}, swapCase{N: n})
		}
		return genCfg(tier, rng)
	case "C08":
		cs := genC08(tier, rng)
		// "in every interleaving": the schedules of overlapping requests in which the rule caps the lifetime
		for _, c := range coordPinned() {
			if c.Force > 0 {
				cs = append(cs, c)
			}
		}
		return cs
	case "C15":
		cs := append(genRangeUnit(tier), genC15Hist(tier, rng)...)
		// byte ranges on a rule with recompression and a cache (the aecache family): the sequences that contain a Range
		for _, c := range genAeCache(tier, rng) {
			if ac, ok := c.(aeCase); ok && len(ac.Ranges) == len(ac.AEs) {
				cs = append(cs, c)
			}
		}
		return cs
	case "C06":
		return append(append(genRecompUnit(), genRecompE2E(tier, rng)...), genAeCache(tier, rng)...)
	case "C07":
		return append(genMetaUnit(tier, rng), genC07Hist(tier, rng)...)
	case "C10":
		return append(genCCUnit(tier, rng), genC10Hist(tier, rng)...)
	case "C11":
		return append(append(genKeyUnit(tier, rng), genKeyPairs(tier, rng)...), genC11Hist(tier, rng)...)
	case "C09":
		return append(genEtagUnit(), genC09Hist(tier, rng)...)
	}
	fmt.Fprintf(os.Stderr, "hx: no generator for %s\n", prop)
	os.Exit(2)
	return nil
}

func main() {
	if len(os.Args) < 2 {
		fmt.Fprintln(os.Stderr, "usage: hx run <prop> <tier> <seed> [corpus...] | hx replay <prop> <file>")
		os.Exit(2)
	}
	switch os.Args[1] {
	case "run":
		prop, tier := os.Args[2], os.Args[3]
		seed, _ := strconv.ParseUint(os.Args[4], 10, 64)
		rng := &Rng{s: seed}
		var cases []Case
		for _, f := range os.Args[5:] {
			cases = append(cases, readCases(f)...)
		}
		ncorpus := len(cases)
		cases = append(cases, generate(prop, tier, rng)...)
		if prop == "C18" {
			// a redirect walk that never ends opens one cache file per hop: with a modest descriptor limit it ends
			// in an error answer within a second instead of taking the process (and every other case) down
			var lim syscall.Rlimit
			if syscall.Getrlimit(syscall.RLIMIT_NOFILE, &lim) == nil && lim.Cur > 4096 {
				lim.Cur = 4096
				syscall.Setrlimit(syscall.RLIMIT_NOFILE, &lim)
			}
		}
		fmt.Fprintf(os.Stderr, "hx: %s %s seed=%d corpus=%d generated=%d\n", prop, tier, seed, ncorpus, len(cases)-ncorpus)
		runAll(prop, cases)
	case "crashop":
		// child process of a C14 case: one storage operation, traced and killed from outside
		if err := crashRun(os.Args[2], os.Args[3]); err != nil {
			fmt.Fprintln(os.Stderr, err)
			os.Exit(1)
		}
	case "replay":
		prop := os.Args[2]
		runAll(prop, readCases(os.Args[3]))
	default:
		fmt.Fprintln(os.Stderr, "unknown command")
		os.Exit(2)
	}
}

// readCases reads a file of lines "case" or "prop \t case [\t ...]".
func readCases(path string) []Case {
	f, err := os.Open(path)
	if err != nil {
		fmt.Fprintf(os.Stderr, "hx: %v\n", err)
		os.Exit(2)
	}
	defer f.Close()
	var out []Case
	sc := bufio.NewScanner(f)
	sc.Buffer(make([]byte, 1<<20), 1<<28)
	for sc.Scan() {
		line := strings.TrimSpace(sc.Text())
		if line == "" || strings.HasPrefix(line, "#") {
			continue
		}
		parts := strings.Split(line, "\t")
		cs := parts[0]
		if len(parts) > 1 {
			cs = parts[1]
		}
		v, err := sx.Parse(cs)
		if err != nil {
			fmt.Fprintf(os.Stderr, "hx: bad case in %s: %v\n", path, err)
			os.Exit(2)
		}
		c, err := caseFromSx(v)
		if err != nil {
			fmt.Fprintf(os.Stderr, "hx: %v\n", err)
			os.Exit(2)
		}
		out = append(out, c)
	}
	return out
}

func runAll(prop string, cases []Case) {
	type res struct {
		line string
		err  error
	}
	results := make([]res, len(cases))
	var wg sync.WaitGroup
	idx := make(chan int, len(cases))
	for i := range cases {
		idx <- i
	}
	close(idx)
	workers := runtime.NumCPU()
	if v := os.Getenv("HX_WORKERS"); v != "" {
		workers, _ = strconv.Atoi(v)
	}
	for w := 0; w < workers; w++ {
		wg.Add(1)
		go func() {
			defer wg.Done()
			for i := range idx {
				obs, err := cases[i].Run()
				if err != nil {
					results[i] = res{err: err}
					continue
				}
				results[i] = res{line: sx.S(prop).String() + "\t" + cases[i].Sx().String() + "\t" + obs.String()}
			}
		}()
	}
	wg.Wait()
	cleanupScratch()
	out := bufio.NewWriterSize(os.Stdout, 1<<20)
	defer out.Flush()
	bad := 0
	for i, r := range results {
		if r.err != nil {
			// a case the harness could not bring to an end (a request that never completes, a key left locked ...):
			// reported as an observation of its own, which the check counts as a disagreement with the model
			bad++
			fmt.Fprintf(os.Stderr, "hx: harness error: %v\n", r.err)
			fmt.Fprintln(out, sx.S(prop).String()+"\t"+cases[i].Sx().String()+"\t"+sx.L(sx.S("harness-error"), sx.S(r.err.Error())).String())
			continue
		}
		fmt.Fprintln(out, r.line)
	}
	if bad > 0 {
		fmt.Fprintf(os.Stderr, "hx: %d cases could not be run\n", bad)
	}
}
