package main

// The "lim" family: operation sequences on the size limiter, against the real storage struct
// through the verif-tagged VerifLimiter (real readFiles, purgeableItemNames,
// readStorableAccessTimes, flushStorableAccessTimes; real files in a scratch directory).

import (
	"io/ioutil"
	"os"
	"path/filepath"
	"sort"

	"github.com/richiefi/rrrouter/caching"

	"verif/harness/sx"
)

type LimOp struct {
	Kind string
	Name string
	Size int64
	T    int64
}

type LimCase struct {
	Max   int64
	Files []LimOp // name, size
	Ops   []LimOp
}

type limCase struct{ c LimCase }

func (c limCase) Sx() sx.V {
	files := []sx.V{}
	for _, f := range c.c.Files {
		files = append(files, sx.L(sx.S(f.Name), sx.I(f.Size)))
	}
	ops := []sx.V{}
	for _, o := range c.c.Ops {
		switch o.Kind {
		case "add", "access":
			ops = append(ops, sx.L(sx.S(o.Kind), sx.S(o.Name), sx.I(o.Size), sx.I(o.T)))
		case "extdel":
			ops = append(ops, sx.L(sx.S(o.Kind), sx.S(o.Name)))
		case "replace":
			ops = append(ops, sx.L(sx.S(o.Kind), sx.S(o.Name), sx.I(o.Size)))
		default:
			ops = append(ops, sx.L(sx.S(o.Kind)))
		}
	}
	return sx.L(sx.S("lim"), sx.I(c.c.Max), sx.L(files...), sx.L(ops...))
}

func limCaseFromSx(v sx.V) LimCase {
	c := LimCase{Max: v.N(1).Int()}
	for _, f := range v.N(2).List() {
		c.Files = append(c.Files, LimOp{Name: f.N(0).Str(), Size: f.N(1).Int()})
	}
	for _, o := range v.N(3).List() {
		c.Ops = append(c.Ops, LimOp{Kind: o.N(0).Str(), Name: o.N(1).Str(), Size: o.N(2).Int(), T: o.N(3).Int()})
	}
	return c
}

func writeSized(path string, size int64) error {
	if err := os.MkdirAll(filepath.Dir(path), 0755); err != nil {
		return err
	}
	f, err := os.Create(path)
	if err != nil {
		return err
	}
	defer f.Close()
	return f.Truncate(size)
}

func listFiles(root string) sx.V {
	type ent struct {
		name string
		size int64
	}
	var ents []ent
	filepath.Walk(root, func(p string, info os.FileInfo, err error) error {
		if err != nil || info.IsDir() {
			return nil
		}
		rel, _ := filepath.Rel(root, p)
		if rel == "atimes" || rel == "atimes-truncated" {
			return nil
		}
		ents = append(ents, ent{rel, info.Size()})
		return nil
	})
	sort.Slice(ents, func(i, j int) bool { return ents[i].name < ents[j].name })
	out := []sx.V{}
	for _, e := range ents {
		out = append(out, sx.L(sx.S(e.name), sx.I(e.size)))
	}
	return sx.L(out...)
}

func limObs(l *caching.VerifLimiter, purged []string, root string) sx.V {
	with := l.WithAccessTime()
	names := []string{}
	for n := range with {
		names = append(names, n)
	}
	sort.Strings(names)
	ws := []sx.V{}
	for _, n := range names {
		ws = append(ws, sx.L(sx.S(n), sx.I(with[n][0]), sx.I(with[n][1])))
	}
	without := l.WithoutAccessTime()
	names = names[:0]
	for n := range without {
		names = append(names, n)
	}
	sort.Strings(names)
	wo := []sx.V{}
	for _, n := range names {
		wo = append(wo, sx.L(sx.S(n), sx.I(without[n])))
	}
	sort.Strings(purged)
	return sx.L(sx.I(l.SizeBytes()), sx.L(ws...), sx.L(wo...), sx.Strs(purged), listFiles(root))
}

func (c limCase) Run() (sx.V, error) {
	dir, err := ioutil.TempDir(tmpRoot(), "hxlim")
	if err != nil {
		return sx.L(), err
	}
	for _, f := range c.c.Files {
		if err := writeSized(filepath.Join(dir, f.Name), f.Size); err != nil {
			return sx.L(), err
		}
	}
	l := caching.VerifNewLimiter(dir, c.c.Max, 1700000000)
	l.Startup()
	var outs []sx.V
	for _, o := range c.c.Ops {
		var purged []string
		switch o.Kind {
		case "add":
			// GetWriter refuses a fill of an entry that is on disk
			if _, err := os.Stat(filepath.Join(dir, o.Name)); err == nil {
				break
			}
			if err := writeSized(filepath.Join(dir, o.Name), o.Size); err != nil {
				return sx.L(), err
			}
			l.Add(o.Name, o.Size, o.T)
		case "access":
			// only an entry that is on disk can be hit (storage.Get opens the file first); its size is the file's
			if fi, err := os.Stat(filepath.Join(dir, o.Name)); err == nil {
				l.Access(o.Name, fi.Size(), o.T)
			}
		case "flush":
			l.Flush()
		case "tick":
			wo, wi := l.Purgeable()
			var rwo, rwi []string
			for _, n := range wo {
				if err := os.Remove(filepath.Join(dir, n)); err == nil || os.IsNotExist(err) {
					rwo = append(rwo, n)
				}
			}
			for _, n := range wi {
				if err := os.Remove(filepath.Join(dir, n)); err == nil || os.IsNotExist(err) {
					rwi = append(rwi, n)
				}
			}
			l.Removed(rwo, rwi)
			purged = append(append(purged, rwo...), rwi...)
		case "restart":
			l = caching.VerifNewLimiter(dir, c.c.Max, 1700000000)
			l.Startup()
		case "extdel":
			os.Remove(filepath.Join(dir, o.Name))
		case "replace":
			// a revalidation that stores a new body: the file changes, the limiter is not told
			if _, err := os.Stat(filepath.Join(dir, o.Name)); err != nil {
				break
			}
			if err := writeSized(filepath.Join(dir, o.Name), o.Size); err != nil {
				return sx.L(), err
			}
		}
		outs = append(outs, limObs(l, purged, dir))
	}
	return sx.L(outs...), nil
}

// ---------- generators (C16, C17) ----------

func limName(i int) string {
	h := []byte("0123456789abcdef")
	a, b, c := h[i%16], h[(i/16)%16], h[(i*7)%16]
	return string([]byte{a, '/', b, '/', c, '/', a, b, c, 'x', byte('0' + i%10), byte('a' + i%26)})
}

func genLim(tier string, rng *Rng, prop string) []Case {
	var out []Case
	n := 400
	if tier == "thorough" {
		n = 6000
	}
	for i := 0; i < n; i++ {
		exactKiB := rng.Chance(60, 100) // sizes that are multiples of 1 KiB: the estimate can be exact
		size := func() int64 {
			if exactKiB {
				return int64(1+rng.Intn(64)) * 1024
			}
			return int64(rng.Pick2([]int{0, 1, 500, 1000, 1023, 1024, 1025, 1536, 4000, 10000, 65535, 1 << 20}))
		}
		c := LimCase{Max: int64(rng.Pick2([]int{4096, 16384, 65536, 200000}))}
		t := int64(1700000100)
		names := []string{}
		if rng.Chance(30, 100) {
			// at most one pre-existing file (it has no access time; map order would otherwise matter)
			nm := limName(900)
			c.Files = append(c.Files, LimOp{Name: nm, Size: size()})
			names = append(names, nm)
		}
		sizes := map[string]int64{}
		for _, f := range c.Files {
			sizes[f.Name] = f.Size
		}
		steps := 4 + rng.Intn(14)
		next := 0
		for s := 0; s < steps; s++ {
			t += int64(2 + rng.Intn(50)) // distinct, increasing clock readings
			switch rng.Intn(10) {
			case 0, 1, 2, 3:
				nm := limName(next)
				if len(names) > 0 && rng.Chance(15, 100) {
					nm = names[rng.Intn(len(names))] // a fill of a name used before: refused, or a refill after a purge
				} else {
					next++
				}
				sz := size()
				c.Ops = append(c.Ops, LimOp{Kind: "add", Name: nm, Size: sz, T: t})
				if _, seen := sizes[nm]; !seen {
					names = append(names, nm)
				}
				sizes[nm] = sz
			case 4, 5:
				if len(names) > 0 {
					nm := names[rng.Intn(len(names))]
					c.Ops = append(c.Ops, LimOp{Kind: "access", Name: nm, Size: sizes[nm], T: t})
				}
			case 6, 7:
				c.Ops = append(c.Ops, LimOp{Kind: "tick"})
			case 8:
				if rng.Chance(50, 100) {
					// a restart comes after a flush, so every fill and hit so far is in the log: two or more
					// entries without access time would be purged in Go's map order, which no model can predict
					if rng.Bool() {
						for _, nm := range names {
							t += int64(2 + rng.Intn(9))
							c.Ops = append(c.Ops, LimOp{Kind: "access", Name: nm, Size: sizes[nm], T: t})
						}
					}
					c.Ops = append(c.Ops, LimOp{Kind: "flush"})
					c.Ops = append(c.Ops, LimOp{Kind: "restart"})
					c.Ops = append(c.Ops, LimOp{Kind: "tick"})
				} else {
					c.Ops = append(c.Ops, LimOp{Kind: "flush"})
				}
			case 9:
				if rng.Chance(50, 100) && len(names) > 0 {
					nm := names[rng.Intn(len(names))]
					if rng.Bool() {
						c.Ops = append(c.Ops, LimOp{Kind: "extdel", Name: nm})
					} else {
						sz := size()
						c.Ops = append(c.Ops, LimOp{Kind: "replace", Name: nm, Size: sz})
					}
				}
			}
		}
		c.Ops = append(c.Ops, LimOp{Kind: "tick"}, LimOp{Kind: "tick"})
		out = append(out, limCase{c})
	}
	return out
}
