package main

// The "cache" family: a history of requests, clock advances and origin changes against
// one rrrouter server with a real on-disk cache (DiskStorage in a temp dir), an injected
// clock and the scripted performer.

import (
	"context"
	"fmt"
	"io/ioutil"
	"net/http"
	"net/http/httptest"
	"os"
	"path/filepath"
	"sort"
	"strconv"
	"strings"
	"sync"
	"syscall"
	"time"

	"github.com/richiefi/rrrouter/caching"
	"github.com/richiefi/rrrouter/config"
	"github.com/richiefi/rrrouter/proxy"
	"github.com/richiefi/rrrouter/server"

	"verif/harness/sx"
)

type Op struct {
	Kind   string // req | adv | script | restart | par (the next N req ops are sent concurrently)
	Req    Req
	Dt     int64
	N      int
	Script []HostScript
}

// requests of a "par" group carry this header with a distinct value each: deliveries are attributed by it
const parHeader = "X-Hx-Par"

type CacheCase struct {
	Secrets *[]string
	Retries int
	Rules   []Rule
	Caches  []string
	Suffix  *string
	Base    int64
	Ops     []Op
}

type cacheCase struct{ c CacheCase }

func reqSx(r Req) sx.V {
	uri, query, ustr, _ := normalise(r.Target)
	hdrs := []KV{}
	for _, kv := range r.Hdrs {
		hdrs = append(hdrs, KV{kv.K, strings.Trim(kv.V, " \t")})
	}
	return sx.L(sx.S(r.Method), sx.S(r.Host), sx.B(false), sx.S(uri), sx.S(query), sx.S(ustr),
		kvs(hdrs), sx.S(r.Body), sx.S(remoteIP), sx.S(mintedUUID), sx.S(r.Target), sx.Strs(badHosts(r.Host)))
}

func reqFromSx(q sx.V) Req {
	return Req{Method: q.N(0).Str(), Host: q.N(1).Str(), Target: q.N(10).Str(), Hdrs: unkvs(q.N(6)), Body: q.N(7).Str()}
}

var expiresLayouts = []string{time.RFC1123, time.RFC1123Z}

func expiresUnix(v string) (int64, bool) {
	for _, l := range expiresLayouts {
		if t, err := time.Parse(l, v); err == nil {
			return t.Unix(), true
		}
	}
	return 0, false
}

func (c cacheCase) Sx() sx.V {
	cc := c.c
	secrets := sx.L()
	if cc.Secrets != nil {
		secrets = sx.L(sx.Strs(*cc.Secrets))
	}
	rules := []sx.V{}
	for _, r := range cc.Rules {
		rules = append(rules, r.sx())
	}
	ops := []sx.V{}
	expires := map[string]int64{}
	for _, op := range cc.Ops {
		switch op.Kind {
		case "req":
			ops = append(ops, sx.L(sx.S("req"), reqSx(op.Req)))
		case "adv":
			ops = append(ops, sx.L(sx.S("adv"), sx.I(op.Dt)))
		case "restart":
			ops = append(ops, sx.L(sx.S("restart")))
		case "par":
			ops = append(ops, sx.L(sx.S("par"), sx.I(int64(op.N)), sx.I(op.Dt)))
		case "script":
			ops = append(ops, sx.L(sx.S("script"), scriptSx(op.Script)))
			for _, hs := range op.Script {
				for _, b := range hs.Bs {
					for _, kv := range b.Hdrs {
						if strings.EqualFold(kv.K, "Expires") {
							if t, ok := expiresUnix(kv.V); ok {
								expires[kv.V] = t
							}
						}
					}
				}
			}
		}
	}
	keys := []string{}
	for k := range expires {
		keys = append(keys, k)
	}
	sort.Strings(keys)
	et := []sx.V{}
	for _, k := range keys {
		et = append(et, sx.L(sx.S(k), sx.I(expires[k])))
	}
	return sx.L(sx.S("cache"), sx.L(secrets, sx.I(int64(cc.Retries))), sx.L(rules...), sx.Strs(cc.Caches), sx.OptS(cc.Suffix),
		sx.I(cc.Base), sx.L(ops...), sx.L(et...))
}

func cacheCaseFromSx(v sx.V) CacheCase {
	c := CacheCase{Retries: int(v.N(1).N(1).Int()), Caches: v.N(3).StrList(), Base: v.N(5).Int()}
	if len(v.N(1).N(0).List()) == 1 {
		ss := v.N(1).N(0).N(0).StrList()
		c.Secrets = &ss
	}
	for _, r := range v.N(2).List() {
		c.Rules = append(c.Rules, ruleFromSx(r))
	}
	if len(v.N(4).List()) == 1 {
		s := v.N(4).N(0).Str()
		c.Suffix = &s
	}
	for _, o := range v.N(6).List() {
		switch o.N(0).Str() {
		case "req":
			c.Ops = append(c.Ops, Op{Kind: "req", Req: reqFromSx(o.N(1))})
		case "adv":
			c.Ops = append(c.Ops, Op{Kind: "adv", Dt: o.N(1).Int()})
		case "restart":
			c.Ops = append(c.Ops, Op{Kind: "restart"})
		case "par":
			c.Ops = append(c.Ops, Op{Kind: "par", N: int(o.N(1).Int()), Dt: o.N(2).Int()})
		case "script":
			c.Ops = append(c.Ops, Op{Kind: "script", Script: scriptFromSx(o.N(1))})
		}
	}
	return c
}

// clockedStorage decorates the real DiskStorage: writers get their creation stamp from the
// injected clock (VerifSetCreated), everything else is delegated unchanged.
type clockedStorage struct {
	inner caching.Storage
	now   func() time.Time
}

func (s *clockedStorage) GetWriter(k caching.Key, reval bool, ch *chan caching.KeyInfo) caching.StorageWriter {
	w := s.inner.GetWriter(k, reval, ch)
	if w != nil {
		caching.VerifSetCreated(w, s.now().Unix())
	}
	return w
}
func (s *clockedStorage) Get(ctx context.Context, keys []caching.Key) (*os.File, caching.StorageMetadata, caching.Key, error) {
	return s.inner.Get(ctx, keys)
}
func (s *clockedStorage) Id() string                                { return s.inner.Id() }
func (s *clockedStorage) Update(cfg caching.StorageConfiguration)   { s.inner.Update(cfg) }
func (s *clockedStorage) SetIsReplaced()                            { s.inner.SetIsReplaced() }
func (s *clockedStorage) WriteTest() (bool, error)                  { return s.inner.WriteTest() }

func getXattr(path, name string) (string, bool) {
	buf := make([]byte, 1<<16)
	n, err := syscall.Getxattr(path, name, buf)
	if err != nil {
		return "", false
	}
	return string(buf[:n]), true
}

func diskSnapshot(root string) sx.V {
	type ent struct{ name, meta, body string }
	var ents []ent
	filepath.Walk(root, func(p string, info os.FileInfo, err error) error {
		if err != nil || info.IsDir() {
			return nil
		}
		rel, _ := filepath.Rel(root, p)
		if rel == "atimes" || rel == "atimes-truncated" {
			return nil
		}
		body, _ := ioutil.ReadFile(p)
		meta, ok := getXattr(p, "user.rrrouter")
		if !ok {
			meta = "<no-xattr>"
		}
		ents = append(ents, ent{rel, meta, string(body)})
		return nil
	})
	sort.Slice(ents, func(i, j int) bool { return ents[i].name < ents[j].name })
	out := []sx.V{}
	for _, e := range ents {
		out = append(out, sx.L(sx.S(e.name), sx.S(e.meta), sx.S(e.body)))
	}
	return sx.L(out...)
}

var suffixMu sync.RWMutex

// One scratch root per process, removed when the run ends: a DiskStorage's limiter goroutine
// scans its directory asynchronously after start, so per-case directories must outlive the case.
var scratchOnce sync.Once
var scratchRoot string

func tmpRoot() string {
	scratchOnce.Do(func() {
		base := os.Getenv("HX_TMP")
		if base == "" {
			base = os.TempDir()
		}
		d, err := ioutil.TempDir(base, "hx-scratch-")
		if err != nil {
			panic(err)
		}
		scratchRoot = d
	})
	return scratchRoot
}

func cleanupScratch() {
	if scratchRoot != "" {
		os.RemoveAll(scratchRoot)
	}
}

func (c cacheCase) Run() (sx.V, error) {
	cc := c.c
	if cc.Suffix != nil {
		// ETAG_SUFFIX is process-global: a case that sets it runs alone
		suffixMu.Lock()
		defer suffixMu.Unlock()
		os.Setenv("ETAG_SUFFIX", *cc.Suffix)
		defer os.Unsetenv("ETAG_SUFFIX")
	} else {
		suffixMu.RLock()
		defer suffixMu.RUnlock()
	}
	rules, err := proxy.ParseRules(rulesJSON(cc.Rules), discardLogger)
	if err != nil {
		return sx.L(), fmt.Errorf("ParseRules rejected a generated ruleset: %v", err)
	}
	conf := &config.Config{RetryTimes: make([]int, cc.Retries)}
	if cc.Secrets != nil {
		conf.RoutingSecrets = *cc.Secrets
	}
	dir, err := ioutil.TempDir(tmpRoot(), "hxcache")
	if err != nil {
		return sx.L(), err
	}
	var mu sync.Mutex
	offset := int64(0)
	now := func() time.Time {
		mu.Lock()
		defer mu.Unlock()
		return time.Unix(cc.Base+offset, 0)
	}
	var inners []caching.Storage
	defer func() {
		for _, s := range inners {
			s.SetIsReplaced()
		}
	}()
	perf := newPerformer(nil)
	perf.clFromHeader = true
	perf.runaway = make(chan struct{})
	defer close(perf.runaway)
	var cache caching.Cache
	var ts *httptest.Server
	start := func() {
		var storages []*caching.Storage
		for _, id := range cc.Caches {
			inner := caching.NewDiskStorage(id, filepath.Join(dir, id), 1<<40, discardLogger, now)
			inners = append(inners, inner)
			var s caching.Storage = &clockedStorage{inner: inner, now: now}
			storages = append(storages, &s)
		}
		cache = caching.NewCacheWithStorages(storages, discardLogger, now)
		router := proxy.NewRouterWithPerformer(rules, discardLogger, conf, perf)
		smux := http.NewServeMux()
		server.ConfigureServeMux(smux, conf, router, discardLogger, cache)
		ts = httptest.NewServer(smux)
	}
	start()
	defer func() { ts.Close() }()
	var outs []sx.V
	for oi := 0; oi < len(cc.Ops); oi++ {
		op := cc.Ops[oi]
		switch op.Kind {
		case "par":
			// the next N requests at once, released together; each observation is assembled as if the request
			// had run alone: its own client response and the deliveries that carry its marker
			var group []Req
			for j := oi + 1; j < len(cc.Ops) && len(group) < op.N && cc.Ops[j].Kind == "req"; j++ {
				group = append(group, cc.Ops[j].Req)
			}
			oi += len(group)
			perf.mu.Lock()
			perf.log = nil
			for _, q := range group {
				for _, kv := range q.Hdrs {
					perf.sent[kv.V] = true
				}
			}
			if op.Dt == 1 {
				// destinations answer before they read the request bodies; the bodies are read once all clients are done
				perf.late = make(chan struct{})
			}
			perf.mu.Unlock()
			obs := make([]ClientObs, len(group))
			errs := make([]error, len(group))
			var wg sync.WaitGroup
			gate := make(chan struct{})
			for gi := range group {
				wg.Add(1)
				go func(gi int) {
					defer wg.Done()
					<-gate
					obs[gi], errs[gi] = rawRequest(ts.Listener.Addr().String(), group[gi])
				}(gi)
			}
			close(gate)
			wg.Wait()
			for _, e := range errs {
				if e != nil {
					return sx.L(), e
				}
			}
			if !caching.VerifWaitIdle(cache, 5*time.Second) {
				return sx.L(), fmt.Errorf("cache keys still locked 5 s after the requests completed")
			}
			perf.mu.Lock()
			if perf.late != nil {
				close(perf.late)
				perf.late = nil
			}
			perf.mu.Unlock()
			perf.lateWG.Wait()
			perf.mu.Lock()
			log := append([]Delivery{}, perf.log...)
			perf.mu.Unlock()
			for gi, q := range group {
				mark := ""
				for _, kv := range q.Hdrs {
					if kv.K == parHeader {
						mark = kv.V
					}
				}
				var mine []Delivery
				for _, d := range log {
					if d.Hdrs.Get(parHeader) == mark {
						mine = append(mine, d)
					}
				}
				outs = append(outs, sx.L(obs[gi].sx(), deliveriesSx(mine, perf.sent), sx.L()))
			}
		case "adv":
			mu.Lock()
			offset += op.Dt
			mu.Unlock()
		case "restart":
			// a restarted rrrouter over the same directory
			ts.Close()
			start()
		case "script":
			perf.mu.Lock()
			for _, hs := range op.Script {
				perf.script[hs.Host] = append([]Behaviour{}, hs.Bs...)
			}
			perf.mu.Unlock()
		case "req":
			perf.mu.Lock()
			perf.log = nil
			for _, kv := range op.Req.Hdrs {
				perf.sent[kv.V] = true
			}
			perf.mu.Unlock()
			o, err := rawRequest(ts.Listener.Addr().String(), op.Req)
			if err != nil {
				return sx.L(), err
			}
			if o.Kind != "no-response" && !caching.VerifWaitIdle(cache, 5*time.Second) {
				return sx.L(), fmt.Errorf("cache keys still locked 5 s after the request completed")
			}
			perf.mu.Lock()
			dl := deliveriesSx(perf.log, perf.sent)
			perf.mu.Unlock()
			disk := []sx.V{}
			for _, id := range cc.Caches {
				disk = append(disk, diskSnapshot(filepath.Join(dir, id)).L...)
			}
			outs = append(outs, sx.L(o.sx(), dl, sx.L(disk...)))
		}
	}
	return sx.L(outs...), nil
}

func itoa(i int64) string { return strconv.FormatInt(i, 10) }
