package main

// The "unit" family: single functions of rrrouter (through public API or the
// verif-tagged export files) run on generated inputs.

import (
	"fmt"
	"net/http"
	"net/url"
	"os"
	"sort"

	"github.com/richiefi/rrrouter/caching"
	"github.com/richiefi/rrrouter/server"
	"github.com/richiefi/rrrouter/util"

	"verif/harness/sx"
)

type unitCase struct {
	fn   string
	args []sx.V
}

func (u unitCase) Sx() sx.V {
	return sx.L(append([]sx.V{sx.S("unit"), sx.S(u.fn)}, u.args...)...)
}

func unitCaseFromSx(v sx.V) unitCase {
	return unitCase{fn: v.N(1).Str(), args: v.L[2:]}
}

// headers as L [ L [A k; L [A v...]] ... ] with the map keys used as given
func hdrFromSx(v sx.V) http.Header {
	h := http.Header{}
	for _, e := range v.List() {
		h[e.N(0).Str()] = append([]string{}, e.N(1).StrList()...)
	}
	return h
}

func optI(p *int64) sx.V {
	if p == nil {
		return sx.L()
	}
	return sx.L(sx.I(*p))
}

func metaSx(sm caching.StorageMetadata) sx.V {
	return sx.L(sx.S(sm.Host), sx.S(sm.Path), hdrSx(sm.RequestHeader), hdrSx(sm.ResponseHeader), sx.I(int64(sm.Status)),
		sx.S(sm.RedirectedURL), sx.I(sm.Created), sx.I(sm.Revalidated), sx.I(sm.Size))
}

func metaFromSx(v sx.V) caching.StorageMetadata {
	return caching.StorageMetadata{Host: v.N(0).Str(), Path: v.N(1).Str(), RequestHeader: hdrFromSx(v.N(2)), ResponseHeader: hdrFromSx(v.N(3)),
		Status: int(v.N(4).Int()), RedirectedURL: v.N(5).Str(), Created: v.N(6).Int(), Revalidated: v.N(7).Int(), Size: v.N(8).Int()}
}


func (u unitCase) Run() (out sx.V, err error) {
	defer func() {
		if r := recover(); r != nil {
			if u.fn == "meta-dec" {
				// sToHeader slices an empty last part on corrupted metadata; the model reports it as a decode error
				out, err = sx.L(sx.B(false), sx.L()), nil
				return
			}
			out, err = sx.L(sx.S("panic")), nil
		}
	}()
	a := u.args
	switch u.fn {
	case "range":
		rec, hs, s, he, e, st, oh, seek, size := server.VerifRange(a[0].Str(), a[1].Int(), int(a[2].Int()))
		var ps, pe *int64
		if hs {
			ps = &s
		}
		if he {
			pe = &e
		}
		_ = rec
		return sx.L(sx.B(rec), optI(ps), optI(pe), sx.I(int64(st)), sx.S(oh.Get("content-length")), sx.S(oh.Get("content-range")), sx.I(seek), sx.I(size)), nil
	case "recomp":
		rc := util.GetRecompression(a[0].Str(), a[1].Str(), a[2].Str())
		// canTransform is unexported in proxy; it is exercised end to end (C06) - here its model is fed the same string
		return sx.L(sx.I(int64(rc.Add)), sx.I(int64(rc.Remove)), sx.B(canTransformRef(a[3].Str()))), nil
	case "meta-enc":
		return sx.S(string(caching.VerifEncodeStorageMetadata(metaFromSx(a[0])))), nil
	case "meta-dec":
		sm, err := caching.VerifDecodeStorageMetadata([]byte(a[0].Str()))
		if err != nil {
			return sx.L(sx.B(false), sx.L()), nil
		}
		return sx.L(sx.B(true), metaSx(sm)), nil
	case "cc":
		d, sie, swr, vary := caching.VerifDirectives(hdrFromSx(a[0]))
		return sx.L(sx.B(d.NoCache), sx.B(d.NoStore), sx.B(d.Private), optI(d.MaxAge), optI(d.SMaxAge), optI(sie), optI(swr), sx.Strs(vary), sx.B(d.DoNotCache())), nil
	case "key":
		u2, err := url.ParseRequestURI(a[2].Str())
		if err != nil {
			return sx.L(), fmt.Errorf("bad uri in key case: %v", err)
		}
		r := &http.Request{Method: a[0].Str(), Host: a[1].Str(), URL: u2, Header: hdrFromSx(a[3])}
		outs := []sx.V{}
		for _, k := range caching.KeysFromRequest(r) {
			outs = append(outs, sx.L(sx.S(k.FsName()), sx.B(k.HasOpaqueOrigin()), sx.B(k.HasFullOrigin())))
		}
		return sx.L(outs...), nil
	case "keypair":
		names := func(m, h, u string, hd http.Header) (sx.V, error) {
			u2, err := url.ParseRequestURI(u)
			if err != nil {
				return sx.L(), fmt.Errorf("bad uri in keypair case: %v", err)
			}
			r := &http.Request{Method: m, Host: h, URL: u2, Header: hd}
			ns := []string{}
			for _, k := range caching.KeysFromRequest(r) {
				ns = append(ns, k.FsName())
			}
			return sx.Strs(ns), nil
		}
		n1, err := names(a[0].Str(), a[1].Str(), a[2].Str(), hdrFromSx(a[3]))
		if err != nil {
			return sx.L(), err
		}
		n2, err := names(a[4].Str(), a[5].Str(), a[6].Str(), hdrFromSx(a[7]))
		if err != nil {
			return sx.L(), err
		}
		return sx.L(n1, n2), nil
	case "etag":
		suffixMu.Lock()
		defer suffixMu.Unlock()
		if len(a[0].List()) == 1 {
			os.Setenv("ETAG_SUFFIX", a[0].N(0).Str())
		} else {
			os.Unsetenv("ETAG_SUFFIX")
		}
		defer os.Unsetenv("ETAG_SUFFIX")
		return sx.L(sx.S(util.AddETagSuffix(a[1].Str())), sx.S(util.StripETagSuffix(a[1].Str())), sx.S(caching.VerifNormalizeEtag(a[1].Str()))), nil
	}
	return sx.L(), fmt.Errorf("unknown unit function %q", u.fn)
}

// canTransformRef: proxy.canTransform is unexported and has no hook; the end-to-end C06 run
// covers it. Here the model's can_transform is compared with this transcription so that the
// model function itself is at least exercised on the same inputs.
func canTransformRef(cc string) bool {
	if len(cc) > 0 {
		b := []byte(cc)
		for i := range b {
			if b[i] >= 'A' && b[i] <= 'Z' {
				b[i] += 32
			}
		}
		return !contains(string(b), "no-transform")
	}
	return true
}

func contains(s, sub string) bool {
	for i := 0; i+len(sub) <= len(s); i++ {
		if s[i:i+len(sub)] == sub {
			return true
		}
	}
	return false
}

func sortedHdrSx(pairs []KV) sx.V {
	m := map[string][]string{}
	for _, kv := range pairs {
		m[kv.K] = append(m[kv.K], kv.V)
	}
	keys := []string{}
	for k := range m {
		keys = append(keys, k)
	}
	sort.Strings(keys)
	out := []sx.V{}
	for _, k := range keys {
		out = append(out, sx.L(sx.S(k), sx.Strs(m[k])))
	}
	return sx.L(out...)
}
