package main

import (
	"fmt"
	"net/url"
	"strconv"
	"strings"

	"verif/harness/sx"
)

// ---------- C15: Range parsing and arithmetic ----------

var malformedRanges = []string{"bytes=", "bytes=-", "bytes=a-b", "bytes=1-2,4-5", "bytes=5-2", "items=0-1", "bytes=0-1-2", "bytes 0-1", "bytes=+1-+2", "bytes=--5",
	"bytes= 0-1", "bytes=0- 1", "bytes=0x1-2", "bytes=1e1-20", "bytes=9223372036854775807-", "bytes=9223372036854775808-", "bytes=0-0bytes=1-1",
	"BYTES=0-1", "bytes=0-1;", "bytes=１-2", "bytes=-1-2", "bytes=1--2", "x", "bytes=00-01", "bytes=-00"}

func genRangeUnit(tier string) []Case {
	var out []Case
	add := func(h string, cl int64, st int64) {
		out = append(out, unitCase{"range", []sx.V{sx.S(h), sx.I(cl), sx.I(st)}})
	}
	maxN, maxV := int64(12), int64(14)
	if tier == "thorough" {
		maxN, maxV = 24, 27
	}
	for n := int64(0); n <= maxN; n++ {
		for a := int64(0); a <= maxV; a++ {
			add(fmt.Sprintf("bytes=%d-", a), n, 200)
			add(fmt.Sprintf("bytes=-%d", a), n, 200)
			for b := int64(0); b <= maxV; b++ {
				if tier != "thorough" && (a+b+n)%3 != 0 && b != a && b != n-1 && b != n {
					continue
				}
				add(fmt.Sprintf("bytes=%d-%d", a, b), n, 200)
			}
		}
		for _, m := range malformedRanges {
			add(m, n, 200)
		}
		add("bytes=0-1", n, 206)
		add("bytes=0-1", n, 404)
		add("", n, 200)
	}
	add("bytes=0-99", -1, 200) // unknown length
	add("bytes=100-", 1<<40, 200)
	add("bytes=0-", 1<<40, 200)
	return out
}

// ---------- C06: the recompression decision table ----------

var aeClass = []string{"", "gzip", "br", "gzip, br", "gzip, deflate, br", "deflate", "identity", "*", "gzip;q=1.0, br;q=0.5", "br;q=0", "x-brand", "abracadabra", "GZIP", "gzip,br", "bro", "gzipped", ";", "compress, gzip", "zstd", "BR"}
var ceVals = []string{"", "identity", "gzip", "br", "deflate", "GZIP", "gzip, br", "Br", "x-gzip", " gzip"}
var ctVals = []string{"", "text/html", "text/plain; charset=utf-8", "application/json", "application/json; charset=utf-8", "image/png", "TEXT/html", "application/javascript", "text/"}
var ccVals = []string{"", "no-transform", "public, No-Transform", "max-age=5", "no-transformation", "NO-TRANSFORM, private", "public,no-transform"}

func genRecompUnit() []Case {
	var out []Case
	for _, ae := range aeClass {
		for _, ce := range ceVals {
			for _, ct := range ctVals {
				for _, cc := range ccVals {
					out = append(out, unitCase{"recomp", []sx.V{sx.S(ae), sx.S(ce), sx.S(ct), sx.S(cc)}})
				}
			}
		}
	}
	return out
}

// ---------- C07: the metadata codec ----------

var delimAlphabet = []string{"|", "[", "]", "],", "{", "}", ":", ",", "\"", "\\", " ", "a", "b", "x=1", "[]", "{}", "],[", "]}", "{\"a\":[1]}", "W/\"e\"", "é", "\t", "=", ";"}
var plainVals = []string{"text/html", "max-age=60", "42", "\"abc\"", "Mon, 02 Jan 2006 15:04:05 GMT", "gzip", "a=1; Path=/", "public, max-age=3600", ""}
var hdrNames = []string{"Content-Type", "Cache-Control", "Etag", "Set-Cookie", "X-A", "Content-Length", "Vary", "Link", "X-B", "Age"}

func genHdrVal(rng *Rng, hostile bool) string {
	if !hostile {
		return rng.Pick(plainVals)
	}
	n := 1 + rng.Intn(4)
	s := ""
	for i := 0; i < n; i++ {
		s += rng.Pick(delimAlphabet)
	}
	return strings.Trim(s, " \t") // field values never carry leading or trailing white space on the wire
}

func genHdrs(rng *Rng, hostile bool, multi bool) []KV {
	var out []KV
	n := rng.Intn(5)
	for i := 0; i < n; i++ {
		k := rng.Pick(hdrNames)
		if hostile && rng.Chance(10, 100) {
			k = "X-" + strings.ToUpper(rng.Pick([]string{"a", "b"})) + rng.Pick([]string{"", "|", "~"})
		}
		out = append(out, KV{k, genHdrVal(rng, hostile && rng.Chance(60, 100))})
		if multi && rng.Chance(30, 100) {
			out = append(out, KV{k, genHdrVal(rng, hostile && rng.Chance(60, 100))})
		}
	}
	return out
}

func genMetaUnit(tier string, rng *Rng) []Case {
	var out []Case
	n := 3000
	if tier == "thorough" {
		n = 30000
	}
	for i := 0; i < n; i++ {
		hostile := rng.Chance(50, 100)
		multi := rng.Chance(30, 100)
		host := rng.Pick([]string{"example.com", "h1:8080", "", "a|b", "[::1]"})
		path := rng.Pick([]string{"/", "/a/b?x=1", "/p|q", "/a%7Cb", "/x?y=[1]"})
		if !hostile {
			host, path = "example.com", rng.Pick([]string{"/", "/a/b?x=1"})
		}
		m := sx.L(sx.S(host), sx.S(path), sortedHdrSx(genHdrs(rng, hostile, multi)), sortedHdrSx(genHdrs(rng, hostile, multi)),
			sx.I(int64(rng.Pick2([]int{200, 301, 404, 0, -1}))), sx.S(rng.Pick([]string{"", "http://d.test/x", "http://d.test/a|b"})),
			sx.I(int64(rng.Intn(2000000000))), sx.I(int64(rng.Intn(3))*1700000000), sx.I(int64(rng.Intn(100000))))
		out = append(out, unitCase{"meta-enc", []sx.V{m}})
	}
	// raw strings for the decoder: valid encodings, perturbed encodings, JSON, junk
	raws := []string{"", "|", "||||||||", "a|b|{}|{}|200||1|0|2", "a|b|{}|{}|200||1|0|2|", "a|b|{A:[1]}|{B:[2],C:[3]}|200||1|0|2", "a|b|{A:[1],B:[]}|{}|x||1|0|2",
		"a|b|{A:[1]|{}|200||1|0|2", "a|b|{}|{B:[x],y}|200||1|0|2", "a|b|{}|{B:[[x]]}|200||1|0|2", "a|b|{}|{B:[x],C:[y]],D:[z]}|200||1|0|2", "a|b|{}|{:[x]}|200||1|0|2",
		"a|b|{}|{B:x}|200||1|0|2", "a|b|{}|{}|200||1|0|+2", "a|b|{}|{}| 200||1|0|2", "a|b|{}|{}|200||9223372036854775808|0|2", "a|b|{}|{}}|200||1|0|2", "a|b|{{}|{}|200||1|0|2",
		"a|b|{}|{B:[x]],}|200||1|0|2", "a|b|{}|{B:[x],}|200||1|0|2", "a|b|{}|{b:[x],B:[y]}|200||1|0|2", "a|b|x|{}|200||1|0|2", "a|b|{}|{A:[1],A:[2]}|200||1|0|2"}
	for _, r := range raws {
		out = append(out, unitCase{"meta-dec", []sx.V{sx.S(r)}})
	}
	for i := 0; i < n/3; i++ {
		parts := []string{rng.Pick([]string{"h", "", "a b"}), rng.Pick([]string{"/", "/p"}), "{" + genHdrStr(rng) + "}", "{" + genHdrStr(rng) + "}",
			rng.Pick([]string{"200", "x", "", "-1"}), rng.Pick([]string{"", "u"}), rng.Pick([]string{"1", "0", "z"}), "0", rng.Pick([]string{"5", "05", ""})}
		if rng.Chance(10, 100) {
			parts = parts[:len(parts)-1]
		}
		out = append(out, unitCase{"meta-dec", []sx.V{sx.S(strings.Join(parts, "|"))}})
	}
	return out
}

func genHdrStr(rng *Rng) string {
	n := rng.Intn(4)
	ps := []string{}
	for i := 0; i < n; i++ {
		ps = append(ps, rng.Pick([]string{"A", "Bb", "c-d", ""})+rng.Pick([]string{":", ":", ""})+rng.Pick([]string{"[", "[", ""})+rng.Pick([]string{"v", "", "x],y", "[z]", "a:b", "],"})+rng.Pick([]string{"]", "]", ""}))
	}
	return strings.Join(ps, rng.Pick([]string{",", ",", ", ", "],"}))
}

func (r *Rng) Pick2(xs []int) int { return xs[r.Intn(len(xs))] }

// ---------- C08 / C10: Cache-Control directives ----------

var ccTokens = []string{"no-store", "no-cache", "private", "public", "max-age=0", "max-age=60", "s-maxage=0", "s-maxage=30", "max-age=-1", "max-age=+5", "max-age=\"0\"",
	"No-Store", "NO-CACHE", "Private", "MAX-AGE=0", "no-cache=\"set-cookie\"", "private=\"x\"", "\tno-store", "no-store\t", " no-store ", "max-age = 0", "max-age=0 ", "max-age= 10",
	"stale-if-error=100", "stale-while-revalidate=20", "stale-if-error=x", "must-revalidate", "max-age=1=2", "=", "max-age=", "max-age=9223372036854775808", "nostore", "no-store=1", "immutable", "max-age=1.5", "s-maxage=00"}

func genCCUnit(tier string, rng *Rng) []Case {
	var out []Case
	mk := func(vals []string, vary []string) {
		var kvs []KV
		for _, v := range vals {
			kvs = append(kvs, KV{"Cache-Control", v})
		}
		for _, v := range vary {
			kvs = append(kvs, KV{"Vary", v})
		}
		out = append(out, unitCase{"cc", []sx.V{sortedHdrSx(kvs)}})
	}
	for _, t := range ccTokens {
		mk([]string{t}, nil)
		mk([]string{"public, " + t}, nil)
		mk([]string{t + ",max-age=60"}, nil)
		mk([]string{"public", t}, nil) // second header line
	}
	n := 2000
	if tier == "thorough" {
		n = 20000
	}
	for i := 0; i < n; i++ {
		var lines []string
		for l := rng.Intn(3); l >= 0; l-- {
			var toks []string
			for k := rng.Intn(4); k >= 0; k-- {
				toks = append(toks, rng.Pick(ccTokens))
			}
			lines = append(lines, strings.Join(toks, rng.Pick([]string{",", ", ", " ,", ",,"})))
		}
		var vary []string
		if rng.Chance(40, 100) {
			vary = append(vary, rng.Pick([]string{"Origin", "origin", "Accept-Encoding, Origin", "Accept-Encoding", "ORIGIN ", "*", "Origin-X"}))
		}
		mk(lines, vary)
	}
	return out
}

// ---------- C11: cache keys ----------

func keyCase(method, host, uri string, hdrs []KV) Case {
	return unitCase{"key", []sx.V{sx.S(method), sx.S(host), sx.S(uri), sortedHdrSx(hdrs)}}
}

func genKeyUnit(tier string, rng *Rng) []Case {
	var out []Case
	// boundary-moving families: every legal way to re-split one string
	out = append(out, keyCase("GET", "example.com", "/x", []KV{{"Accept-Encoding", "gzip"}}))
	out = append(out, keyCase("GET", "example.com", "/xAccept-Encodinggzip", nil))
	out = append(out, keyCase("HEAD", "example.com", "/x", nil))
	out = append(out, keyCase("GET", "HEADexample.com", "/x", nil))
	out = append(out, keyCase("GET", "example.com", "/x", []KV{{"Accept-Encoding", "gzip"}, {"Accept-Encoding", "br"}}))
	out = append(out, keyCase("GET", "example.com", "/x", []KV{{"Accept-Encoding", "gzipbr"}}))
	out = append(out, keyCase("GET", "example.com", "/x", []KV{{"Origin", "https://a"}}))
	out = append(out, keyCase("GET", "example.com", "/xopaqueOrigin", nil))
	out = append(out, keyCase("GET", "example.com", "/x", []KV{{"Authorization", "Basic a"}, {"Accept-Encoding", "gzip"}}))
	out = append(out, keyCase("GET", "example.com", "/x", []KV{{"Accept-Encoding", "gzipAuthorizationBasic a"}}))
	n := 2500
	if tier == "thorough" {
		n = 25000
	}
	methods := []string{"GET", "HEAD", "GET", "OPTIONS"}
	hosts := []string{"example.com", "example.com:80", "HEADexample.com", "a", "ab", ""}
	uris := []string{"/", "/x", "/x?y=1", "/xAccept-Encodinggzip", "/xopaqueOrigin", "/x%2Fy", "/b/x", "/x/", "/X"}
	for i := 0; i < n; i++ {
		var hdrs []KV
		if rng.Chance(50, 100) {
			hdrs = append(hdrs, KV{"Accept-Encoding", rng.Pick([]string{"gzip", "br", "gzip, br", "", "gzipbr", "identity"})})
			if rng.Chance(20, 100) {
				hdrs = append(hdrs, KV{"Accept-Encoding", rng.Pick([]string{"br", "gzip"})})
			}
		}
		if rng.Chance(30, 100) {
			hdrs = append(hdrs, KV{"Authorization", rng.Pick([]string{"Basic a", "Basic b", "Bearer x"})})
		}
		if rng.Chance(35, 100) {
			hdrs = append(hdrs, KV{"Origin", rng.Pick([]string{"https://a", "https://b", "null", ""})})
		}
		if rng.Chance(30, 100) {
			hdrs = append(hdrs, KV{rng.Pick([]string{"User-Agent", "Cookie", "Accept", "If-None-Match", "Range", "X-Forwarded-Proto"}), rng.Pick([]string{"u1", "u2"})})
		}
		if rng.Chance(5, 100) {
			hdrs = append(hdrs, KV{"Host", "injected.test"})
		}
		out = append(out, keyCase(rng.Pick(methods), rng.Pick(hosts), rng.Pick(uris), hdrs))
	}
	return out
}

type keyReq struct {
	m, h, u string
	hd      []KV
}

func keyPair(a, b keyReq) Case {
	return unitCase{"keypair", []sx.V{sx.S(a.m), sx.S(a.h), sx.S(a.u), sortedHdrSx(a.hd), sx.S(b.m), sx.S(b.h), sx.S(b.u), sortedHdrSx(b.hd)}}
}

// resplit enumerates requests obtained by moving text across the field boundaries of one request.
func resplit(r keyReq) []keyReq {
	out := []keyReq{}
	// method <-> host
	if r.m != "GET" {
		out = append(out, keyReq{"GET", r.m + r.h, r.u, r.hd})
	}
	// host <-> path is not legal (a request-target starts with '/'); path <-> headers:
	flat := ""
	keys := map[string][]string{}
	for _, kv := range r.hd {
		keys[kv.K] = append(keys[kv.K], kv.V)
	}
	for _, k := range []string{"Accept-Encoding", "Authorization", "Origin"} {
		if vs, ok := keys[k]; ok {
			flat += k
			for _, v := range vs {
				flat += v
			}
		}
	}
	if flat != "" && !strings.ContainsAny(flat, " \"") {
		out = append(out, keyReq{r.m, r.h, r.u + flat, nil})
	}
	// value <-> value
	for k, vs := range keys {
		if len(vs) > 1 {
			var hd []KV
			for _, kv := range r.hd {
				if kv.K != k {
					hd = append(hd, kv)
				}
			}
			hd = append(hd, KV{k, strings.Join(vs, "")})
			out = append(out, keyReq{r.m, r.h, r.u, hd})
		}
	}
	// header name boundary: value of one header swallows the next header
	if ae, ok := keys["Accept-Encoding"]; ok {
		if au, ok2 := keys["Authorization"]; ok2 && len(ae) == 1 && len(au) == 1 {
			out = append(out, keyReq{r.m, r.h, r.u, []KV{{"Accept-Encoding", ae[0] + "Authorization" + au[0]}}})
		}
	}
	if _, ok := keys["Origin"]; ok {
		var hd []KV
		for _, kv := range r.hd {
			if kv.K != "Origin" {
				hd = append(hd, kv)
			}
		}
		out = append(out, keyReq{r.m, r.h, r.u + "opaqueOrigin", hd})
		out = append(out, keyReq{r.m, r.h, r.u, hd})
	}
	return out
}

func genKeyPairs(tier string, rng *Rng) []Case {
	var out []Case
	n := 1500
	if tier == "thorough" {
		n = 15000
	}
	methods := []string{"GET", "HEAD", "GET"}
	hosts := []string{"example.com", "example.com:80", "a", "ab"}
	uris := []string{"/", "/x", "/x?y=1", "/b/x", "/x/"}
	mk := func() keyReq {
		var hdrs []KV
		if rng.Chance(60, 100) {
			hdrs = append(hdrs, KV{"Accept-Encoding", rng.Pick([]string{"gzip", "br", "gzip, br", "identity"})})
			if rng.Chance(30, 100) {
				hdrs = append(hdrs, KV{"Accept-Encoding", rng.Pick([]string{"br", "gzip"})})
			}
		}
		if rng.Chance(40, 100) {
			hdrs = append(hdrs, KV{"Authorization", rng.Pick([]string{"Basic a", "Basic b"})})
		}
		if rng.Chance(40, 100) {
			hdrs = append(hdrs, KV{"Origin", rng.Pick([]string{"https://a", "https://b"})})
		}
		if rng.Chance(20, 100) {
			hdrs = append(hdrs, KV{"User-Agent", rng.Pick([]string{"u1", "u2"})})
		}
		return keyReq{rng.Pick(methods), rng.Pick(hosts), rng.Pick(uris), hdrs}
	}
	// percent-escapes are part of the request-target: an escaped delimiter is not the delimiter
	escPairs := [][2]string{{"/x%2Fy", "/x/y"}, {"/a%3Fb=c", "/a?b=c"}, {"/p%2Fq%3Fr=1", "/p/q?r=1"}, {"/a%25b", "/a%b"}, {"/a%2fb", "/a%2Fb"}, {"/x?q=%2F", "/x?q=/"}}
	for _, pr := range escPairs {
		if _, err := url.ParseRequestURI(pr[0]); err != nil {
			continue
		}
		if _, err := url.ParseRequestURI(pr[1]); err != nil {
			continue
		}
		for _, h := range hosts {
			out = append(out, keyPair(keyReq{"GET", h, pr[0], nil}, keyReq{"GET", h, pr[1], nil}))
		}
	}
	for len(out) < n {
		a := mk()
		for _, b := range resplit(a) {
			out = append(out, keyPair(a, b))
		}
		b := mk()
		out = append(out, keyPair(a, b))
		// a near copy differing in exactly one field
		c := a
		switch rng.Intn(4) {
		case 0:
			c.m = rng.Pick(methods)
		case 1:
			c.h = rng.Pick(hosts)
		case 2:
			c.u = rng.Pick(uris)
		case 3:
			c.hd = append(append([]KV{}, a.hd...), KV{rng.Pick([]string{"Accept-Encoding", "Authorization", "Cookie"}), "zz"})
		}
		out = append(out, keyPair(a, c))
		out = append(out, keyPair(a, a))
	}
	return out
}

// ---------- C09: ETag helpers ----------

func genEtagUnit() []Case {
	var out []Case
	etags := []string{"", "\"abc\"", "W/\"abc\"", "abc", "\"abc-sfx\"", "W/\"abc-sfx\"", "abc-sfx", "\"\"", "\"", "W/", "/W\"x\"", "WW//\"x\"", "\"a\"b\"", "\"abc\"-sfx", "W", "\"abc-sfx", "-sfx", "\"-sfx\"", "Wabc", "//x",
		// tags whose own tail consists of bytes that also occur in a suffix (cutset-vs-suffix confusions)
		"\"rev-100\"", "\"rev-100-001\"", "W/\"v1.10\"", "build-2010", "\"boxes-sfx\"", "\"ffs\"", "ss", "\"x-s\"", "\"1-0-0\"", "\"xxx\"", "\"a-001-001\""}
	sfx := []*string{nil}
	for _, s := range []string{"-sfx", "\"", "x", "abc", "-001", "s"} {
		s := s
		sfx = append(sfx, &s)
	}
	for _, s := range sfx {
		for _, e := range etags {
			out = append(out, unitCase{"etag", []sx.V{sx.OptS(s), sx.S(e)}})
		}
	}
	return out
}

// ---------- C06 end to end: real codecs through the real server ----------
func genRecompE2E(tier string, rng *Rng) []Case {
	n := 400
	if tier == "thorough" {
		n = 4000
	}
	aes := []string{"", "gzip", "br", "gzip, br", "gzip, deflate, br", "gzip;q=1.0, br;q=0.5", "br;q=1", "identity", "deflate", "GZIP", "x-gzip"}
	encs := []string{"", "", "gzip", "gzip", "br", "gzip-multi"}
	cts := []string{"text/html", "text/plain; charset=utf-8", "application/json", "image/png", "application/octet-stream"} // always one: without it Go's server sniffs a type itself
	ccs := []string{"", "", "max-age=60", "no-transform", "public, No-Transform"}
	var out []Case
	for i := 0; i < n; i++ {
		enc := encs[rng.Intn(len(encs))]
		size := rng.Pick2([]int{0, 1, 17, 1000, 40000, 150000})
		var b strings.Builder
		for b.Len() < size {
			b.WriteString(rng.Pick([]string{"lorem ipsum ", "{\"k\": [1,2,3]} ", "\x00\xff\x10binary ", "aaaaaaaaaaaaaaaaaaaaaaaa"}))
		}
		content := b.String()
		if len(content) > size {
			content = content[:size]
		}
		hdrs := []KV{}
		if ct := cts[rng.Intn(len(cts))]; ct != "" {
			hdrs = append(hdrs, KV{"Content-Type", ct})
		}
		if cc := ccs[rng.Intn(len(ccs))]; cc != "" {
			hdrs = append(hdrs, KV{"Cache-Control", cc})
		}
		switch enc {
		case "gzip", "gzip-multi":
			hdrs = append(hdrs, KV{"Content-Encoding", "gzip"})
		case "br":
			hdrs = append(hdrs, KV{"Content-Encoding", "br"})
		}
		if rng.Chance(70, 100) {
			hdrs = append(hdrs, KV{"Content-Length", strconv.Itoa(len(content))}) // for an encoded body: replaced by the length on the wire
		}
		if rng.Chance(20, 100) {
			hdrs = append(hdrs, KV{"Vary", rng.Pick([]string{"Origin", "Accept-Encoding", "accept-encoding, Origin"})})
		}
		rule := Rule{Enabled: true, Path: "/r/*", Dest: "http://o.test/$1", Type: 1, Recomp: rng.Chance(80, 100)}
		req := Req{Method: rng.Pick([]string{"GET", "GET", "GET", "HEAD", "POST"}), Host: "client.test", Target: "/r/x"}
		if ae := aes[rng.Intn(len(aes))]; ae != "" {
			req.Hdrs = append(req.Hdrs, KV{"Accept-Encoding", ae})
		}
		c := RouteCase{Rules: []Rule{rule}, Req: req,
			Script: []HostScript{{"o.test", []Behaviour{{Status: 200, Hdrs: hdrs, Body: content, Enc: enc}}}}}
		out = append(out, routeCase{c})
	}
	return out
}
