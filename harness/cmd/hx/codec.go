package main

// real codecs for the end-to-end recompression cases: the scripted origin encodes its content,
// the client decodes what it receives as the response's Content-Encoding says

import (
	"bytes"
	"compress/gzip"
	"io/ioutil"

	"github.com/itchio/go-brotli/dec"
	"github.com/itchio/go-brotli/enc"
)

func gz(s string) []byte {
	var b bytes.Buffer
	w := gzip.NewWriter(&b)
	w.Write([]byte(s))
	w.Close()
	return b.Bytes()
}

func encodeBody(content, how string) string {
	switch how {
	case "gzip":
		return string(gz(content))
	case "gzip-multi":
		// two members: a valid gzip stream (RFC 1952 2.2) whose content is the concatenation
		h := len(content) / 2
		return string(append(gz(content[:h]), gz(content[h:])...))
	case "br":
		var b bytes.Buffer
		w := enc.NewBrotliWriter(&b, &enc.BrotliWriterOptions{Quality: 1})
		w.Write([]byte(content))
		w.Close()
		return b.String()
	}
	return content
}

func decodeBody(raw, contentEncoding string) (string, bool) {
	switch contentEncoding {
	case "", "identity":
		return raw, true
	case "gzip":
		if len(raw) == 0 {
			return "", true
		}
		r, err := gzip.NewReader(bytes.NewReader([]byte(raw)))
		if err != nil {
			return "", false
		}
		out, err := ioutil.ReadAll(r)
		if err != nil {
			return string(out) + "<gzip error>", true
		}
		return string(out), true
	case "br":
		if len(raw) == 0 {
			return "", true
		}
		out, err := ioutil.ReadAll(dec.NewBrotliReader(bytes.NewReader([]byte(raw))))
		if err != nil {
			return string(out) + "<br error>", true
		}
		return string(out), true
	}
	return raw, true
}
