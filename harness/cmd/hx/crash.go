package main

// The "crash" family (C14): one storage operation run as a separate process under strace, killed
// (SIGKILL injected on syscall entry) at the n-th call of one kind touching the cache files, and
// the directory it leaves handed to a fresh DiskStorage. One untraced-kill run per operation
// records the sequence of file system calls the real code makes: the model's effect list is
// compared with it, and the crash point is an index into it.

import (
	"bufio"
	"context"
	"fmt"
	"io/ioutil"
	"net/http"
	"net/url"
	"os"
	"os/exec"
	"path/filepath"
	"regexp"
	"runtime"
	"strconv"
	"strings"
	"time"

	"github.com/richiefi/rrrouter/caching"

	"verif/harness/sx"
)

var crashOps = []string{"fill", "fill-chunked", "reval-body", "reval-304", "changekey", "refill-after-evict", "atimes-rewrite"}

const (
	bodyOld = "old-body-0"
	bodyNew = "AAAAABBBBBCCCCC"
)

func c14Key(vary bool) caching.Key {
	u, _ := url.ParseRequestURI("/c14/a")
	h := http.Header{}
	if vary {
		h.Set("Origin", "https://o.test")
	}
	r := &http.Request{Method: "GET", Host: "c14.test", URL: u, Header: h}
	ks := caching.KeysFromRequest(r)
	if vary {
		for _, k := range ks {
			if k.HasFullOrigin() {
				return k
			}
		}
	}
	return ks[0]
}

func c14Header(body string, withLength bool) http.Header {
	h := http.Header{"Cache-Control": []string{"max-age=60"}, "Etag": []string{`"` + body[:3] + `"`}}
	if withLength {
		h.Set("Content-Length", strconv.Itoa(len(body)))
	}
	return h
}

func c14Fill(s caching.Storage, k caching.Key, reval bool, body string, withLength bool, chunk int, changeTo *caching.Key) error {
	w := s.GetWriter(k, reval, nil)
	if w == nil {
		return fmt.Errorf("GetWriter refused")
	}
	if changeTo != nil {
		// as the server does it: the key is changed before the response head is written
		if err := w.ChangeKey(*changeTo); err != nil {
			return err
		}
	}
	w.WriteHeader(200, c14Header(body, withLength))
	for i := 0; i < len(body); i += chunk {
		j := i + chunk
		if j > len(body) {
			j = len(body)
		}
		if _, err := w.Write([]byte(body[i:j])); err != nil {
			return err
		}
	}
	return w.Close()
}

// the state the operation starts from (not traced)
func crashPrepare(dir, op string) error {
	s := caching.NewDiskStorage("c14", dir, 1<<40, discardLogger, time.Now)
	defer s.SetIsReplaced()
	switch op {
	case "reval-body", "reval-304", "refill-after-evict":
		return c14Fill(s, c14Key(false), false, bodyOld, true, 64, nil)
	case "atimes-rewrite":
		if err := c14Fill(s, c14Key(false), false, bodyOld, true, 64, nil); err != nil {
			return err
		}
		// an access log longer than ATIME_LOG_SIZE_BYTES (set to 200 for the traced run)
		var b strings.Builder
		for i := 0; i < 12; i++ {
			fmt.Fprintf(&b, "x/y/z/xyz%02d|%d|4\n", i, 1700000000+i)
		}
		fmt.Fprintf(&b, "%s|%d|0\n", c14Key(false).FsName(), atOld)
		return ioutil.WriteFile(filepath.Join(dir, "atimes"), []byte(b.String()), 0644)
	}
	return nil
}

// the operation itself: runs in a child process, traced
func crashRun(dir, op string) error {
	runtime.LockOSThread()
	if op == "atimes-rewrite" {
		// no DiskStorage here: its own limiter goroutine reads the access log when it starts, at a moment of its choosing,
		// and that open would be counted among the traced calls of one run and not of the next
		l := caching.VerifNewLimiter(dir, 1<<40, 1700000000)
		l.Startup()
		l.Access(c14Key(false).FsName(), int64(len(bodyOld)), atNew)
		l.Access("x/y/z/xyz03", 4096, 1700000201)
		l.Flush()
		return nil
	}
	s := caching.NewDiskStorage("c14", dir, 1<<40, discardLogger, time.Now)
	switch op {
	case "fill":
		return c14Fill(s, c14Key(false), false, bodyNew, true, 5, nil)
	case "fill-chunked":
		return c14Fill(s, c14Key(false), false, bodyNew, false, 5, nil)
	case "reval-body":
		return c14Fill(s, c14Key(false), true, bodyNew, true, 5, nil)
	case "reval-304":
		w := s.GetWriter(c14Key(false), true, nil)
		if w == nil {
			return fmt.Errorf("GetWriter refused")
		}
		cw, ok := w.(interface{ SetRevalidated(http.Header) })
		if !ok {
			return fmt.Errorf("writer cannot be revalidated")
		}
		cw.SetRevalidated(http.Header{"Cache-Control": []string{"max-age=120"}})
		return w.Close()
	case "changekey":
		k2 := c14Key(true)
		return c14Fill(s, c14Key(false), false, bodyNew, true, 5, &k2)
	case "refill-after-evict":
		if err := os.Remove(filepath.Join(dir, c14Key(false).FsName())); err != nil {
			return err
		}
		return c14Fill(s, c14Key(false), false, bodyNew, true, 5, nil)
	}
	return fmt.Errorf("unknown operation %q", op)
}

func crashPaths(dir, op string) map[string]string {
	e := filepath.Join(dir, c14Key(false).FsName())
	n := filepath.Join(dir, c14Key(true).FsName())
	m := map[string]string{e: "entry", e + ".tmp": "tmp", n: "new", n + ".tmp": "newtmp"}
	if op == "atimes-rewrite" {
		// elsewhere the storage's own goroutine opens the log at an arbitrary moment
		m[filepath.Join(dir, "atimes")] = "atimes"
		m[filepath.Join(dir, "atimes-truncated")] = "trunc"
	}
	return m
}

var straceLine = regexp.MustCompile(`^\d+\s+(\w+)\((.*)$`)

// normalised calls: kind which arg
func parseStrace(path, dir, op string) ([][4]string, error) {
	f, err := os.Open(path)
	if err != nil {
		return nil, err
	}
	defer f.Close()
	names := crashPaths(dir, op)
	which := func(s string) string {
		for p, w := range names {
			if strings.Contains(s, `"`+p+`"`) || strings.Contains(s, "<"+p+">") {
				return w
			}
		}
		return "?"
	}
	var out [][4]string
	sc := bufio.NewScanner(f)
	sc.Buffer(make([]byte, 1<<20), 1<<24)
	for sc.Scan() {
		m := straceLine.FindStringSubmatch(sc.Text())
		if m == nil {
			continue
		}
		call, args := m[1], m[2]
		switch call {
		case "openat":
			kind := "open"
			if strings.Contains(args, "O_CREAT") {
				kind = "create"
			}
			out = append(out, [4]string{kind, which(args), "", call})
		case "write":
			ln := "0"
			if i := strings.LastIndex(args, ", "); i >= 0 {
				ln = strings.TrimRight(strings.Fields(args[i+2:])[0], ")")
			}
			out = append(out, [4]string{"write", which(args), ln, call})
		case "fsetxattr", "setxattr", "lsetxattr":
			out = append(out, [4]string{"setx", which(args), "", call})
		case "renameat", "renameat2", "rename":
			parts := strings.SplitN(args, ", AT_FDCWD", 2)
			a, b := which(parts[0]), "?"
			if len(parts) == 2 {
				b = which(parts[1])
			} else if q := strings.SplitN(args, `", "`, 2); len(q) == 2 {
				a, b = which(q[0]+`"`), which(`"`+q[1])
			}
			out = append(out, [4]string{"rename", a + ">" + b, "", call})
		case "unlinkat", "unlink":
			out = append(out, [4]string{"remove", which(args), "", call})
		}
	}
	return out, nil
}

const straceSet = "openat,write,fsetxattr,setxattr,lsetxattr,renameat,renameat2,rename,unlinkat,unlink"

func straceArgs(dir, op, out string) []string {
	a := []string{"-f", "-y", "-o", out, "-e", "trace=" + straceSet}
	for p := range crashPaths(dir, op) {
		a = append(a, "-P", p)
	}
	return a
}

// the entry's access time in the prepared log, and the one the atimes-rewrite operation flushes
const atOld, atNew = int64(1700000100), int64(1700000200)

type crashCase struct {
	Op    string
	Call  string // the syscall the kill is injected on ("" = run to completion)
	N     int
	calls [][4]string // the untraced-kill run of the same operation
	index int         // position of the killed call in calls
}

func (c *crashCase) Sx() sx.V {
	cs := []sx.V{}
	for _, e := range c.calls {
		if e[0] == "open" {
			continue // opening for reading changes nothing: not an effect
		}
		arg := e[2]
		if e[1] == "atimes" || e[1] == "trunc" {
			arg = "" // line lengths of the access log are not modelled
		}
		cs = append(cs, sx.L(sx.S(e[0]), sx.S(e[1]), sx.S(arg)))
	}
	return sx.L(sx.S("crash"), sx.S(c.Op), sx.S(c.Call), sx.I(int64(c.N)), sx.L(cs...), sx.I(int64(c.index)),
		sx.L(sx.S(bodyOld), sx.S(bodyNew)), sx.L(sx.I(atOld), sx.I(atNew)))
}

func crashCaseFromSx(v sx.V) *crashCase {
	return &crashCase{Op: v.N(1).Str(), Call: v.N(2).Str(), N: int(v.N(3).Int())}
}

func crashTrace(op string) ([][4]string, error) {
	dir, err := ioutil.TempDir(tmpRoot(), "hxcrash")
	if err != nil {
		return nil, err
	}
	if err := crashPrepare(dir, op); err != nil {
		return nil, err
	}
	out := filepath.Join(dir, "strace.out")
	cmd := exec.Command("strace", append(straceArgs(dir, op, out), os.Args[0], "crashop", dir, op)...)
	cmd.Env = append(os.Environ(), "GOMAXPROCS=1", "ATIME_DISABLE=true", "ATIME_LOG_SIZE_BYTES=200")
	if b, err := cmd.CombinedOutput(); err != nil {
		return nil, fmt.Errorf("traced run of %s failed: %v %s", op, err, b)
	}
	if os.Getenv("HX_DEBUG") != "" {
		if b, err := ioutil.ReadFile(out); err == nil {
			fmt.Fprintf(os.Stderr, "reference run of %s:\n%s\n", op, b)
		}
	}
	return parseStrace(out, dir, op)
}

func probeKey(s caching.Storage, k caching.Key) sx.V {
	f, sm, _, err := s.Get(context.Background(), []caching.Key{k})
	if err != nil || f == nil {
		return sx.L(sx.S("miss"))
	}
	defer f.Close()
	b, _ := ioutil.ReadAll(f)
	return sx.L(sx.S("hit"), sx.I(int64(sm.Status)), sx.S(string(b)), sx.I(sm.Size), sx.S(sm.ResponseHeader.Get("Etag")))
}

func (c *crashCase) Run() (sx.V, error) {
	calls, err := crashTrace(c.Op)
	if err != nil {
		return sx.L(), err
	}
	c.calls = calls
	dir, err := ioutil.TempDir(tmpRoot(), "hxcrash")
	if err != nil {
		return sx.L(), err
	}
	if err := crashPrepare(dir, c.Op); err != nil {
		return sx.L(), err
	}
	out := filepath.Join(dir, "strace.out")
	args := straceArgs(dir, c.Op, out)
	c.index = 0
	for _, e := range calls {
		if e[0] != "open" {
			c.index++
		}
	}
	if c.Call != "" {
		args = append(args, "-e", fmt.Sprintf("inject=%s:signal=SIGKILL:when=%d", c.Call, c.N))
		seen, effects := 0, 0
		for _, e := range calls {
			if e[3] == c.Call {
				seen++
				if seen == c.N {
					c.index = effects // the effects applied before the killed call
					break
				}
			}
			if e[0] != "open" {
				effects++
			}
		}
	}
	cmd := exec.Command("strace", append(args, os.Args[0], "crashop", dir, c.Op)...)
	cmd.Env = append(os.Environ(), "GOMAXPROCS=1", "ATIME_DISABLE=true", "ATIME_LOG_SIZE_BYTES=200")
	cmd.Run() // exits by the injected SIGKILL
	if os.Getenv("HX_DEBUG") != "" {
		fmt.Fprintf(os.Stderr, "crash %s %s#%d: reference calls %v index %d\n", c.Op, c.Call, c.N, calls, c.index)
		if b, err := ioutil.ReadFile(out); err == nil {
			fmt.Fprintf(os.Stderr, "killed run:\n%s\n", b)
		}
	}
	os.Remove(out)
	// what a restarted rrrouter finds
	lastUse := int64(-1) // (atimes-rewrite) the entry's last use as a restarted limiter reads it from the log; 0: none
	started := func() (ok bool) {
		defer func() {
			if r := recover(); r != nil {
				ok = false
			}
		}()
		l := caching.VerifNewLimiter(dir, 1<<40, 1700000300)
		l.Startup()
		if c.Op == "atimes-rewrite" {
			lastUse = 0
			if v, found := l.WithAccessTime()[c14Key(false).FsName()]; found {
				lastUse = v[0]
			}
		}
		return true
	}()
	if !started {
		return sx.L(sx.L(sx.S("startup-panic")), sx.L(sx.S("startup-panic")), sx.L(sx.S("startup-panic")), sx.L(sx.S("startup-panic")), sx.I(-2)), nil
	}
	s := caching.NewDiskStorage("c14", dir, 1<<40, discardLogger, time.Now)
	defer s.SetIsReplaced()
	p1 := probeKey(s, c14Key(false))
	p2 := probeKey(s, c14Key(true))
	// every resource can be fetched and cached again
	heal := func(k caching.Key, p sx.V) sx.V {
		if p.N(0).Str() == "hit" {
			// ... and an entry that survived can be refreshed with a new body (over whatever the killed operation left
			// next to it, a .tmp file for one)
			if err := c14Fill(s, k, true, "refreshed", true, 64, nil); err != nil {
				return sx.L(sx.S("refresh-failed"), sx.S(err.Error()))
			}
			return sx.L(sx.S("served"), probeKey(s, k))
		}
		if err := c14Fill(s, k, false, "refetched", true, 64, nil); err != nil {
			return sx.L(sx.S("refill-failed"), sx.S(err.Error()))
		}
		return sx.L(sx.S("refilled"), probeKey(s, k))
	}
	return sx.L(p1, p2, heal(c14Key(false), p1), heal(c14Key(true), p2), sx.I(lastUse)), nil
}

func genCrash(tier string, rng *Rng) []Case {
	var out []Case
	for _, op := range crashOps {
		calls, err := crashTrace(op)
		if err != nil {
			fmt.Fprintf(os.Stderr, "hx: %v\n", err)
			os.Exit(2)
		}
		out = append(out, &crashCase{Op: op}) // to completion
		count := map[string]int{}
		for _, e := range calls {
			call := e[3]
			count[call]++
			out = append(out, &crashCase{Op: op, Call: call, N: count[call]})
		}
	}
	return out
}
