package main

import (
	"fmt"
	"strings"
)

func okResp(body string) Behaviour {
	return Behaviour{Status: 200, Hdrs: []KV{{"Content-Type", "text/plain"}}, Body: body}
}

func scriptFor(rules []Rule) []HostScript {
	var out []HostScript
	seen := map[string]bool{}
	var add func(r Rule)
	add = func(r Rule) {
		h := hostOfDest(r.Dest)
		if !seen[h] {
			seen[h] = true
			out = append(out, HostScript{h, []Behaviour{okResp("from " + h)}})
		}
		if r.Retry != nil {
			add(*r.Retry)
		}
	}
	for _, r := range rules {
		add(r)
	}
	return out
}

func hostOfDest(d string) string {
	i := strings.Index(d, "://")
	if i < 0 {
		return ""
	}
	rest := d[i+3:]
	if j := strings.IndexAny(rest, "/?#"); j >= 0 {
		rest = rest[:j]
	}
	if j := strings.LastIndex(rest, "@"); j >= 0 {
		rest = rest[j+1:]
	}
	return rest
}

// ---------- C01 ----------

var c01Paths = []string{"/a", "/a/", "/a/b", "/ab", "/", "/a*", "/a/*", "/*", "*", "/a/b*", "/A/*", "/a/b/*", "/ab*"}
var c01Hosts = []string{"", "", "h1", "h2", "::1"}
var c01Schemes = []string{"", "", "http", "https"}
var c01Methods = [][]string{nil, nil, {"GET"}, {"POST", "PUT"}, {"HEAD"}, {"GET", "DELETE"}}
var c01ReqHosts = []string{"h1", "h2", "h1:80", "h1:8080", "[::1]:80", "[::1]", "H1", "h1.", "h3", "h1", "h2", "h1:80",
	"[abc", "[", "[::1", "a:b:c", "h1:", "%zz", "h1:x", "]", "[]", "[h1]:80", "::1", "h1%41"}
var c01XFP = []string{"", "", "https", "HTTPS", "http", "https, http"}
var c01Targets = []string{"/a", "/a/", "/a/b", "/ab", "/", "/a?x=1", "/a/b?x=1&y=2", "/a/b/c", "/A/b", "/a%2Fb", "/a/?", "/abc", "/a/b/", "/?", "/b"}
var c01ReqMethods = []string{"GET", "GET", "POST", "PUT", "HEAD", "DELETE", "get", "OPTIONS"}

func genRuleC01(rng *Rng, i int) Rule {
	r := Rule{Enabled: !rng.Chance(15, 100), Scheme: rng.Pick(c01Schemes), Host: rng.Pick(c01Hosts), Path: rng.Pick(c01Paths),
		Methods: c01Methods[rng.Intn(len(c01Methods))], Type: 1}
	if rng.Chance(25, 100) {
		r.Type = 2
	}
	if rng.Chance(70, 100) {
		r.Dest = fmt.Sprintf("http://d%d.test/p%d/$1", i, i)
	} else {
		r.Dest = fmt.Sprintf("http://d%d.test/fixed%d", i, i)
	}
	return r
}

func genReqC01(rng *Rng) Req {
	q := Req{Method: rng.Pick(c01ReqMethods), Host: rng.Pick(c01ReqHosts), Target: rng.Pick(c01Targets)}
	if x := rng.Pick(c01XFP); x != "" {
		q.Hdrs = append(q.Hdrs, KV{"X-Forwarded-Proto", x})
	}
	if q.Method == "POST" || q.Method == "PUT" {
		q.Body = "b"
	}
	return q
}

func genC01(tier string, rng *Rng) []Case {
	var out []Case
	n := 4000
	if tier == "thorough" {
		n = 40000
	}
	// pinned don't-care cells and corner cases first
	pins := []struct {
		path, target string
	}{{"/a/*", "/a/"}, {"/a", "/a?x=1"}, {"/*", "/"}, {"*", "/"}, {"/a*", "/a"}, {"/a/*", "/a"}, {"*", "/x"}}
	for _, p := range pins {
		rs := []Rule{{Enabled: true, Path: p.path, Dest: "http://d0.test/p0/$1", Type: 1}, {Enabled: true, Path: "/*", Dest: "http://d1.test/p1/$1", Type: 1}}
		out = append(out, routeCase{RouteCase{Retries: 0, Rules: rs, Req: Req{Method: "GET", Host: "h1", Target: p.target}, Script: scriptFor(rs)}})
	}
	// small scope: every ordered pair of rules over a reduced vocabulary x a few requests
	small := []Rule{}
	for _, p := range []string{"/a", "/a/*", "/*", "/a*"} {
		for _, h := range []string{"", "h1"} {
			for _, en := range []bool{true, false} {
				for _, ty := range []int{1, 2} {
					small = append(small, Rule{Enabled: en, Host: h, Path: p, Type: ty})
				}
			}
		}
	}
	stride := 1
	if tier != "thorough" {
		stride = 7
	}
	k := 0
	for i, a := range small {
		for j, b := range small {
			for _, tg := range []string{"/a", "/a/b", "/b"} {
				for _, hh := range []string{"h1", "h2:81"} {
					k++
					if k%stride != 0 {
						continue
					}
					a.Dest, b.Dest = "http://d0.test/p0/$1", "http://d1.test/p1/$1"
					rs := []Rule{a, b}
					_ = i
					_ = j
					out = append(out, routeCase{RouteCase{Retries: 0, Rules: rs, Req: Req{Method: "GET", Host: hh, Target: tg}, Script: scriptFor(rs)}})
				}
			}
		}
	}
	for len(out) < n {
		nr := 1 + rng.Intn(6)
		rs := make([]Rule, nr)
		for i := range rs {
			rs[i] = genRuleC01(rng, i)
		}
		out = append(out, routeCase{RouteCase{Retries: 0, Rules: rs, Req: genReqC01(rng), Script: scriptFor(rs)}})
	}
	return out
}

// ---------- C02 ----------

var c02Dests = []string{"http://d0.test/$1", "http://d0.test:8080/base/$1", "https://d0.test/x/$1/y", "http://d0.test/fixed",
	"http://d0.test/$1?k=v", "http://d0.test/a/$1/$1", "http://d0.test/$1#frag", "http://user@d0.test/$1", "http://d0.test/q?fixed=1", "http://d0.test/"}
var c02Segs = []string{"a", "b", "%2F", "%2f", "@evil.test", "a:b", ";p=1", "%3F", "%23", "{x}", "a|b", "\"q\"", "~", "a+b", "x%20y", "$1", "&", "=", "evil.test:80", "%40", "*", "a^b", "`"}
var c02Queries = []string{"", "", "x=1", "a=b&c=d", "q=%2F%3F", "=&=&", "?", "a=1?b=2", "x=/../", "q=a+b", "a=%zz", "$1", "q={\"k\":[1]}", "redirect=http://evil.test/", "a=b;c=d", "%"}

func genTargetC02(rng *Rng, prefix string) string {
	t := prefix
	n := rng.Intn(4)
	for i := 0; i < n; i++ {
		if i > 0 || !strings.HasSuffix(t, "/") {
			t += "/"
		}
		t += rng.Pick(c02Segs)
	}
	if rng.Chance(20, 100) && !strings.HasSuffix(t, "/") {
		t += "/"
	}
	if q := rng.Pick(c02Queries); q != "" || rng.Chance(5, 100) {
		t += "?" + q
	}
	return t
}

// storm: many requests at once on one server, each with its own path, query, header marker and body;
// every request must be treated exactly as if it had come alone (the properties speak of "every request").
func genStorm(tier string, rng *Rng, prop string) []Case {
	var out []Case
	n := 30
	if tier == "thorough" {
		n = 400
	}
	for i := 0; i < n; i++ {
		rs := []Rule{
			{Enabled: true, Path: "/fixed/*", Dest: "http://d0.test/landing", Type: 1},
			{Enabled: true, Path: "/q/*", Dest: "http://d1.test/base/$1", Type: 1},
			{Enabled: true, Path: "/exact", Dest: "http://d2.test/exact?own=1", Type: 1},
			{Enabled: true, Path: "/*", Dest: "http://d3.test/$1", Type: 1},
		}
		if rng.Chance(50, 100) {
			rs = append([]Rule{{Enabled: true, Path: "/fixed/*", Dest: "http://c0.test/copy", Type: 2}}, rs...)
		}
		if rng.Chance(30, 100) {
			v := "set-by-rule"
			rs[len(rs)-1].ReqHdrs = []KVOpt{{"x-custom", &v}}
		}
		ops := []Op{{Kind: "script", Script: scriptFor(rs)}}
		k := 16 + rng.Intn(17)
		par := Op{Kind: "par", N: k}
		if i%2 == 1 {
			par.Dt = 1 // destinations that answer before reading the request body
		}
		ops = append(ops, par)
		for j := 0; j < k; j++ {
			tg := rng.Pick([]string{"/fixed/a", "/fixed/b", "/q/x", "/q/y/z", "/exact", "/other"})
			if rng.Chance(85, 100) {
				tg += fmt.Sprintf("?user=u%d&token=T%d", j, rng.Intn(1000))
			}
			q := Req{Method: rng.Pick([]string{"GET", "GET", "POST", "PUT", "DELETE"}), Host: rng.Pick([]string{"h1", "h1:8080"}), Target: tg,
				Hdrs: []KV{{parHeader, fmt.Sprintf("r%d", j)}, {"X-Custom", fmt.Sprintf("c%d", j)}, {"Cookie", fmt.Sprintf("sid=%d", j)}}}
			if q.Method == "POST" || q.Method == "PUT" {
				q.Body = fmt.Sprintf("body-of-%d-", j) + bigBody(rng.Intn(3000))
				if rng.Chance(40, 100) {
					q.Hdrs = append(q.Hdrs, KV{chunkedHeader, "1"})
				}
			}
			ops = append(ops, Op{Kind: "req", Req: q})
		}
		out = append(out, cacheCase{CacheCase{Retries: 0, Rules: rs, Caches: nil, Base: cacheBase, Ops: ops}})
	}
	return out
}

func genC02(tier string, rng *Rng) []Case {
	var out []Case
	n := 4000
	if tier == "thorough" {
		n = 40000
	}
	skipped := 0
	for len(out) < n {
		pat := rng.Pick([]string{"/p/*", "/p*", "/*", "/p/q/*"})
		prefix := strings.TrimSuffix(pat, "*")
		rs := []Rule{{Enabled: true, Path: pat, Dest: rng.Pick(c02Dests), Type: 1}}
		if rng.Chance(30, 100) {
			rs = append([]Rule{{Enabled: true, Path: pat, Dest: strings.Replace(rng.Pick(c02Dests), "d0.test", "c0.test", 1), Type: 2}}, rs...)
		}
		if rng.Chance(15, 100) {
			rs = append(rs, Rule{Enabled: true, Path: "/*", Dest: "http://d9.test/other/$1", Type: 1})
		}
		tg := genTargetC02(rng, prefix)
		if _, _, _, ok := normalise(tg); !ok || muxWouldRedirect(tg) {
			skipped++
			continue
		}
		q := Req{Method: rng.Pick([]string{"GET", "POST"}), Host: rng.Pick([]string{"h1", "h1:8080"}), Target: tg}
		if q.Method == "POST" {
			q.Body = "b"
		}
		if rng.Chance(20, 100) {
			q.Hdrs = append(q.Hdrs, KV{"X-Forwarded-Host", "evil.test"}, KV{"Forwarded", "host=evil.test"})
		}
		out = append(out, routeCase{RouteCase{Retries: 0, Rules: rs, Req: q, Script: scriptFor(rs)}})
	}
	return out
}

// ---------- C03 ----------

func bigBody(n int) string {
	b := make([]byte, n)
	for i := range b {
		b[i] = byte('a' + i%23)
	}
	return string(b)
}

func binBody() string {
	b := make([]byte, 512)
	for i := range b {
		b[i] = byte(i)
	}
	return string(b)
}

var c03HdrPool = []KV{{"Accept", "*/*"}, {"X-Custom", "v1"}, {"x-custom", "v2"}, {"Cookie", "a=1"}, {"Cookie", "b=2"}, {"Connection", "keep-alive"},
	{"Keep-Alive", "timeout=5"}, {"Proxy-Authorization", "Basic Zm9v"}, {"Proxy-Authenticate", "x"}, {"Te", "trailers"}, {"Trailers", "X-T"}, {"Upgrade", "h2c"},
	{"Authorization", "Bearer t"}, {"X-Forwarded-For", "1.2.3.4"}, {"ACCEPT-language", "fi"}, {"X-Empty", ""}, {"If-None-Match", "\"e\""}, {"Range", "bytes=0-1"},
	{"User-Agent", "hx"}, {"X-Dup", "1"}, {"X-Dup", "2"}, {"X-Dup", "1"}, {"Trailer", "X-T"}, {"Accept-Encoding", "gzip"}, {"Content-Type", "application/octet-stream"}}

func genC03(tier string, rng *Rng) []Case {
	var out []Case
	n := 2500
	if tier == "thorough" {
		n = 25000
	}
	bodies := []string{"", "x", "hello world", binBody(), bigBody(100 * 1024)}
	hostModes := []string{"", "original", "destination", "override.test"}
	for len(out) < n {
		m := rng.Pick([]string{"GET", "POST", "PUT", "DELETE", "POST", "PUT", "OPTIONS"})
		body := bodies[rng.Intn(len(bodies))]
		if rng.Chance(80, 100) && len(body) > 1000 {
			body = bodies[rng.Intn(3)]
		}
		var hdrs []KV
		for _, kv := range c03HdrPool {
			if rng.Chance(25, 100) {
				hdrs = append(hdrs, kv)
			}
		}
		if len(body) > 0 && rng.Chance(30, 100) {
			// the body is sent with Transfer-Encoding: chunked. Go's server reads a Trailer field of a chunked
			// request as the declaration of its trailers and takes it out of the header map: not sent here
			var kept []KV
			for _, kv := range hdrs {
				if !strings.EqualFold(kv.K, "Trailer") {
					kept = append(kept, kv)
				}
			}
			hdrs = append(kept, KV{chunkedHeader, "1"})
		}
		main := Rule{Enabled: true, Path: "/*", Dest: "http://main.test/m/$1", Type: 1, HostHeader: rng.Pick(hostModes)}
		if rng.Chance(35, 100) {
			v := "set-by-rule"
			main.ReqHdrs = append(main.ReqHdrs, KVOpt{"x-custom", &v})
		}
		if rng.Chance(25, 100) {
			main.ReqHdrs = append(main.ReqHdrs, KVOpt{"cookie", nil})
		}
		if rng.Chance(20, 100) {
			v := "added"
			main.ReqHdrs = append(main.ReqHdrs, KVOpt{" X-Added ", &v})
		}
		retries := rng.Intn(3)
		var script []HostScript
		mainBs := []Behaviour{}
		switch rng.Intn(4) {
		case 0:
			for k := rng.Intn(retries + 2); k > 0; k-- {
				mainBs = append(mainBs, Behaviour{Err: true})
			}
		case 1:
			mainBs = append(mainBs, Behaviour{Status: 400 + rng.Intn(100), Hdrs: []KV{{"Content-Type", "text/plain"}}, Body: "nope"})
		}
		mainBs = append(mainBs, okResp("from main"))
		if rng.Chance(40, 100) {
			rr := Rule{Enabled: true, Path: rng.Pick([]string{"/*", "/*", "/zzz/*"}), Dest: "http://retry.test/r/$1", Type: 1, HostHeader: rng.Pick(hostModes)}
			main.Retry = &rr
			script = append(script, HostScript{"retry.test", []Behaviour{okResp("from retry")}})
		}
		rs := []Rule{main}
		if rng.Chance(40, 100) {
			cp := Rule{Enabled: true, Path: "/*", Dest: "http://copy.test/c/$1", Type: 2, HostHeader: rng.Pick(hostModes)}
			rs = []Rule{cp, main}
			cbs := []Behaviour{}
			for k := rng.Intn(3); k > 0; k-- {
				cbs = append(cbs, Behaviour{Err: true})
			}
			cbs = append(cbs, okResp("from copy"))
			script = append(script, HostScript{"copy.test", cbs})
		}
		script = append(script, HostScript{"main.test", mainBs})
		out = append(out, routeCase{RouteCase{Retries: retries, Rules: rs, Req: Req{Method: m, Host: "client.test", Target: "/x?y=1", Hdrs: hdrs, Body: body}, Script: script}})
	}
	return out
}

// ---------- C20 ----------

func copyVariants(rng *Rng, hosts []string, retries int) [][]HostScript {
	mk := func(f func(h string) []Behaviour) []HostScript {
		var out []HostScript
		for _, h := range hosts {
			out = append(out, HostScript{h, f(h)})
		}
		return out
	}
	huge := bigBody(256 << 10)
	vs := [][]HostScript{
		mk(func(h string) []Behaviour { return []Behaviour{okResp("copy ok")} }),
		mk(func(h string) []Behaviour { return []Behaviour{{Err: true}} }),
		mk(func(h string) []Behaviour {
			return []Behaviour{{Status: 500 + rng.Intn(5), Hdrs: []KV{{"Content-Type", "text/html"}, {"X-Copy", "1"}}, Body: "copy failed"}}
		}),
		mk(func(h string) []Behaviour {
			bs := []Behaviour{}
			for k := 0; k <= rng.Intn(retries+2); k++ {
				bs = append(bs, Behaviour{Err: true})
			}
			return append(bs, okResp("late"))
		}),
		mk(func(h string) []Behaviour {
			return []Behaviour{{Status: 302, Hdrs: []KV{{"Location", "http://elsewhere.test/"}}, Body: ""}}
		}),
	}
	if rng.Chance(2, 100) {
		vs = append(vs, mk(func(h string) []Behaviour { return []Behaviour{{Status: 200, Hdrs: []KV{{"Content-Type", "application/octet-stream"}}, Body: huge}} }))
	}
	return vs
}

func genC20(tier string, rng *Rng) []Case {
	var out []Case
	n := 900
	if tier == "thorough" {
		n = 9000
	}
	for len(out) < n {
		nr := 2 + rng.Intn(5)
		rs := make([]Rule, nr)
		var copyHosts []string
		for i := range rs {
			rs[i] = genRuleC01(rng, i)
			if rng.Chance(50, 100) {
				rs[i].Type = 2
			}
			if rs[i].Type == 2 {
				rs[i].Dest = "http://c" + rs[i].Dest[len("http://d"):]
				rs[i].HostHeader = rng.Pick([]string{"", "original", "x.test"})
				rs[i].Internal = rng.Chance(20, 100)
				copyHosts = append(copyHosts, hostOfDest(rs[i].Dest))
			}
		}
		if rng.Chance(60, 100) { // make a hit likely
			last := Rule{Enabled: true, Path: "/*", Dest: "http://dlast.test/l/$1", Type: 1}
			if rng.Chance(40, 100) {
				// a fallback for the proxied request: what the copy destination does must not decide whether it is used
				last.Retry = &Rule{Enabled: true, Path: "/*", Dest: "http://dretry.test/r/$1", Type: 1}
			}
			rs = append(rs, last)
		}
		q := genReqC01(rng)
		if rng.Chance(70, 100) {
			q.Host = rng.Pick([]string{"h1", "h2", "h1:80"})
		}
		if rng.Chance(30, 100) {
			q.Hdrs = append(q.Hdrs, KV{"X-Custom", "v"}, KV{"Cookie", "a=1"}, KV{"Cookie", "b=2"})
		}
		if rng.Chance(10, 100) {
			q.Hdrs = append(q.Hdrs, KV{"Richie-Request-ID", "cid"})
		}
		if len(q.Body) > 0 && rng.Chance(50, 100) {
			if rng.Chance(50, 100) {
				q.Body = bigBody(3000)
			}
			q.Hdrs = append(q.Hdrs, KV{chunkedHeader, "1"}) // unknown length: Transfer-Encoding: chunked
		}
		var secrets *[]string
		if rng.Chance(40, 100) {
			secrets = &[]string{"s1"}
		}
		retries := rng.Intn(3)
		var script []HostScript
		for _, hs := range scriptFor(rs) {
			if hs.Host[0] == 'd' {
				if rng.Chance(15, 100) {
					hs.Bs = []Behaviour{{Err: true}, okResp("second try from " + hs.Host)}
				} else if rng.Chance(10, 100) {
					hs.Bs = []Behaviour{{Status: 503, Hdrs: []KV{{"Content-Type", "text/plain"}}, Body: "down"}}
				}
				script = append(script, hs)
			}
		}
		out = append(out, copyCase{CopyCase{Base: RouteCase{Secrets: secrets, Retries: retries, Rules: rs, Req: q, Script: script},
			Variants: copyVariants(rng, copyHosts, retries)}})
	}
	// the same URL requested with different methods, one after the other on one server, with copy rules that apply
	// to some methods only: which requests are copied must not depend on what was requested before
	for k := 0; k < n/10; k++ {
		rs := []Rule{
			{Enabled: true, Path: "/t/*", Dest: "http://c0.test/shadow/$1", Type: 2, Methods: [][]string{{"POST", "PUT"}, {"GET"}, {"POST"}}[rng.Intn(3)]},
			{Enabled: true, Path: "/t/*", Dest: "http://d0.test/real/$1", Type: 1},
		}
		ops := []Op{{Kind: "script", Script: scriptFor(rs)}}
		for m := 3 + rng.Intn(4); m > 0; m-- {
			q := Req{Method: rng.Pick([]string{"GET", "POST", "PUT", "GET"}), Host: "h1", Target: rng.Pick([]string{"/t/item", "/t/item", "/t/other"})}
			if q.Method != "GET" {
				q.Body = "k=v"
			}
			ops = append(ops, Op{Kind: "req", Req: q})
		}
		out = append(out, cacheCase{CacheCase{Retries: 0, Rules: rs, Caches: nil, Base: cacheBase, Ops: ops}})
	}
	return out
}


// sequences of requests against ONE server (routing must not depend on what came before)
func genC01Seq(tier string, rng *Rng) []Case {
	var out []Case
	n := 150
	if tier == "thorough" {
		n = 3000
	}
	for i := 0; i < n; i++ {
		nr := 2 + rng.Intn(4)
		rs := make([]Rule, nr)
		for j := range rs {
			rs[j] = genRuleC01(rng, j)
			rs[j].Type = 1
			if rng.Chance(60, 100) {
				rs[j].Methods = c01Methods[2+rng.Intn(len(c01Methods)-2)]
			}
		}
		var ops []Op
		ops = append(ops, Op{Kind: "script", Script: scriptFor(rs)})
		target := rng.Pick(c01Targets)
		host := rng.Pick([]string{"h1", "h2", "h1:80"})
		for k := 2 + rng.Intn(4); k > 0; k-- {
			q := Req{Method: rng.Pick(c01ReqMethods), Host: host, Target: target}
			if rng.Chance(25, 100) {
				q.Host = rng.Pick([]string{"h1", "h2", "h1:80"})
			}
			if rng.Chance(20, 100) {
				q.Target = rng.Pick(c01Targets)
			}
			if rng.Chance(30, 100) {
				q.Hdrs = append(q.Hdrs, KV{"X-Forwarded-Proto", rng.Pick([]string{"https", "http"})})
			}
			if q.Method == "POST" || q.Method == "PUT" {
				q.Body = "b"
			}
			ops = append(ops, Op{Kind: "req", Req: q})
		}
		out = append(out, cacheCase{CacheCase{Retries: 0, Rules: rs, Caches: nil, Base: cacheBase, Ops: ops}})
	}
	// requests on one server that differ only in what the match looks at beyond the path: the same path with and
	// without a query (an exact rule matches only the bare path), with another method, host, scheme - in any order
	for i := 0; i < n/3; i++ {
		p := rng.Pick([]string{"/report", "/a", "/a/b"})
		rs := []Rule{
			{Enabled: true, Path: p, Dest: "http://d0.test/exact-handler", Type: 1, Methods: c01Methods[rng.Intn(3)]},
			{Enabled: true, Path: "/*", Dest: "http://d1.test/fallback/$1", Type: 1},
		}
		if rng.Chance(40, 100) {
			rs = append([]Rule{{Enabled: true, Path: p, Host: "h2", Dest: "http://d2.test/for-h2", Type: 1}}, rs...)
		}
		if rng.Chance(30, 100) {
			rs = rs[:len(rs)-1] // no fallback: what does not match is a 404
		}
		ops := []Op{{Kind: "script", Script: scriptFor(rs)}}
		for k := 3 + rng.Intn(4); k > 0; k-- {
			q := Req{Method: rng.Pick([]string{"GET", "GET", "POST"}), Host: rng.Pick([]string{"h1", "h1", "h2"}), Target: p}
			if rng.Chance(50, 100) {
				q.Target += rng.Pick([]string{"?week=12", "?", "?x=1&y=2"})
			}
			if rng.Chance(20, 100) {
				q.Hdrs = append(q.Hdrs, KV{"X-Forwarded-Proto", "https"})
			}
			if q.Method == "POST" {
				q.Body = "b"
			}
			ops = append(ops, Op{Kind: "req", Req: q})
		}
		out = append(out, cacheCase{CacheCase{Retries: 0, Rules: rs, Caches: nil, Base: cacheBase, Ops: ops}})
	}
	return out
}
