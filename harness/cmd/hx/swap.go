package main

// The "swap" family (C19): requests through the real server while SetRules flips between two
// rule sets as fast as it can. Version a sends its request-header override and routes to a.test,
// version b likewise: a request whose origin sees the other version's override was handled under
// two versions of the rules.

import (
	"errors"
	"io/ioutil"
	"net/http"
	"net/http/httptest"
	"strings"
	"sync"
	"sync/atomic"

	"github.com/richiefi/rrrouter/config"
	"github.com/richiefi/rrrouter/proxy"
	"github.com/richiefi/rrrouter/server"

	"verif/harness/sx"
)

type swapCase struct{ N int }

func (c swapCase) Sx() sx.V { return sx.L(sx.S("swap"), sx.I(int64(c.N))) }

type echoPerf struct{}

func (echoPerf) Do(req *http.Request) (*http.Response, error) {
	if req.URL.Host == "" {
		return nil, errors.New("no host")
	}
	body := req.URL.Host + "|" + req.Header.Get("X-Req")
	return &http.Response{StatusCode: 200, Status: "200 OK", Proto: "HTTP/1.1", ProtoMajor: 1, ProtoMinor: 1,
		Header: http.Header{"Content-Type": []string{"text/plain"}}, Body: ioutil.NopCloser(strings.NewReader(body)), ContentLength: -1, Request: req}, nil
}
func (echoPerf) CloseIdleConnections() {}

func (c swapCase) Run() (sx.V, error) {
	mk := func(v string) (*proxy.Rules, error) {
		return proxy.ParseRules([]byte(`{"rules":[{"path":"/x","destination":"http://`+v+`.test/","request_headers":{"X-Req":"`+v+`"}}]}`), discardLogger)
	}
	A, err := mk("a")
	if err != nil {
		return sx.L(), err
	}
	B, err := mk("b")
	if err != nil {
		return sx.L(), err
	}
	conf := &config.Config{RetryTimes: []int{}}
	router := proxy.NewRouterWithPerformer(A, discardLogger, conf, echoPerf{})
	mux := http.NewServeMux()
	server.ConfigureServeMux(mux, conf, router, discardLogger, nil)
	ts := httptest.NewServer(mux)
	defer ts.Close()
	var stop int32
	done := make(chan struct{})
	go func() {
		for atomic.LoadInt32(&stop) == 0 {
			router.SetRules(B)
			router.SetRules(A)
		}
		close(done)
	}()
	var mixed, total int64
	var wg sync.WaitGroup
	for w := 0; w < 8; w++ {
		wg.Add(1)
		go func() {
			defer wg.Done()
			cl := &http.Client{}
			for i := 0; i < c.N; i++ {
				resp, err := cl.Get(ts.URL + "/x")
				if err != nil {
					continue
				}
				b, _ := ioutil.ReadAll(resp.Body)
				resp.Body.Close()
				atomic.AddInt64(&total, 1)
				parts := strings.Split(string(b), "|")
				if resp.StatusCode != 200 || len(parts) != 2 || parts[0] != parts[1]+".test" {
					atomic.AddInt64(&mixed, 1)
				}
			}
		}()
	}
	wg.Wait()
	atomic.StoreInt32(&stop, 1)
	<-done
	return sx.L(sx.I(total), sx.I(mixed)), nil
}
