package main

// The "swap" family (C19): requests through the real server while SetRules flips between two
// rule sets as fast as it can. Version a sends its request-header override and routes to a.test,
// version b likewise: a request whose origin sees the other version's override was handled under
// two versions of the rules.

import (
	"errors"
	"io/ioutil"
	"net/http"
	"net/http/httptest"
	"strings"
	"sync"
	"sync/atomic"
	"time"

	"github.com/richiefi/rrrouter/caching"
	"github.com/richiefi/rrrouter/config"
	"github.com/richiefi/rrrouter/proxy"
	"github.com/richiefi/rrrouter/server"

	"verif/harness/sx"
)

type swapCase struct{ N int }

func (c swapCase) Sx() sx.V { return sx.L(sx.S("swap"), sx.I(int64(c.N))) }

type echoPerf struct{}

func (echoPerf) Do(req *http.Request) (*http.Response, error) {
	if req.URL.Host == "" {
		return nil, errors.New("no host")
	}
	body := req.URL.Host + "|" + req.Header.Get("X-Req")
	return &http.Response{StatusCode: 200, Status: "200 OK", Proto: "HTTP/1.1", ProtoMajor: 1, ProtoMinor: 1,
		Header: http.Header{"Content-Type": []string{"text/plain"}}, Body: ioutil.NopCloser(strings.NewReader(body)), ContentLength: -1, Request: req}, nil
}
func (echoPerf) CloseIdleConnections() {}

// hopPerf: o.test answers with a redirect to /next, and before it does the rules are replaced (a reload that
// lands between the two rule lookups of one client request); every other host echoes like echoPerf.
type hopPerf struct {
	before func()
}

func (p hopPerf) Do(req *http.Request) (*http.Response, error) {
	if req.URL.Host == "o.test" {
		p.before()
		return &http.Response{StatusCode: 302, Status: "302 Found", Proto: "HTTP/1.1", ProtoMajor: 1, ProtoMinor: 1,
			Header: http.Header{"Location": []string{"/next"}}, Body: ioutil.NopCloser(strings.NewReader("")), ContentLength: 0, Request: req}, nil
	}
	return echoPerf{}.Do(req)
}
func (hopPerf) CloseIdleConnections() {}

const swapPinnedRuns = 20

// pinnedRun: version 1 routes /old to o.test (restart_on_redirect) and /next to a.test; version 2 routes /next to
// b.test. The reload to version 2 happens while o.test is answering. The followed hop belongs to the same client
// request and must still be handled under version 1; the next request must see version 2.
func pinnedRun() (mixed int64, stale int64, err error) {
	for i := 0; i < swapPinnedRuns; i++ {
		// every other run the followed hop goes through a cache-enabled rule (and misses): the fill path has its own call
		// into the router
		cached := i%2 == 1
		doc := func(v string) []byte {
			c := ""
			if cached {
				c = `"cache":"c1",`
			}
			return []byte(`{"rules":[{"path":"/old","destination":"http://o.test/","restart_on_redirect":true,"request_headers":{"X-Req":"o"}},` +
				`{"path":"/next",` + c + `"destination":"http://` + v + `.test/","request_headers":{"X-Req":"` + v + `"}}]}`)
		}
		var cache caching.Cache
		if cached {
			dir, e := ioutil.TempDir(tmpRoot(), "hxswap")
			if e != nil {
				return 0, 0, e
			}
			cache = caching.NewCacheWithOptions([]caching.StorageConfiguration{{Size: 1 << 30, Path: dir, Id: "c1"}}, discardLogger, time.Now)
		}
		v1, e := proxy.ParseRules(doc("a"), discardLogger)
		if e != nil {
			return 0, 0, e
		}
		conf := &config.Config{RetryTimes: []int{}}
		var router proxy.Router
		perf := hopPerf{before: func() {
			v2, e := proxy.ParseRules(doc("b"), discardLogger)
			if e == nil {
				router.SetRules(v2)
			}
		}}
		router = proxy.NewRouterWithPerformer(v1, discardLogger, conf, perf)
		mux := http.NewServeMux()
		server.ConfigureServeMux(mux, conf, router, discardLogger, cache)
		ts := httptest.NewServer(mux)
		get := func(p string) string {
			resp, e := http.Get(ts.URL + p)
			if e != nil {
				return "error"
			}
			b, _ := ioutil.ReadAll(resp.Body)
			resp.Body.Close()
			return string(b)
		}
		if got := get("/old"); got != "a.test|a" {
			mixed++
		}
		if got := get("/next"); got != "b.test|b" {
			stale++
		}
		ts.Close()
	}
	return mixed, stale, nil
}

func (c swapCase) Run() (sx.V, error) {
	mk := func(v string) (*proxy.Rules, error) {
		return proxy.ParseRules([]byte(`{"rules":[{"path":"/x","destination":"http://`+v+`.test/","request_headers":{"X-Req":"`+v+`"}}]}`), discardLogger)
	}
	A, err := mk("a")
	if err != nil {
		return sx.L(), err
	}
	conf := &config.Config{RetryTimes: []int{}}
	router := proxy.NewRouterWithPerformer(A, discardLogger, conf, echoPerf{})
	mux := http.NewServeMux()
	server.ConfigureServeMux(mux, conf, router, discardLogger, nil)
	ts := httptest.NewServer(mux)
	defer ts.Close()
	var stop int32
	done := make(chan struct{})
	go func() {
		// every reload installs a freshly parsed rule set, as the real reloader does
		for atomic.LoadInt32(&stop) == 0 {
			if b, err := mk("b"); err == nil {
				router.SetRules(b)
			}
			if a, err := mk("a"); err == nil {
				router.SetRules(a)
			}
		}
		close(done)
	}()
	var mixed, total int64
	var wg sync.WaitGroup
	for w := 0; w < 8; w++ {
		wg.Add(1)
		go func() {
			defer wg.Done()
			cl := &http.Client{}
			for i := 0; i < c.N; i++ {
				resp, err := cl.Get(ts.URL + "/x")
				if err != nil {
					continue
				}
				b, _ := ioutil.ReadAll(resp.Body)
				resp.Body.Close()
				atomic.AddInt64(&total, 1)
				parts := strings.Split(string(b), "|")
				if resp.StatusCode != 200 || len(parts) != 2 || parts[0] != parts[1]+".test" {
					atomic.AddInt64(&mixed, 1)
				}
			}
		}()
	}
	wg.Wait()
	atomic.StoreInt32(&stop, 1)
	<-done
	// a reload takes effect: once SetRules has returned, every new request is handled under the new version
	var stale int64
	for _, v := range []string{"b", "a", "b"} {
		rs, err := mk(v)
		if err != nil {
			return sx.L(), err
		}
		router.SetRules(rs)
		for i := 0; i < 5; i++ {
			resp, err := http.Get(ts.URL + "/x")
			if err != nil {
				stale++
				continue
			}
			b, _ := ioutil.ReadAll(resp.Body)
			resp.Body.Close()
			if string(b) != v+".test|"+v {
				stale++
			}
		}
	}
	pm, ps, err := pinnedRun()
	if err != nil {
		return sx.L(), err
	}
	return sx.L(sx.I(total), sx.I(mixed), sx.I(stale+ps), sx.I(swapPinnedRuns), sx.I(pm)), nil
}
