package main

import (
	"fmt"
	"time"
)

const cacheBase = int64(1700000000)

func rfc1123(t int64) string { return time.Unix(t, 0).UTC().Format(time.RFC1123) }

type histGen struct {
	rng     *Rng
	nonce   int
	now     int64
	ops     []Op
	lastL   int64 // a lifetime in play, for boundary advances
	etag    string
	lastMod string
}

func (g *histGen) originResp(profile string) Behaviour {
	rng := g.rng
	g.nonce++
	body := fmt.Sprintf("body-v%d", g.nonce)
	hdrs := []KV{{"Content-Type", "text/plain"}}
	if rng.Chance(80, 100) {
		hdrs = append(hdrs, KV{"Content-Length", fmt.Sprint(len(body))})
	}
	var cc string
	switch profile {
	case "fresh":
		L := int64(rng.Pick2([]int{5, 30, 60, 600}))
		g.lastL = L
		switch rng.Intn(6) {
		case 0:
			cc = fmt.Sprintf("max-age=%d", L)
		case 1:
			cc = fmt.Sprintf("s-maxage=%d, max-age=%d", L, L*10)
		case 2:
			cc = fmt.Sprintf("public, max-age=%d, stale-if-error=%d", L, 100)
		case 3:
			cc = fmt.Sprintf("max-age=%d, stale-while-revalidate=50", L)
		case 4:
			hdrs = append(hdrs, KV{"Expires", rfc1123(cacheBase + g.now + L)})
		case 5:
			cc = fmt.Sprintf("MAX-AGE=%d", L)
		}
	case "nolife":
	case "uncacheable":
		cc = rng.Pick([]string{"no-store", "private", "no-cache", "max-age=0", "s-maxage=0, max-age=60", "public, No-Store", "max-age=60,\tno-store"})
	}
	if cc != "" {
		hdrs = append(hdrs, KV{"Cache-Control", cc})
	}
	if rng.Chance(60, 100) {
		g.etag = rng.Pick([]string{"\"e%d\"", "W/\"e%d\"", "e%d"})
		g.etag = fmt.Sprintf(g.etag, g.nonce)
		hdrs = append(hdrs, KV{"Etag", g.etag})
	} else {
		g.etag = ""
	}
	if rng.Chance(40, 100) {
		g.lastMod = rfc1123(cacheBase + g.now - 1000)
		hdrs = append(hdrs, KV{"Last-Modified", g.lastMod})
	} else {
		g.lastMod = ""
	}
	if rng.Chance(15, 100) {
		hdrs = append(hdrs, KV{"X-Custom", fmt.Sprintf("c%d", g.nonce)})
	}
	return Behaviour{Status: 200, Hdrs: hdrs, Body: body}
}

// notModified scripts a 304 only when the stored response carries a validator the revalidation
// can send; an origin does not answer 304 to an unconditional request
func (g *histGen) notModified(h []KV) {
	if g.etag == "" && g.lastMod == "" {
		g.script(g.originResp("fresh"))
		return
	}
	g.script(Behaviour{Status: 304, Hdrs: h})
}

func (g *histGen) script(b ...Behaviour) {
	g.ops = append(g.ops, Op{Kind: "script", Script: []HostScript{{"origin.test", b}}})
}

func (g *histGen) req(method, target string, hdrs ...KV) {
	g.ops = append(g.ops, Op{Kind: "req", Req: Req{Method: method, Host: "client.test", Target: target, Hdrs: hdrs}})
}

func (g *histGen) adv(dt int64) {
	g.now += dt
	g.ops = append(g.ops, Op{Kind: "adv", Dt: dt})
}

func (g *histGen) boundaryAdvance() {
	L := g.lastL
	if L == 0 {
		L = 60
	}
	g.adv(int64(g.rng.Pick2([]int{1, int(L) - 1, int(L), int(L) + 1, int(L) * 3, 100000})))
}

// genFreshHist: fill, clock advances around the lifetime, origin changes, 304/200/5xx revalidations
func genFreshHist(rng *Rng, force int) Case {
	g := &histGen{rng: rng}
	rule := Rule{Enabled: true, Path: "/c/*", Dest: "http://origin.test/o/$1", Type: 1, Cache: "c1", Force: force}
	target := "/c/x"
	g.script(g.originResp(rng.Pick([]string{"fresh", "fresh", "fresh", "nolife"})))
	g.req("GET", target)
	steps := 2 + rng.Intn(6)
	for i := 0; i < steps; i++ {
		switch rng.Intn(7) {
		case 0, 1:
			g.boundaryAdvance()
			g.req("GET", target)
		case 2:
			g.script(g.originResp("fresh"))
			if rng.Bool() {
				g.boundaryAdvance()
			}
			g.req("GET", target)
		case 3: // origin will answer 304
			h := []KV{{"Cache-Control", fmt.Sprintf("max-age=%d", g.lastL)}}
			if g.etag != "" {
				h = append(h, KV{"Etag", g.etag})
			}
			if rng.Chance(30, 100) {
				h = append(h, KV{"X-Refreshed", "1"})
			}
			g.notModified(h)
			g.boundaryAdvance()
			g.req("GET", target)
		case 4: // origin error
			st := rng.Pick2([]int{500, 503, 404, 502})
			g.script(Behaviour{Status: st, Hdrs: []KV{{"Content-Type", "text/plain"}, {"Content-Length", "4"}}, Body: "fail"})
			g.boundaryAdvance()
			g.req("GET", target)
		case 5: // origin unreachable
			g.script(Behaviour{Err: true})
			g.boundaryAdvance()
			g.req("GET", target)
		case 6:
			g.req("HEAD", target)
		}
	}
	return cacheCase{CacheCase{Retries: 0, Rules: []Rule{rule}, Caches: []string{"c1"}, Base: cacheBase, Ops: g.ops}}
}

func genC08(tier string, rng *Rng) []Case {
	var out []Case
	n := 300
	if tier == "thorough" {
		n = 6000
	}
	for i := 0; i < n; i++ {
		force := 0
		if rng.Chance(25, 100) {
			force = rng.Pick2([]int{10, 45, 1000})
		}
		out = append(out, genFreshHist(rng, force))
	}
	for i := 0; i < n/15; i++ {
		out = append(out, genMulti304(rng))
	}
	return out
}

// genMulti304: a response whose header names repeat (two Link lines, Cache-Control split over two lines with the
// lifetime on the first), stored, expired, confirmed by a 304 that repeats those lines (or some of them), read again,
// and then let expire once more: every value must survive the merge of the 304, the lifetime included.
func genMulti304(rng *Rng) Case {
	g := &histGen{rng: rng}
	L := int64(rng.Pick2([]int{5, 60}))
	body := "multi-v1"
	multi := []KV{{"Link", "</app.js>; rel=preload; as=script"}, {"Link", "</app.css>; rel=preload; as=style"}}
	cc := []KV{{"Cache-Control", fmt.Sprintf("max-age=%d", L)}, {"Cache-Control", "public"}}
	if rng.Chance(50, 100) {
		cc = []KV{{"Cache-Control", "public"}, {"Cache-Control", fmt.Sprintf("max-age=%d", L)}}
	}
	extra := []KV{{"X-Tag", "one"}, {"X-Tag", "two"}, {"X-Tag", "three"}}
	h200 := append(append(append([]KV{{"Content-Type", "text/plain"}, {"Content-Length", fmt.Sprint(len(body))}, {"Etag", "\"m1\""}}, cc...), multi...), extra...)
	g.script(Behaviour{Status: 200, Hdrs: h200, Body: body})
	g.req("GET", "/c/m")
	g.adv(1)
	g.req("GET", "/c/m")
	g.adv(L + 5)
	// the 304 repeats the lines: all of them, or only the Cache-Control ones, or Link in another order
	h304 := append([]KV{{"Etag", "\"m1\""}}, cc...)
	switch rng.Intn(3) {
	case 0:
		h304 = append(append(h304, multi...), extra...)
	case 1:
		h304 = append(h304, multi[1], multi[0])
	}
	g.script(Behaviour{Status: 304, Hdrs: h304})
	g.req("GET", "/c/m")
	g.adv(1)
	g.req("GET", "/c/m")
	if rng.Chance(50, 100) {
		g.ops = append(g.ops, Op{Kind: "restart"})
		g.req("GET", "/c/m")
	}
	// once more past the lifetime: the origin has a new version now
	g.adv(L + 5)
	g.script(Behaviour{Status: 200, Hdrs: []KV{{"Content-Type", "text/plain"}, {"Content-Length", "8"}, {"Cache-Control", "max-age=600"}, {"Etag", "\"m2\""}}, Body: "multi-v2"})
	g.req("GET", "/c/m")
	g.adv(1)
	g.req("GET", "/c/m")
	return mkCacheCase([]Rule{cacheRule()}, g.ops, nil)
}

func mkCacheCase(rules []Rule, ops []Op, suffix *string) Case {
	return cacheCase{CacheCase{Retries: 0, Rules: rules, Caches: []string{"c1"}, Suffix: suffix, Base: cacheBase, Ops: ops}}
}

func cacheRule() Rule {
	return Rule{Enabled: true, Path: "/c/*", Dest: "http://origin.test/o/$1", Type: 1, Cache: "c1"}
}

// ---------- C07: what a hit replays ----------

func genC07Hist(tier string, rng *Rng) []Case {
	var out []Case
	n := 250
	if tier == "thorough" {
		n = 5000
	}
	for i := 0; i < n; i++ {
		g := &histGen{rng: rng}
		rule := cacheRule()
		if rng.Chance(25, 100) {
			rule.RespHdrs = []KV{{"X-Edge", "1"}}
			if rng.Chance(40, 100) {
				rule.RespHdrs = append(rule.RespHdrs, KV{"X-Custom", "overridden"})
			}
		}
		hostile := rng.Chance(45, 100)
		b := g.originResp("fresh")
		g.lastL = 600
		// replace the lifetime by a long one so that hits happen
		var hdrs []KV
		for _, kv := range b.Hdrs {
			if kv.K != "Cache-Control" && kv.K != "Expires" {
				hdrs = append(hdrs, kv)
			}
		}
		hdrs = append(hdrs, KV{"Cache-Control", "max-age=600"})
		hdrs = append(hdrs, genHdrs(rng, hostile, hostile && rng.Chance(50, 100))...)
		// drop generated names that would fight with framing or lifetimes
		var clean []KV
		for _, kv := range hdrs {
			switch kv.K {
			case "Content-Length", "Age", "Vary":
				if kv.V != "" && kv.K == "Content-Length" && kv.V == fmt.Sprint(len(b.Body)) {
					clean = append(clean, kv)
				}
			default:
				clean = append(clean, kv)
			}
		}
		b.Hdrs = clean
		if rng.Chance(15, 100) {
			b.Status = rng.Pick2([]int{404, 301, 400, 403})
			if b.Status == 301 {
				b.Hdrs = append(b.Hdrs, KV{"Location", "http://elsewhere.test/x"})
			}
		}
		if rng.Chance(10, 100) {
			b.Body = binBody()
			var h2 []KV
			for _, kv := range b.Hdrs {
				if kv.K != "Content-Length" {
					h2 = append(h2, kv)
				}
			}
			b.Hdrs = h2
		}
		g.script(b)
		if rng.Chance(25, 100) {
			// the entry is filled by a ranged request; later plain hits must still replay the whole response
			g.req("GET", "/c/x", KV{"Range", rng.Pick([]string{"bytes=2-5", "bytes=0-0", "bytes=-3", "bytes=1-"})})
		} else {
			g.req("GET", "/c/x")
		}
		g.adv(int64(1 + rng.Intn(50)))
		g.req("GET", "/c/x")
		if rng.Chance(40, 100) {
			g.ops = append(g.ops, Op{Kind: "restart"})
			g.req("GET", "/c/x")
		}
		if rng.Chance(40, 100) {
			h := []KV{{"Cache-Control", "max-age=600"}}
			if rng.Chance(50, 100) {
				h = append(h, KV{"X-Refreshed", "yes"})
			}
			g.notModified(h)
			g.adv(601)
			g.req("GET", "/c/x")
			g.adv(5)
			g.req("GET", "/c/x")
		}
		var suffix *string
		if rng.Chance(25, 100) {
			sf := rng.Pick([]string{"-001", "-sfx", "s"})
			suffix = &sf
			// give the stored response an ETag whose own tail shares bytes with the suffix
			tricky := rng.Pick([]string{"\"rev-100\"", "W/\"v1.10\"", "build-2010", "\"boxes\"", "\"ffs\"", "\"a-001\"", "\"plain\""})
			for oi := range g.ops {
				if g.ops[oi].Kind == "script" {
					for bi := range g.ops[oi].Script[0].Bs {
						b := &g.ops[oi].Script[0].Bs[bi]
						if b.Status != 304 {
							var h2 []KV
							for _, kv := range b.Hdrs {
								if kv.K != "Etag" {
									h2 = append(h2, kv)
								}
							}
							b.Hdrs = append(h2, KV{"Etag", tricky})
						}
					}
				}
			}
		}
		out = append(out, mkCacheCase([]Rule{rule}, g.ops, suffix))
	}
	for i := 0; i < n/12; i++ {
		out = append(out, genMulti304(rng))
	}
	return out
}

// ---------- C09: revalidation and conditional requests ----------

func genC09Hist(tier string, rng *Rng) []Case {
	var out []Case
	n := 300
	if tier == "thorough" {
		n = 6000
	}
	for i := 0; i < n; i++ {
		g := &histGen{rng: rng}
		var suffix *string
		if rng.Chance(20, 100) {
			s := rng.Pick([]string{"-sfx", "~e2"})
			suffix = &s
		}
		sfx := ""
		if suffix != nil {
			sfx = *suffix
		}
		withSfx := func(e string) string {
			if e == "" || sfx == "" {
				return e
			}
			if e[len(e)-1] == '"' {
				return e[:len(e)-1] + sfx + "\""
			}
			return e + sfx
		}
		g.script(g.originResp(rng.Pick([]string{"fresh", "fresh", "nolife"})))
		cond := func() []KV {
			switch rng.Intn(8) {
			case 0:
				if g.etag != "" {
					return []KV{{"If-None-Match", withSfx(g.etag)}}
				}
				return nil
			case 1:
				if g.etag != "" {
					return []KV{{"If-None-Match", g.etag}}
				}
				return nil
			case 2:
				return []KV{{"If-None-Match", "\"other\""}}
			case 3:
				if g.lastMod != "" {
					return []KV{{"If-Modified-Since", g.lastMod}}
				}
				return nil
			case 4:
				return []KV{{"If-Modified-Since", rfc1123(cacheBase + 5)}}
			case 5:
				if g.etag != "" {
					return []KV{{"If-None-Match", withSfx("W/" + g.etag)}}
				}
				return nil
			}
			return nil
		}
		g.req("GET", "/c/x", cond()...)
		steps := 2 + rng.Intn(5)
		for j := 0; j < steps; j++ {
			switch rng.Intn(6) {
			case 0:
				g.adv(int64(rng.Pick2([]int{1, 10})))
				g.req("GET", "/c/x", cond()...)
			case 1: // stale, origin says 304 (possibly with odd headers)
				h := []KV{}
				if rng.Chance(70, 100) {
					h = append(h, KV{"Cache-Control", rng.Pick([]string{"max-age=30", "max-age=600", "no-store", "max-age=0"})})
				}
				if g.etag != "" && rng.Chance(70, 100) {
					h = append(h, KV{"Etag", g.etag})
				}
				g.notModified(h)
				g.adv(g.lastL + 1)
				g.req("GET", "/c/x", cond()...)
			case 2: // stale, origin has a new version
				g.adv(g.lastL + 1)
				g.script(g.originResp("fresh"))
				g.req("GET", "/c/x", cond()...)
			case 3: // stale, origin fails
				g.script(Behaviour{Status: rng.Pick2([]int{500, 404, 503}), Hdrs: []KV{{"Content-Type", "text/plain"}, {"Content-Length", "4"}}, Body: "fail"})
				g.adv(g.lastL + 1)
				g.req("GET", "/c/x", cond()...)
			case 4:
				g.req("HEAD", "/c/x", cond()...)
			case 5: // stale, origin answers 5xx with an empty body
				g.script(Behaviour{Status: 500, Hdrs: []KV{{"Content-Length", "0"}}, Body: ""})
				g.adv(g.lastL + 1)
				g.req("GET", "/c/x")
				g.adv(1)
				g.req("GET", "/c/x")
			}
		}
		out = append(out, mkCacheCase([]Rule{cacheRule()}, g.ops, suffix))
	}
	return out
}

// ---------- C10: responses that must not be cached ----------

func genC10Hist(tier string, rng *Rng) []Case {
	var out []Case
	n := 300
	if tier == "thorough" {
		n = 6000
	}
	for i := 0; i < n; i++ {
		g := &histGen{rng: rng}
		rule := cacheRule()
		stripAuth := rng.Chance(30, 100)
		if stripAuth {
			if rng.Bool() {
				rule.ReqHdrs = []KVOpt{{"Authorization", nil}}
			} else {
				v := "Bearer service"
				rule.ReqHdrs = []KVOpt{{"authorization", &v}}
			}
		}
		steps := 3 + rng.Intn(5)
		for j := 0; j < steps; j++ {
			prof := rng.Pick([]string{"uncacheable", "uncacheable", "fresh"})
			g.script(g.originResp(prof))
			m := "GET"
			var hdrs []KV
			switch rng.Intn(6) {
			case 0:
				m = rng.Pick([]string{"POST", "PUT", "DELETE"})
			case 1:
				hdrs = append(hdrs, KV{"Authorization", rng.Pick([]string{"Basic a", "Basic b"})})
			case 2:
				hdrs = append(hdrs, KV{"authorization", "Bearer t"})
			}
			req := Req{Method: m, Host: "client.test", Target: "/c/x", Hdrs: hdrs}
			if m != "GET" {
				req.Body = "b"
			}
			g.ops = append(g.ops, Op{Kind: "req", Req: req})
			if rng.Bool() {
				g.adv(int64(rng.Pick2([]int{1, 5, 100})))
			}
			// a later plain request for the same resource
			g.req("GET", "/c/x")
			if prof == "fresh" && g.etag != "" && rng.Chance(50, 100) {
				// the entry goes stale and the origin answers the revalidation with a 304 that must not be cached
				g.adv(g.lastL + 1)
				g.nonce++
				g.script(Behaviour{Status: 304, Hdrs: []KV{{"Cache-Control", rng.Pick([]string{"no-store", "private", "max-age=0", "no-cache"})},
					{"X-Session", fmt.Sprintf("session-%d", g.nonce)}, {"Etag", g.etag}}})
				g.req("GET", "/c/x")
				g.adv(int64(rng.Pick2([]int{1, 5, 100})))
				g.req("GET", "/c/x")
				g.req("GET", "/c/x")
			} else if prof == "fresh" && rng.Chance(45, 100) {
				// the entry goes stale and the origin answers the refresh with an error (or a redirect) of a status the
				// cache does store, but marked as not to be cached: it must replace nothing and be shown to nobody else
				g.adv(g.lastL + 200)
				g.nonce++
				st := rng.Pick2([]int{404, 404, 400, 403, 401, 301, 410, 500})
				eb := fmt.Sprintf("gone body-v%d", g.nonce)
				eh := []KV{{"Content-Type", "text/plain"}, {"Content-Length", fmt.Sprint(len(eb))},
					{"Cache-Control", rng.Pick([]string{"no-store", "private", "max-age=0", "no-cache", "s-maxage=0"})}, {"X-Session", fmt.Sprintf("session-%d", g.nonce)}}
				if st == 301 {
					eh = append(eh, KV{"Location", "http://elsewhere.test/moved"})
				}
				g.script(Behaviour{Status: st, Hdrs: eh, Body: eb})
				g.req("GET", "/c/x")
				g.adv(int64(rng.Pick2([]int{1, 5, 30})))
				g.req("GET", "/c/x")
				g.req("GET", "/c/x")
			}
		}
		out = append(out, mkCacheCase([]Rule{rule}, g.ops, nil))
	}
	return out
}

// ---------- C05: one complete, well-formed response mirroring the origin ----------

var c05Statuses = []int{200, 201, 202, 204, 206, 226, 300, 301, 302, 303, 304, 307, 308, 400, 401, 403, 404, 405, 409, 410, 418, 429, 451, 499, 500, 501, 502, 503, 504, 511, 599}

func genC05(tier string, rng *Rng) []Case {
	var out []Case
	n := 500
	if tier == "thorough" {
		n = 8000
	}
	sizes := []int{0, 1, 7, 1000, 32*1024 - 1, 32 * 1024, 32*1024 + 1, 70000}
	for i := 0; i < n; i++ {
		g := &histGen{rng: rng}
		rule := Rule{Enabled: true, Path: "/c/*", Dest: "http://origin.test/o/$1", Type: 1}
		if rng.Chance(65, 100) {
			rule.Cache = "c1"
		}
		if rng.Chance(30, 100) {
			rule.RespHdrs = []KV{{"X-Edge", "1"}}
			if rng.Chance(30, 100) {
				rule.RespHdrs = append(rule.RespHdrs, KV{"X-Custom", "from-rule"})
			}
		}
		var st int
		if tier == "thorough" && rng.Chance(50, 100) {
			st = 200 + rng.Intn(400)
		} else {
			st = c05Statuses[rng.Intn(len(c05Statuses))]
		}
		size := sizes[rng.Intn(len(sizes))]
		if rng.Chance(70, 100) && size > 1000 {
			size = sizes[rng.Intn(4)]
		}
		body := bigBody(size)
		if st == 204 || st == 304 {
			body = ""
		}
		hdrs := []KV{{"Content-Type", rng.Pick([]string{"text/plain", "application/json", "application/octet-stream"})}}
		if rng.Chance(70, 100) {
			hdrs = append(hdrs, KV{"Content-Length", fmt.Sprint(len(body))})
		}
		if rng.Chance(50, 100) {
			hdrs = append(hdrs, KV{"Cache-Control", rng.Pick([]string{"max-age=60", "no-store", "private, max-age=10", "public", "max-age=0"})})
		}
		if rng.Chance(40, 100) {
			hdrs = append(hdrs, KV{"X-Custom", "v1"})
			if rng.Chance(40, 100) {
				hdrs = append(hdrs, KV{"X-Custom", "v2"})
			}
		}
		if rng.Chance(30, 100) {
			hdrs = append(hdrs, KV{"Set-Cookie", "a=1; Path=/"}, KV{"Set-Cookie", "b=2"})
		}
		if rng.Chance(30, 100) {
			hdrs = append(hdrs, KV{"Etag", "\"e1\""})
		}
		if st >= 300 && st < 400 && st != 304 && rng.Chance(80, 100) {
			hdrs = append(hdrs, KV{"Location", "http://elsewhere.test/next"})
		}
		g.script(Behaviour{Status: st, Hdrs: hdrs, Body: body})
		m := rng.Pick([]string{"GET", "GET", "GET", "HEAD", "POST"})
		req := Req{Method: m, Host: "client.test", Target: "/c/x"}
		if m == "POST" {
			req.Body = "b"
		}
		g.ops = append(g.ops, Op{Kind: "req", Req: req})
		if rng.Chance(60, 100) { // warm: the same request again
			g.adv(1)
			g.ops = append(g.ops, Op{Kind: "req", Req: req})
		}
		if rng.Chance(45, 100) {
			// later: the stored answer (if any) has expired and the origin answers something else - a changed
			// resource, an error, a 304 - which must reach the client whole, and once more from the cache or not
			g.adv(int64(rng.Pick2([]int{61, 100, 4000})))
			st2 := []int{200, 200, 200, 404, 500, 304, 301}[rng.Intn(7)]
			body2 := "v2-" + bigBody(sizes[rng.Intn(len(sizes))])
			if st2 == 304 {
				body2 = ""
			}
			h2 := []KV{{"Content-Type", "text/plain"}}
			if rng.Chance(70, 100) {
				h2 = append(h2, KV{"Content-Length", fmt.Sprint(len(body2))})
			}
			if rng.Chance(60, 100) {
				h2 = append(h2, KV{"Cache-Control", rng.Pick([]string{"max-age=60", "max-age=60", "no-store", "public"})})
			}
			if rng.Chance(30, 100) {
				h2 = append(h2, KV{"Etag", "\"e2\""})
			}
			if st2 == 301 {
				h2 = append(h2, KV{"Location", "http://elsewhere.test/next"})
			}
			g.script(Behaviour{Status: st2, Hdrs: h2, Body: body2})
			g.ops = append(g.ops, Op{Kind: "req", Req: req})
			g.adv(1)
			g.ops = append(g.ops, Op{Kind: "req", Req: req})
		}
		out = append(out, mkCacheCase([]Rule{rule}, g.ops, nil))
	}
	// a stored answer that is not a 200 (an error page, a redirect that is not followed) is asked for again with a
	// Range header: no partial response can be announced for it, so all of it must arrive, under its own length
	for i := 0; i < n/8+len(c05Statuses); i++ {
		g := &histGen{rng: rng}
		st := c05Statuses[i%len(c05Statuses)]
		if st == 200 || st == 206 || st == 204 || st == 304 {
			st = rng.Pick2([]int{404, 301, 400, 403, 410, 302})
		}
		body := bigBody(rng.Pick2([]int{1, 7, 22, 1000, 32*1024 + 1}))
		hdrs := []KV{{"Content-Type", "text/plain"}, {"Cache-Control", rng.Pick([]string{"max-age=60", "max-age=60", "public, max-age=600", "s-maxage=30"})}}
		if rng.Chance(70, 100) {
			hdrs = append(hdrs, KV{"Content-Length", fmt.Sprint(len(body))})
		}
		if st >= 300 && st < 400 {
			hdrs = append(hdrs, KV{"Location", "http://elsewhere.test/next"})
		}
		if rng.Chance(30, 100) {
			hdrs = append(hdrs, KV{"Etag", "\"e1\""})
		}
		g.script(Behaviour{Status: st, Hdrs: hdrs, Body: body})
		rg := func() KV {
			return KV{"Range", rng.Pick([]string{"bytes=3-6", "bytes=0-0", "bytes=-4", "bytes=5-", "bytes=0-99999", "bytes=2-1", "bytes=40000-"})}
		}
		if rng.Bool() {
			g.req("GET", "/c/x")
		} else {
			g.req("GET", "/c/x", rg()) // the request that fills the entry carries the range
		}
		g.adv(1)
		g.req("GET", "/c/x", rg())
		if rng.Chance(30, 100) {
			g.req("HEAD", "/c/x", rg())
		}
		g.req("GET", "/c/x")
		out = append(out, mkCacheCase([]Rule{cacheRule()}, g.ops, nil))
	}
	// a resource that starts to vary by Origin: stored once for everybody, expired, and refreshed by a request with an
	// Origin whose answer now says Vary: Origin - the refresh moves the entry to that Origin's key
	for i := 0; i < n/10+1; i++ {
		g := &histGen{rng: rng}
		mk := func(body string, vary bool) Behaviour {
			h := []KV{{"Content-Type", "text/plain"}, {"Content-Length", fmt.Sprint(len(body))}, {"Cache-Control", "max-age=10"}}
			if vary {
				h = append(h, KV{"Vary", "Origin"})
			}
			return Behaviour{Status: 200, Hdrs: h, Body: body}
		}
		oa, ob := KV{"Origin", "https://a.example"}, KV{"Origin", "https://b.example"}
		g.script(mk("for everybody", false))
		g.req("GET", "/c/x", oa)
		g.req("GET", "/c/x", ob)
		g.adv(100)
		g.script(mk("for a.example", true))
		g.req("GET", "/c/x", oa)
		if rng.Bool() {
			g.req("GET", "/c/x", oa)
		}
		g.script(mk("for b.example", true))
		g.req("GET", "/c/x", ob)
		g.req("GET", "/c/x", oa)
		g.req("GET", "/c/x", ob)
		if rng.Bool() {
			g.req("GET", "/c/x")
		}
		out = append(out, mkCacheCase([]Rule{cacheRule()}, g.ops, nil))
	}
	// requests rrrouter must answer by itself
	hosts := []string{"[abc", "[", "a:b:c", "%zz", "h1:x", "]", "client.test"}
	for i := 0; i < n/5; i++ {
		g := &histGen{rng: rng}
		rule := Rule{Enabled: true, Path: "/c/*", Dest: "http://origin.test/o/$1", Type: 1, Internal: rng.Chance(30, 100)}
		if rng.Chance(50, 100) {
			rule.Cache = "c1"
		}
		var secrets *[]string
		if rule.Internal || rng.Chance(30, 100) {
			secrets = &[]string{"s1"}
		}
		req := Req{Method: rng.Pick([]string{"GET", "POST", "HEAD"}), Host: rng.Pick(hosts), Target: rng.Pick([]string{"/c/x", "/nomatch", "/c/x?y=1"})}
		switch rng.Intn(4) {
		case 0:
			req.Hdrs = append(req.Hdrs, KV{"Richie-Routing-Secret", "wrong"})
		case 1:
			req.Hdrs = append(req.Hdrs, KV{"Richie-Request-ID", "cid"})
		}
		if rng.Chance(40, 100) {
			g.script(Behaviour{Err: true})
		} else {
			g.script(okResp("fine"))
		}
		g.ops = append(g.ops, Op{Kind: "req", Req: req})
		c := CacheCase{Secrets: secrets, Retries: rng.Intn(2), Rules: []Rule{rule}, Caches: []string{"c1"}, Base: cacheBase, Ops: g.ops}
		out = append(out, cacheCase{c})
	}
	return out
}

// ---------- C15 (end to end): ranges on misses and hits, fixed-length and chunked origins ----------

func genC15Hist(tier string, rng *Rng) []Case {
	var out []Case
	alphabet := "abcdefghijklmnopqrstuvwxyz"
	maxN, maxV := 12, 14
	per := 14
	rounds := 1
	if tier == "thorough" {
		rounds = 12
	}
	for round := 0; round < rounds; round++ {
		for n := 0; n <= maxN; n++ {
			for _, chunked := range []bool{false, true} {
				g := &histGen{rng: rng}
				body := alphabet[:n]
				hdrs := []KV{{"Content-Type", "text/plain"}, {"Cache-Control", "max-age=600"}}
				if !chunked {
					hdrs = append(hdrs, KV{"Content-Length", fmt.Sprint(n)})
				}
				st15 := 200
				if n >= 3 && rng.Chance(15, 100) {
					// a stored error page or unfollowed redirect: never partial, always whole
					st15 = rng.Pick2([]int{404, 301, 410, 400})
					if st15 == 301 {
						hdrs = append(hdrs, KV{"Location", "http://elsewhere.test/next"})
					}
				}
				g.script(Behaviour{Status: st15, Hdrs: hdrs, Body: body})
				mkRange := func() string {
					a, b := rng.Intn(maxV+1), rng.Intn(maxV+1)
					switch rng.Intn(8) {
					case 0, 1, 2:
						if a > b {
							a, b = b, a
						}
						return fmt.Sprintf("bytes=%d-%d", a, b)
					case 3, 4:
						return fmt.Sprintf("bytes=%d-", a)
					case 5, 6:
						return fmt.Sprintf("bytes=-%d", a)
					}
					return rng.Pick(malformedRanges)
				}
				for i := 0; i < per; i++ {
					p := fmt.Sprintf("/c/p%d", i)
					g.req("GET", p, KV{"Range", mkRange()}) // miss, filled by this very request
					g.req("GET", p, KV{"Range", mkRange()}) // hit
					if rng.Chance(20, 100) {
						g.req("HEAD", p, KV{"Range", mkRange()})
					}
				}
				g.req("GET", "/c/full") // no Range at all
				g.req("GET", "/c/full", KV{"Range", mkRange()})
				// the entry expires, the resource changes length (possibly chunked now), and the request that
				// refreshes it carries a range
				n2 := rng.Intn(maxN + 1)
				h2 := []KV{{"Content-Type", "text/plain"}, {"Cache-Control", "max-age=600"}}
				if rng.Bool() {
					h2 = append(h2, KV{"Content-Length", fmt.Sprint(n2)})
				}
				g.script(Behaviour{Status: 200, Hdrs: h2, Body: "ZYXWVUTSRQPONMLKJIHGFEDCBA"[:n2]})
				g.adv(601)
				g.req("GET", "/c/p0", KV{"Range", mkRange()})
				g.req("GET", "/c/p0", KV{"Range", mkRange()})
				g.req("GET", "/c/p1")
				g.req("GET", "/c/p1", KV{"Range", mkRange()})
				out = append(out, mkCacheCase([]Rule{cacheRule()}, g.ops, nil))
			}
		}
	}
	return out
}

// ---------- C18: restart_on_redirect over redirect graphs ----------

// Nodes are URLs http://o<i>.test/p<i> on three origin hosts. The client enters through
// /r/start<i>, mapped to node i. Each node is final or redirects to node j with an absolute,
// path-absolute or relative Location. A restarted request is matched against the rules again:
// optional per-hop rules carry a host constraint o<i>.test (own overrides, own cache setting);
// where none matches the parent rule is the fallback.
func genC18(tier string, rng *Rng) []Case {
	var out []Case
	var graphs [][]int
	for a := -1; a < 3; a++ {
		for b := -1; b < 3; b++ {
			for c := -1; c < 3; c++ {
				graphs = append(graphs, []int{a, b, c})
			}
		}
	}
	loc := func(kind, from, to int) string {
		switch kind {
		case 0:
			return fmt.Sprintf("http://o%d.test/p%d", to, to)
		case 1:
			return fmt.Sprintf("/p%d", to) // stays on the redirecting host
		default:
			return fmt.Sprintf("p%d", to) // relative reference
		}
	}
	for gi, gph := range graphs {
		for _, cached := range []bool{false, true} {
			for _, kind := range []int{0, 0, 1, 2} {
				if tier != "thorough" && kind != 0 && (gi+kind)%4 != 0 {
					continue
				}
				g := &histGen{rng: rng}
				var rules []Rule
				hopRules := rng.Intn(3) // 0: none, 1: for o1 only, 2: for all hosts
				for i := 0; i < 3; i++ {
					if hopRules == 2 || (hopRules == 1 && i == 1) {
						r := Rule{Enabled: true, Host: fmt.Sprintf("o%d.test", i), Path: "/*", Dest: fmt.Sprintf("http://o%d.test/$1", i), Type: 1, Restart: true,
							RespHdrs: []KV{{"X-Hop-Rule", fmt.Sprint(i)}}}
						v := fmt.Sprintf("hop-%d", i)
						r.ReqHdrs = []KVOpt{{"x-hop", &v}}
						if cached && rng.Chance(70, 100) {
							r.Cache = "c1"
						}
						rules = append(rules, r)
					}
				}
				for i := 0; i < 3; i++ {
					r := Rule{Enabled: true, Path: fmt.Sprintf("/r/start%d", i), Dest: fmt.Sprintf("http://o%d.test/p%d", i, i), Type: 1, Restart: true}
					if cached {
						r.Cache = "c1"
					}
					rules = append(rules, r)
				}
				var script []HostScript
				for i, tgt := range gph {
					host := fmt.Sprintf("o%d.test", i)
					if tgt < 0 {
						body := fmt.Sprintf("final-%d", i)
						script = append(script, HostScript{host, []Behaviour{{Status: 200, Hdrs: []KV{{"Content-Type", "text/plain"}, {"Content-Length", fmt.Sprint(len(body))}, {"Cache-Control", "max-age=600"}}, Body: body}}})
					} else {
						st := rng.Pick2([]int{301, 302, 307, 308})
						script = append(script, HostScript{host, []Behaviour{{Status: st, Hdrs: []KV{{"Location", loc(kind, i, tgt)}, {"Cache-Control", "max-age=600"}, {"Content-Length", "0"}}, Body: ""}}})
					}
				}
				g.ops = append(g.ops, Op{Kind: "script", Script: script})
				start := fmt.Sprintf("/r/start%d", rng.Intn(3))
				g.req("GET", start)
				g.adv(1)
				g.req("GET", start) // warm
				if rng.Chance(30, 100) {
					g.req("GET", fmt.Sprintf("/r/start%d", rng.Intn(3)))
				}
				out = append(out, mkCacheCase(rules, g.ops, nil))
			}
		}
	}
	return out
}


// ---------- C11 (end to end): distinct destinations and redirect targets never share an entry ----------

func genC11Hist(tier string, rng *Rng) []Case {
	var out []Case
	n := 60
	if tier == "thorough" {
		n = 1200
	}
	resp := func(tag string) []Behaviour {
		body := "generated-for-" + tag
		return []Behaviour{{Status: 200, Hdrs: []KV{{"Content-Type", "text/plain"}, {"Content-Length", fmt.Sprint(len(body))}, {"Cache-Control", "max-age=600"}}, Body: body}}
	}
	// the origin's answer depends on the URL it is asked for, query included; rules with and without $1 in the destination:
	// requests that differ only in the query are different resources
	for i := 0; i < n/3+2; i++ {
		g := &histGen{rng: rng}
		rules := []Rule{
			{Enabled: true, Path: "/fixed/*", Dest: "http://origin.test/landing", Type: 1, Cache: "c1"},
			{Enabled: true, Path: "/q/*", Dest: "http://origin.test/base/$1", Type: 1, Cache: "c1"},
		}
		g.ops = append(g.ops, Op{Kind: "script", Script: []HostScript{{"origin.test", []Behaviour{{Status: 200,
			Hdrs: []KV{{"Content-Type", "text/plain"}, {"Cache-Control", "max-age=600"}}, Body: echoBody}}}}})
		for k := 4 + rng.Intn(4); k > 0; k-- {
			g.req("GET", rng.Pick([]string{"/fixed/a", "/q/a"})+rng.Pick([]string{"", "?x=1", "?x=2", "?x=1&y=2"}))
		}
		out = append(out, mkCacheCase(rules, g.ops, nil))
	}
	// a resource whose content depends on the request's Origin; it says so (Vary: Origin) from the start, or only from a
	// refresh on: once it says so, every Origin must get its own
	for i := 0; i < n/3+2; i++ {
		g := &histGen{rng: rng}
		mk := func(vary bool) Behaviour {
			h := []KV{{"Content-Type", "text/plain"}, {"Cache-Control", "max-age=10"}}
			if vary {
				h = append(h, KV{"Vary", "Origin"})
			}
			return Behaviour{Status: 200, Hdrs: h, Body: echoOriginBody}
		}
		oa, ob := KV{"Origin", "https://a.example"}, KV{"Origin", "https://b.example"}
		if rng.Bool() {
			g.script(mk(false))
			g.req("GET", "/c/x", oa)
			g.req("GET", "/c/x", ob)
			g.adv(100)
		}
		g.script(mk(true))
		for k := 4 + rng.Intn(4); k > 0; k-- {
			switch rng.Intn(5) {
			case 0:
				g.req("GET", "/c/x")
			case 1, 2:
				g.req("GET", "/c/x", oa)
			default:
				g.req("GET", "/c/x", ob)
			}
			if rng.Chance(20, 100) {
				g.adv(100)
			}
		}
		out = append(out, mkCacheCase([]Rule{cacheRule()}, g.ops, nil))
	}
	for i := 0; i < n; i++ {
		g := &histGen{rng: rng}
		switch rng.Intn(3) {
		case 0: // two rules, different destination hosts, equal destination paths
			rules := []Rule{
				{Enabled: true, Path: "/c/*", Dest: "http://hosta.test/same/$1", Type: 1, Cache: "c1"},
				{Enabled: true, Path: "/d/*", Dest: "http://hostb.test/same/$1", Type: 1, Cache: "c1"},
			}
			g.ops = append(g.ops, Op{Kind: "script", Script: []HostScript{{"hosta.test", resp("hosta")}, {"hostb.test", resp("hostb")}}})
			g.req("GET", "/c/x")
			g.req("GET", "/d/x")
			g.req("GET", "/c/x")
			out = append(out, mkCacheCase(rules, g.ops, nil))
		case 1: // redirect targets differing only in the port
			rules := []Rule{
				{Enabled: true, Path: "/t/a", Dest: "http://front.test/a", Type: 1, Cache: "c1", Restart: true},
				{Enabled: true, Path: "/t/b", Dest: "http://front2.test/b", Type: 1, Cache: "c1", Restart: true},
			}
			redir := func(to string) []Behaviour {
				return []Behaviour{{Status: 302, Hdrs: []KV{{"Location", to}, {"Cache-Control", "max-age=600"}, {"Content-Length", "0"}}}}
			}
			g.ops = append(g.ops, Op{Kind: "script", Script: []HostScript{
				{"front.test", redir("http://h.test:8001/data")}, {"front2.test", redir("http://h.test:8002/data")},
				{"h.test:8001", resp("port-8001")}, {"h.test:8002", resp("port-8002")}}})
			g.req("GET", "/t/a")
			g.req("GET", "/t/b")
			g.req("GET", "/t/a")
			g.req("GET", "/t/b")
			out = append(out, mkCacheCase(rules, g.ops, nil))
		case 2: // one rule, requests differing in one key field; every answer must be for its own request
			rules := []Rule{{Enabled: true, Path: "/c/*", Dest: "http://origin.test/o/$1", Type: 1, Cache: "c1"}}
			g.ops = append(g.ops, Op{Kind: "script", Script: []HostScript{{"origin.test", resp("any")}}})
			for k := 0; k < 4; k++ {
				var hd []KV
				if rng.Bool() {
					hd = append(hd, KV{"Accept-Encoding", rng.Pick([]string{"gzip", "br"})})
				}
				if rng.Chance(30, 100) {
					hd = append(hd, KV{"Origin", rng.Pick([]string{"https://a", "https://b"})})
				}
				g.req(rng.Pick([]string{"GET", "HEAD"}), rng.Pick([]string{"/c/x", "/c/x?y=1", "/c/x%2Fy", "/c/x/y"}), hd...)
			}
			out = append(out, mkCacheCase(rules, g.ops, nil))
		}
	}
	return out
}
