package main

// The "coord" family (C12, C13): schedules of concurrent requests for one cacheable resource
// through the real server and disk cache. The origin (the scripted performer) is gated: each
// fetch waits until the schedule lets it answer, and answers as the schedule says (a new
// version, 304, an error status, a failed connection, a body cut in the middle). Clients read
// fast, or slowly (their handler stays alive until the schedule lets them finish). After every
// action the harness waits for the server to settle.

import (
	"bufio"
	"bytes"
	"context"
	"errors"
	"fmt"
	"io"
	"io/ioutil"
	"net"
	"net/http"
	"net/http/httptest"
	"os"
	"path/filepath"
	"strings"
	"sync"
	"sync/atomic"
	"time"

	"github.com/richiefi/rrrouter/caching"
	"github.com/richiefi/rrrouter/config"
	"github.com/richiefi/rrrouter/proxy"
	"github.com/richiefi/rrrouter/server"

	"verif/harness/sx"
)

type CoAct struct {
	Kind string // arrive | answer | resume | adv | settle
	I    int    // client index / fetch ordinal
	Arg  string // arrive: fast|slow ; answer: new|304|500|fail|cut|slow (head and half of the body, the rest at "finish")|finish
	Dt   int64
}

type coordCase struct {
	MaxAge int64
	SWR    bool // stale-while-revalidate on the resource
	Big    bool // 32 MB bodies: more than the socket buffers hold (a slow client then blocks its handler)
	NoCL   bool // the origin sends no Content-Length (chunked): a cut body is only seen as a read error
	Vary   bool // every client sends the same Origin and the resource varies by it: the fill changes its key (ChangeKey)
	Force  int64 // force_revalidate on the rule (seconds; 0: none): caps the lifetime the origin grants
	Acts   []CoAct
}

func (c coordCase) Sx() sx.V {
	acts := []sx.V{}
	for _, a := range c.Acts {
		acts = append(acts, sx.L(sx.S(a.Kind), sx.I(int64(a.I)), sx.S(a.Arg), sx.I(a.Dt)))
	}
	return sx.L(sx.S("coord"), sx.I(c.MaxAge), sx.B(c.SWR), sx.B(c.Big), sx.L(acts...), sx.B(c.NoCL), sx.B(c.Vary), sx.I(c.Force))
}

func coordCaseFromSx(v sx.V) coordCase {
	c := coordCase{MaxAge: v.N(1).Int(), SWR: v.N(2).Bool(), Big: v.N(3).Bool(), NoCL: v.N(5).Bool(), Vary: len(v.List()) > 6 && v.N(6).Bool()}
	if len(v.List()) > 7 {
		c.Force = v.N(7).Int()
	}
	for _, a := range v.N(4).List() {
		c.Acts = append(c.Acts, CoAct{Kind: a.N(0).Str(), I: int(a.N(1).Int()), Arg: a.N(2).Str(), Dt: a.N(3).Int()})
	}
	return c
}

// ---- the gated origin ----
type fetch struct {
	ord      int
	cond     bool // carried a validator
	answer   chan string
	started  time.Time
	answered int32 // the schedule has let it answer
	finished int32 // its response was read to the end (or failed)
	ctx      context.Context
	paused   int32 // its body stands still in the middle until the schedule says "finish"
	finish   chan struct{}
	finOnce  sync.Once
}

// pausedReader hands out the first half of a body, then waits for the gate, then the rest
type pausedReader struct {
	data   []byte
	pos    int
	gate   chan struct{}
	paused *int32
}

func (p *pausedReader) Read(b []byte) (int, error) {
	half := len(p.data) / 2
	if p.pos == half {
		atomic.StoreInt32(p.paused, 1)
		<-p.gate
		atomic.StoreInt32(p.paused, 0)
	}
	if p.pos >= len(p.data) {
		return 0, io.EOF
	}
	end := len(p.data)
	if p.pos < half {
		end = half
	}
	n := copy(b, p.data[p.pos:end])
	p.pos += n
	return n, nil
}

type gatedOrigin struct {
	mu       sync.Mutex
	fetches  []*fetch
	inflight int
	maxIn    int
	version  int
	bodyLen  int
	cc       string
	progress int64
	noCL     bool
	vary     bool
}

func (g *gatedOrigin) body(ver int) string {
	head := fmt.Sprintf("v%d:", ver)
	return head + strings.Repeat("x", g.bodyLen-len(head))
}

type cutReader struct {
	r    io.Reader
	done func()
	once sync.Once
	prog *int64
}

func (c *cutReader) Read(p []byte) (int, error) {
	n, err := c.r.Read(p)
	atomic.AddInt64(c.prog, int64(n))
	if err != nil {
		c.once.Do(c.done)
	}
	return n, err
}
func (c *cutReader) Close() error { c.once.Do(c.done); return nil }

type failAfter struct {
	data []byte
	pos  int
}

func (f *failAfter) Read(p []byte) (int, error) {
	if f.pos >= len(f.data) {
		return 0, errors.New("connection reset by peer (scripted cut)")
	}
	n := copy(p, f.data[f.pos:])
	f.pos += n
	return n, nil
}

func (g *gatedOrigin) Do(req *http.Request) (*http.Response, error) {
	// like a real transport: a request whose context is cancelled (its client went away) is not sent, and one that
	// waits for its answer is abandoned
	if err := req.Context().Err(); err != nil {
		return nil, err
	}
	g.mu.Lock()
	f := &fetch{ord: len(g.fetches), cond: req.Header.Get("If-None-Match") != "" || req.Header.Get("If-Modified-Since") != "", answer: make(chan string, 1), started: time.Now(), finish: make(chan struct{})}
	f.ctx = req.Context()
	g.fetches = append(g.fetches, f)
	g.inflight++
	// fetches in flight at once: those not yet finished whose request has not been cancelled (a cancelled one is being
	// torn down: its requester has already returned and released the key)
	live := 0
	for _, o := range g.fetches {
		if atomic.LoadInt32(&o.finished) == 0 && o.ctx.Err() == nil {
			live++
		}
	}
	if live > g.maxIn {
		g.maxIn = live
	}
	g.mu.Unlock()
	done := func() {
		g.mu.Lock()
		g.inflight--
		g.mu.Unlock()
		atomic.StoreInt32(&f.finished, 1)
	}
	var how string
	select {
	case how = <-f.answer:
	case <-req.Context().Done():
		atomic.StoreInt32(&f.answered, 1)
		done()
		return nil, req.Context().Err()
	case <-time.After(20 * time.Second):
		how = "fail"
	}
	mk := func(status int, h http.Header, body io.Reader, n int64) *http.Response {
		return &http.Response{Status: fmt.Sprintf("%d %s", status, http.StatusText(status)), StatusCode: status, Proto: "HTTP/1.1", ProtoMajor: 1, ProtoMinor: 1,
			Header: h, Body: &cutReader{r: body, done: done, prog: &g.progress}, ContentLength: n, Request: req}
	}
	switch how {
	case "fail":
		done()
		return nil, errors.New("dial tcp: connection refused (scripted)")
	case "500":
		b := "origin error"
		return mk(500, http.Header{"Content-Type": []string{"text/plain"}, "Content-Length": []string{fmt.Sprint(len(b))}}, strings.NewReader(b), int64(len(b))), nil
	case "304":
		if f.cond {
			g.mu.Lock()
			ver := g.version
			g.mu.Unlock()
			return mk(304, http.Header{"Cache-Control": []string{g.cc}, "Etag": []string{fmt.Sprintf(`"e%d"`, ver)}}, strings.NewReader(""), 0), nil
		}
		how = "new" // an unconditional request cannot be answered 304
	}
	g.mu.Lock()
	g.version++
	ver := g.version
	g.mu.Unlock()
	b := g.body(ver)
	h := http.Header{"Content-Type": []string{"text/plain"}, "Cache-Control": []string{g.cc}, "Etag": []string{fmt.Sprintf(`"e%d"`, ver)}, "Content-Length": []string{fmt.Sprint(len(b))}}
	declared := int64(len(b))
	if g.vary {
		h.Set("Vary", "Origin")
	}
	if g.noCL {
		h.Del("Content-Length")
		declared = -1
	}
	if how == "cut" {
		return mk(200, h, &failAfter{data: []byte(b[:len(b)/2])}, declared), nil
	}
	if how == "slow" {
		return mk(200, h, &pausedReader{data: []byte(b), gate: f.finish, paused: &f.paused}, declared), nil
	}
	return mk(200, h, strings.NewReader(b), declared), nil
}
func (g *gatedOrigin) CloseIdleConnections() {}

// ---- clients ----
type countingReader struct {
	r io.Reader
	n *int64
}

func (c *countingReader) Read(p []byte) (int, error) {
	k, err := c.r.Read(p)
	if c.n != nil {
		atomic.AddInt64(c.n, int64(k))
	}
	return k, err
}

type coClient struct {
	conn     net.Conn
	connMu   sync.Mutex
	origin   string // sent as the Origin header when not empty
	progress *int64
	status  int
	version string
	whole   bool
	cache   string
	done    chan struct{}
	resume  chan struct{}
	started bool
	err     string
}

func runClient(addr string, slow bool, wantLen int, c *coClient) { runClientV(addr, slow, wantLen, c, "") }

// runClientV: the same with a validator (If-None-Match) on the request
func runClientV(addr string, slow bool, wantLen int, c *coClient, inm string) {
	defer close(c.done)
	conn, err := net.DialTimeout("tcp", addr, 5*time.Second)
	if err != nil {
		c.err = err.Error()
		return
	}
	defer conn.Close()
	c.connMu.Lock()
	c.conn = conn
	c.connMu.Unlock()
	conn.SetDeadline(time.Now().Add(40 * time.Second))
	extra := ""
	if c.origin != "" {
		extra = "Origin: " + c.origin + "\r\n"
	}
	if inm != "" {
		extra += "If-None-Match: " + inm + "\r\n"
	}
	fmt.Fprintf(conn, "GET /c/r HTTP/1.1\r\nHost: client.test\r\n%s\r\n", extra)
	br := bufio.NewReaderSize(conn, 4096)
	resp, err := http.ReadResponse(br, &http.Request{Method: "GET"})
	if err != nil {
		c.err = "no-response"
		return
	}
	c.status = resp.StatusCode
	c.cache = resp.Header.Get("Richie-Edge-Cache")
	var body bytes.Buffer
	if slow {
		// read a little, then stop until the schedule says go on
		io.CopyN(&body, resp.Body, 16)
		if os.Getenv("HX_DEBUG") != "" { fmt.Fprintln(os.Stderr, "slow client waiting", resp.StatusCode, resp.ContentLength) }
		<-c.resume
		if os.Getenv("HX_DEBUG") != "" { fmt.Fprintln(os.Stderr, "slow client resumed") }
	}
	_, rerr := io.Copy(&body, &countingReader{r: resp.Body, n: c.progress})
	if os.Getenv("HX_DEBUG") != "" { fmt.Fprintln(os.Stderr, "client copied", body.Len(), rerr) }
	resp.Body.Close()
	b := body.String()
	if i := strings.Index(b, ":"); i > 0 && i < 8 && strings.HasPrefix(b, "v") {
		c.version = b[:i] // a version of the resource; anything else (error texts) is no version
	}
	c.whole = rerr == nil
	if cl := resp.Header.Get("Content-Length"); cl != "" && fmt.Sprint(len(b)) != cl {
		c.whole = false
	}
	if resp.StatusCode == 200 && strings.HasPrefix(b, "v") && len(b) != wantLen {
		c.whole = false
	}
}

func (c coordCase) Run() (sx.V, error) {
	suffixMu.RLock()
	defer suffixMu.RUnlock()
	dir, err := ioutil.TempDir(tmpRoot(), "hxcoord")
	if err != nil {
		return sx.L(), err
	}
	var mu sync.Mutex
	offset := int64(0)
	now := func() time.Time {
		mu.Lock()
		defer mu.Unlock()
		return time.Unix(cacheBase+offset, 0)
	}
	inner := caching.NewDiskStorage("c1", filepath.Join(dir, "c1"), 1<<40, discardLogger, now)
	defer inner.SetIsReplaced()
	var st caching.Storage = &clockedStorage{inner: inner, now: now}
	cache := caching.NewCacheWithStorages([]*caching.Storage{&st}, discardLogger, now)
	theRule := cacheRule()
	theRule.Force = int(c.Force)
	rules, err := proxy.ParseRules(rulesJSON([]Rule{theRule}), discardLogger)
	if err != nil {
		return sx.L(), err
	}
	g := &gatedOrigin{bodyLen: 64, cc: fmt.Sprintf("max-age=%d", c.MaxAge), noCL: c.NoCL, vary: c.Vary}
	clientOrigin := ""
	if c.Vary {
		clientOrigin = "https://a.example"
	}
	if c.SWR {
		g.cc += ", stale-while-revalidate=1000"
	}
	if c.Big {
		g.bodyLen = 32 << 20
	}
	conf := &config.Config{RetryTimes: []int{}}
	router := proxy.NewRouterWithPerformer(rules, discardLogger, conf, g)
	smux := http.NewServeMux()
	server.ConfigureServeMux(smux, conf, router, discardLogger, cache)
	var entered, arrivals, clientBytes int64
	ts := httptest.NewServer(http.HandlerFunc(func(w http.ResponseWriter, r *http.Request) {
		atomic.AddInt64(&entered, 1)
		smux.ServeHTTP(w, r)
	}))
	defer ts.Close()
	addr := ts.Listener.Addr().String()

	clients := map[int]*coClient{}
	settle := func() {
		// every request sent so far has reached its handler ...
		for k := 0; k < 400 && atomic.LoadInt64(&entered) < atomic.LoadInt64(&arrivals); k++ {
			time.Sleep(5 * time.Millisecond)
		}
		// ... every fetch that was let go has been read to its end ...
		for k := 0; k < 1000; k++ {
			open := false
			g.mu.Lock()
			for _, f := range g.fetches {
				if atomic.LoadInt32(&f.answered) == 1 && atomic.LoadInt32(&f.finished) == 0 && atomic.LoadInt32(&f.paused) == 0 {
					open = true
				}
			}
			g.mu.Unlock()
			if !open {
				break
			}
			time.Sleep(5 * time.Millisecond)
		}
		// ... and nothing changes over four looks 25 ms apart
		last := ""
		same := 0
		for k := 0; k < 80 && same < 4; k++ {
			time.Sleep(25 * time.Millisecond)
			g.mu.Lock()
			s := fmt.Sprint(len(g.fetches), g.inflight, atomic.LoadInt64(&g.progress), atomic.LoadInt64(&clientBytes))
			g.mu.Unlock()
			for i := 0; i < 16; i++ {
				if cl, ok := clients[i]; ok {
					select {
					case <-cl.done:
						s += "d"
					default:
						s += "r"
					}
				}
			}
			s += fmt.Sprint(caching.VerifLockedKeys(cache))
			if s == last {
				same++
			} else {
				same = 0
				last = s
			}
		}
	}
	var outs []sx.V
	snapshot := func() sx.V {
		g.mu.Lock()
		nf, in, mx := len(g.fetches), g.inflight, g.maxIn
		g.mu.Unlock()
		cs := []sx.V{}
		for i := 0; i < 16; i++ {
			cl, ok := clients[i]
			if !ok {
				continue
			}
			select {
			case <-cl.done:
				if cl.err != "" {
					cs = append(cs, sx.L(sx.I(int64(i)), sx.S("error"), sx.S(cl.err)))
				} else {
					cs = append(cs, sx.L(sx.I(int64(i)), sx.S("done"), sx.I(int64(cl.status)), sx.S(cl.version), sx.B(cl.whole), sx.S(cl.cache)))
				}
			default:
				cs = append(cs, sx.L(sx.I(int64(i)), sx.S("pending")))
			}
		}
		return sx.L(sx.I(int64(nf)), sx.I(int64(in)), sx.I(int64(mx)), sx.I(int64(caching.VerifLockedKeys(cache))), sx.L(cs...))
	}
	for _, a := range c.Acts {
		switch a.Kind {
		case "arrive":
			cl := &coClient{done: make(chan struct{}), resume: make(chan struct{}), progress: &clientBytes, origin: clientOrigin}
			clients[a.I] = cl
			atomic.AddInt64(&arrivals, 1)
			if a.Arg == "cond" {
				// a client that holds the first version: on a cold cache its fetch is unconditional all the same
				go runClientV(addr, false, g.bodyLen, cl, `"e1"`)
			} else {
				go runClient(addr, a.Arg == "slow", g.bodyLen, cl)
			}
		case "answer":
			g.mu.Lock()
			var f *fetch
			if a.I < len(g.fetches) {
				f = g.fetches[a.I]
			}
			g.mu.Unlock()
			if f != nil && a.Arg == "finish" {
				f.finOnce.Do(func() { close(f.finish) })
				// "finish" for a fetch that was not standing half way: it is answered now, as a new version
				if atomic.LoadInt32(&f.answered) == 0 {
					select {
					case f.answer <- "new":
						atomic.StoreInt32(&f.answered, 1)
					default:
					}
				}
			} else if f != nil {
				select {
				case f.answer <- a.Arg:
					atomic.StoreInt32(&f.answered, 1)
				default:
				}
			}
		case "resume":
			if cl, ok := clients[a.I]; ok {
				select {
				case <-cl.resume:
				default:
					close(cl.resume)
				}
				// a resumed client whose response has begun reads it to the end (its handler then ends)
				if atomic.LoadInt64(&entered) >= atomic.LoadInt64(&arrivals) {
					select {
					case <-cl.done:
					case <-time.After(3 * time.Second):
					}
				}
			}
		case "adv":
			mu.Lock()
			offset += a.Dt
			mu.Unlock()
		case "leave":
			// the client goes away: it closes its connection (the server cancels the request's context)
			if cl, ok := clients[a.I]; ok {
				cl.connMu.Lock()
				if cl.conn != nil {
					cl.conn.Close()
				}
				cl.connMu.Unlock()
				select {
				case <-cl.done:
				case <-time.After(3 * time.Second):
				}
			}
		}
		settle()
		outs = append(outs, snapshot())
	}
	// let everything finish, then one more plain request: the key must be neither wedged nor poisoned
	g.mu.Lock()
	for _, f := range g.fetches {
		f := f
		f.finOnce.Do(func() { close(f.finish) })
		select {
		case f.answer <- "new":
		default:
		}
	}
	g.mu.Unlock()
	for _, cl := range clients {
		select {
		case <-cl.resume:
		default:
			close(cl.resume)
		}
	}
	// fetches started by waiters that were woken meanwhile are answered too, until everyone is served
	for k := 0; k < 300; k++ {
		all := true
		for _, cl := range clients {
			select {
			case <-cl.done:
			default:
				all = false
			}
		}
		if all {
			break
		}
		g.mu.Lock()
		for _, f := range g.fetches {
			select {
			case f.answer <- "new":
			default:
			}
		}
		g.mu.Unlock()
		time.Sleep(40 * time.Millisecond)
	}
	settle()
	final := &coClient{done: make(chan struct{}), resume: make(chan struct{}), progress: &clientBytes, origin: clientOrigin}
	t0 := time.Now()
	atomic.AddInt64(&arrivals, 1)
	go runClient(addr, false, g.bodyLen, final)
	// a fetch the final request starts is answered at once
	answered := false
	for k := 0; k < 480; k++ {
		select {
		case <-final.done:
			k = 1000
		case <-time.After(25 * time.Millisecond):
			g.mu.Lock()
			for _, f := range g.fetches {
				select {
				case f.answer <- "new":
					answered = true
				default:
				}
			}
			g.mu.Unlock()
		}
	}
	_ = answered
	took := time.Since(t0)
	fin := sx.L(sx.S("pending"))
	select {
	case <-final.done:
		fin = sx.L(sx.S("done"), sx.I(int64(final.status)), sx.S(final.version), sx.B(final.whole), sx.B(took < 10*time.Second))
	default:
	}
	settle()
	outs = append(outs, snapshot(), fin)
	return sx.L(outs...), nil
}

// ---- generators ----
func act(kind string, i int, arg string) CoAct { return CoAct{Kind: kind, I: i, Arg: arg} }

func coordPinned() []coordCase {
	return []coordCase{
		// three requests share one fill
		{MaxAge: 60, Acts: []CoAct{act("arrive", 0, "fast"), act("arrive", 1, "fast"), act("arrive", 2, "fast"), act("answer", 0, "new")}},
		// two requests wait for a fill that is stale the moment it is stored (the clock moved while it was fetched); the first
		// client reads slowly, so its handler - and its second release of the key - outlives the fill: the woken waiter that
		// revalidates must keep the key until its own fetch is answered
		{MaxAge: 60, Big: true, Acts: []CoAct{act("arrive", 0, "slow"), act("arrive", 1, "fast"), act("arrive", 2, "fast"), {Kind: "adv", Dt: 100},
			act("answer", 0, "new"), act("resume", 0, ""), act("answer", 1, "304"), act("answer", 2, "304")}},
		// the resource varies by Origin (the fill moves to another key before it is written; every client sends the same
		// Origin): requests that wait for such a fill share it like any other (defect F44, repaired); a fetch that fails, is
		// cut or is refused after the key change leaves the key free
		{MaxAge: 60, Vary: true, Acts: []CoAct{act("arrive", 0, "fast"), act("arrive", 1, "fast"), act("arrive", 2, "fast"), act("answer", 0, "new")}},
		{MaxAge: 60, Vary: true, Acts: []CoAct{act("arrive", 0, "fast"), {Kind: "adv", Dt: 60}, act("arrive", 1, "fast"), act("arrive", 2, "fast"), act("answer", 0, "new"), act("arrive", 3, "fast")}},
		{MaxAge: 60, Vary: true, Acts: []CoAct{act("arrive", 0, "fast"), act("arrive", 1, "fast"), act("answer", 0, "cut"), act("answer", 1, "new")}},
		{MaxAge: 60, Vary: true, Acts: []CoAct{act("arrive", 0, "fast"), act("answer", 0, "cut"), act("arrive", 1, "fast"), act("answer", 1, "new")}},
		{MaxAge: 60, Vary: true, Acts: []CoAct{act("arrive", 0, "fast"), act("answer", 0, "500"), act("arrive", 1, "fast"), act("answer", 1, "new")}},
		{MaxAge: 60, Vary: true, NoCL: true, Acts: []CoAct{act("arrive", 0, "fast"), act("answer", 0, "cut"), act("arrive", 1, "fast"), act("answer", 1, "new")}},
		{MaxAge: 60, Vary: true, Acts: []CoAct{act("arrive", 0, "fast"), act("answer", 0, "new"), {Kind: "adv", Dt: 100}, act("arrive", 1, "fast"), act("answer", 1, "cut"),
			act("arrive", 2, "fast"), act("answer", 2, "new")}},
		// clients that go away: the one whose fetch is in flight (the others must be served by a new fetch), one that waits
		// (the others are served by the fetch), both, and with a fetch that then fails
		{MaxAge: 60, Acts: []CoAct{act("arrive", 0, "fast"), act("arrive", 1, "fast"), act("arrive", 2, "fast"), act("leave", 0, ""), act("answer", 1, "new")}},
		{MaxAge: 60, Acts: []CoAct{act("arrive", 0, "fast"), act("arrive", 1, "fast"), act("arrive", 2, "fast"), act("leave", 1, ""), act("answer", 0, "new")}},
		{MaxAge: 60, Acts: []CoAct{act("arrive", 0, "fast"), act("arrive", 1, "fast"), act("arrive", 2, "fast"), act("leave", 1, ""), act("answer", 0, "cut"), act("answer", 1, "new")}},
		{MaxAge: 60, Acts: []CoAct{act("arrive", 0, "fast"), act("arrive", 1, "fast"), act("arrive", 2, "fast"), act("leave", 1, ""), act("answer", 0, "500"), act("answer", 1, "new")}},
		{MaxAge: 60, Acts: []CoAct{act("arrive", 0, "fast"), act("arrive", 1, "fast"), act("leave", 0, ""), act("leave", 1, ""), act("arrive", 2, "fast"), act("answer", 1, "new"), act("answer", 2, "new")}},
		// the rule caps the lifetime (force_revalidate): a request that arrives while the forced refresh is in flight waits for it,
		// the origin having granted no stale-while-revalidate
		{MaxAge: 3600, Force: 10, Acts: []CoAct{act("arrive", 0, "fast"), act("answer", 0, "new"), {Kind: "adv", Dt: 20}, act("arrive", 1, "fast"), act("arrive", 2, "fast"),
			act("answer", 1, "new")}},
		{MaxAge: 3600, Force: 10, Acts: []CoAct{act("arrive", 0, "fast"), act("answer", 0, "new"), {Kind: "adv", Dt: 9}, act("arrive", 1, "fast"), {Kind: "adv", Dt: 2}, act("arrive", 2, "fast"),
			act("arrive", 3, "fast"), act("answer", 1, "304")}},
		// the only request that waits goes away, and the fetch it waited for comes to nothing: woken, it takes the key and has
		// nobody to answer - the key must be free for the request that comes next
		{MaxAge: 60, Acts: []CoAct{act("arrive", 0, "fast"), act("arrive", 1, "fast"), act("leave", 1, ""), act("answer", 0, "cut"), act("arrive", 2, "fast"), act("answer", 1, "new")}},
		{MaxAge: 60, Acts: []CoAct{act("arrive", 0, "fast"), act("arrive", 1, "fast"), act("leave", 1, ""), act("answer", 0, "500"), act("arrive", 2, "fast"), act("answer", 1, "new")}},
		{MaxAge: 60, Acts: []CoAct{act("arrive", 0, "fast"), act("arrive", 1, "fast"), act("leave", 1, ""), act("answer", 0, "fail"), act("arrive", 2, "fast"), act("answer", 1, "new")}},
		// the request that fetches carries a validator that matches what it fetches; the one that waits carries none
		{MaxAge: 60, Acts: []CoAct{act("arrive", 0, "cond"), act("arrive", 1, "fast"), act("arrive", 2, "fast"), act("answer", 0, "new")}},
		// requests that arrive while the first one's body is half way in (cache file created, not yet published)
		{MaxAge: 60, Acts: []CoAct{act("arrive", 0, "fast"), act("answer", 0, "slow"), act("arrive", 1, "fast"), act("arrive", 2, "fast"), act("answer", 0, "finish")}},
		{MaxAge: 60, NoCL: true, Acts: []CoAct{act("arrive", 0, "fast"), act("answer", 0, "slow"), act("arrive", 1, "fast"), act("answer", 0, "finish")}},
		// the same in a revalidation
		{MaxAge: 60, Acts: []CoAct{act("arrive", 0, "fast"), act("answer", 0, "new"), {Kind: "adv", Dt: 100}, act("arrive", 1, "fast"), act("answer", 1, "slow"),
			act("arrive", 2, "fast"), act("answer", 1, "finish")}},
		// a slow first client keeps its handler alive past the end of the fill; the entry expires; a
		// second request revalidates; the first finishes; a third arrives (finding F18)
		{MaxAge: 60, Big: true, Acts: []CoAct{act("arrive", 0, "slow"), act("answer", 0, "new"), {Kind: "adv", Dt: 100}, act("arrive", 1, "fast"),
			act("resume", 0, ""), act("arrive", 2, "fast"), act("answer", 1, "304"), act("answer", 2, "304")}},
		// the fill fails in every way while two requests wait
		{MaxAge: 60, Acts: []CoAct{act("arrive", 0, "fast"), act("arrive", 1, "fast"), act("arrive", 2, "fast"), act("answer", 0, "fail"), act("answer", 1, "new")}},
		{MaxAge: 60, Acts: []CoAct{act("arrive", 0, "fast"), act("arrive", 1, "fast"), act("arrive", 2, "fast"), act("answer", 0, "cut"), act("answer", 1, "new")}},
		{MaxAge: 60, Acts: []CoAct{act("arrive", 0, "fast"), act("arrive", 1, "fast"), act("answer", 0, "500"), act("answer", 1, "new")}},
		// a revalidation fails while a request waits on it
		{MaxAge: 60, Acts: []CoAct{act("arrive", 0, "fast"), act("answer", 0, "new"), {Kind: "adv", Dt: 100}, act("arrive", 1, "fast"), act("arrive", 2, "fast"),
			act("answer", 1, "fail"), act("answer", 2, "new")}},
		{MaxAge: 60, Acts: []CoAct{act("arrive", 0, "fast"), act("answer", 0, "new"), {Kind: "adv", Dt: 100}, act("arrive", 1, "fast"), act("arrive", 2, "fast"),
			act("answer", 1, "500"), act("answer", 2, "304")}},
		{MaxAge: 60, Acts: []CoAct{act("arrive", 0, "fast"), act("answer", 0, "new"), {Kind: "adv", Dt: 100}, act("arrive", 1, "fast"), act("arrive", 2, "fast"),
			act("answer", 1, "cut"), act("answer", 2, "new")}},
		// stale-while-revalidate: the overlapping request is served the stale entry
		{MaxAge: 60, SWR: true, Acts: []CoAct{act("arrive", 0, "fast"), act("answer", 0, "new"), {Kind: "adv", Dt: 100}, act("arrive", 1, "fast"), act("arrive", 2, "fast"),
			act("answer", 1, "new")}},
	}
}

func coordPinnedChunked() []coordCase {
	var out []coordCase
	for _, c := range coordPinned() {
		for _, a := range c.Acts {
			if a.Arg == "cut" {
				c.NoCL = true
				out = append(out, c)
				break
			}
		}
	}
	// a cut fill with nobody waiting, then later requests: the truncated body must not have become an entry
	out = append(out, coordCase{MaxAge: 60, NoCL: true, Acts: []CoAct{act("arrive", 0, "fast"), act("answer", 0, "cut"), act("arrive", 1, "fast"), act("answer", 1, "new"), act("arrive", 2, "fast")}})
	out = append(out, coordCase{MaxAge: 60, NoCL: true, Acts: []CoAct{act("arrive", 0, "fast"), act("answer", 0, "new"), {Kind: "adv", Dt: 100}, act("arrive", 1, "fast"), act("answer", 1, "cut"),
		act("arrive", 2, "fast"), act("answer", 2, "new"), act("arrive", 3, "fast")}})
	return out
}

func genCoord(tier string, rng *Rng) []Case {
	n := 80
	if tier == "thorough" {
		n = 450
	}
	var out []Case
	for _, c := range coordPinned() {
		out = append(out, c)
	}
	for _, c := range coordPinnedChunked() {
		out = append(out, c)
	}
	answers := []string{"new", "new", "304", "500", "fail", "cut"}
	for len(out) < n {
		c := coordCase{MaxAge: 60, SWR: rng.Chance(20, 100), Big: rng.Chance(25, 100), NoCL: rng.Chance(30, 100), Vary: rng.Chance(25, 100)}
		arrived, fetchesAnswered, resumed := 0, 0, map[int]bool{}
		slow := map[int]bool{}
		steps := 4 + rng.Intn(8)
		for s := 0; s < steps; s++ {
			switch rng.Intn(10) {
			case 0, 1, 2, 3:
				if arrived < 5 {
					mode := "fast"
					if c.Big && rng.Chance(40, 100) {
						mode = "slow"
						slow[arrived] = true
					}
					c.Acts = append(c.Acts, act("arrive", arrived, mode))
					arrived++
				}
			case 4, 5, 6:
				// answer the oldest unanswered fetch (it exists if something arrived: the generator may be wrong
				// about that; an answer to a fetch that does not exist is ignored by harness and model alike)
				if rng.Chance(25, 100) && !c.Big {
					// the answer comes in two halves; something else may happen in between
					c.Acts = append(c.Acts, act("answer", fetchesAnswered, "slow"))
					if arrived < 5 && rng.Chance(70, 100) {
						c.Acts = append(c.Acts, act("arrive", arrived, "fast"))
						arrived++
					}
					c.Acts = append(c.Acts, act("answer", fetchesAnswered, "finish"))
				} else {
					c.Acts = append(c.Acts, act("answer", fetchesAnswered, answers[rng.Intn(len(answers))]))
				}
				fetchesAnswered++
			case 7:
				c.Acts = append(c.Acts, CoAct{Kind: "adv", Dt: int64(rng.Pick2([]int{10, 59, 60, 100}))})
			case 8:
				// a client arrives and goes away again before anything else happens (so that it is known whether it held the
				// key or waited: which of several woken waiters takes the key is the scheduler's choice)
				if arrived < 5 && !c.Big && rng.Chance(60, 100) {
					c.Acts = append(c.Acts, act("arrive", arrived, "fast"), act("leave", arrived, ""))
					arrived++
					break
				}
				fallthrough
			case 9:
				for i := range slow {
					if !resumed[i] {
						c.Acts = append(c.Acts, act("resume", i, ""))
						resumed[i] = true
						break
					}
				}
			}
		}
		out = append(out, c)
	}
	return out
}
