package main

// The "reload" family (C19): the real rrrouter binary (built from /repo without the verif tag)
// started on a mapping file, the file rewritten and SIGHUP sent, and the configuration in force
// read off probe requests: which rules route (the origin stub records what it is asked for) and
// which caches exist (a cached rule's second request is a hit only if its storage exists).

import (
	"fmt"
	"io/ioutil"
	"net"
	"net/http"
	"net/http/httptest"
	"os"
	"os/exec"
	"path/filepath"
	"sort"
	"strings"
	"sync"
	"syscall"
	"time"

	"verif/harness/sx"
)

type RlDoc struct {
	Ver    int      // which origin path this version's rules point at
	Caches []string // cache ids configured
	Damage string   // "" | rules-type | rules-badpath | caches-type | caches-dup | junk | missing | baddest | same
}

type reloadCase struct {
	Docs  []RlDoc // Docs[0] is the start-up configuration (valid)
	texts []string
	probe []Req
	origin string
}

var rlCacheIds = []string{"c1", "c2", "c3"}

func (d RlDoc) text(origin, dir string, prev string) string {
	if d.Damage == "same" {
		return prev
	}
	rules := []string{fmt.Sprintf(`{"path":"/v/*","destination":"%s/ver%d/$1"}`, origin, d.Ver)}
	for _, id := range rlCacheIds {
		rules = append(rules, fmt.Sprintf(`{"path":"/cache-%s/*","destination":"%s/cached-%s/$1","cache":"%s"}`, id, origin, id, id))
	}
	switch d.Damage {
	case "rules-type":
		rules = append(rules, `{"path":"/x","destination":"`+origin+`/x","methods":"GET"}`)
	case "rules-badpath":
		rules = append(rules, `{"path":"/x*y*","destination":"`+origin+`/x"}`)
	case "baddest":
		rules = append(rules, `{"path":"/x","destination":"http://[::1"}`)
	}
	caches := []string{}
	for _, id := range d.Caches {
		caches = append(caches, fmt.Sprintf(`{"id":"%s","path":"%s","size":"64KB"}`, id, filepath.Join(dir, "cache-"+id)))
	}
	cs := "[" + strings.Join(caches, ",") + "]"
	switch d.Damage {
	case "caches-type":
		cs = `"oops"`
	case "caches-dup":
		if len(caches) > 0 {
			cs = "[" + strings.Join(append(caches, caches[0]), ",") + "]"
		} else {
			cs = fmt.Sprintf(`[{"id":"c1","path":"%s","size":"1MB"},{"id":"c1","path":"%s","size":"1MB"}]`, filepath.Join(dir, "cache-c1"), filepath.Join(dir, "cache-c1b"))
		}
	case "junk":
		return "{{{ not a configuration"
	}
	return `{"rules":[` + strings.Join(rules, ",") + `],"caches":` + cs + `}`
}

func (c *reloadCase) Sx() sx.V {
	docs := []sx.V{}
	for i, t := range c.texts {
		if c.Docs[i].Damage == "missing" {
			docs = append(docs, sx.L(sx.S("missing")))
			continue
		}
		d, _ := docSx([]byte(t))
		docs = append(docs, sx.L(sx.S("text"), sx.S(t), d))
	}
	bad := []string{"http://[::1"}
	probes := []sx.V{}
	for _, r := range c.probe {
		probes = append(probes, reqSx(r))
	}
	plan := []sx.V{}
	for _, d := range c.Docs {
		plan = append(plan, sx.L(sx.I(int64(d.Ver)), sx.Strs(d.Caches), sx.S(d.Damage)))
	}
	return sx.L(sx.S("reload"), sx.L(docs...), sx.L(probes...), sx.Strs(bad), sx.L(sx.L(sx.S(""), sx.I(0)), sx.L(sx.S("64KB"), sx.I(64*1024)), sx.L(sx.S("1MB"), sx.I(1024*1024))),
		sx.Strs(rlCacheIds), sx.L(plan...), sx.S(c.origin))
}

func reloadCaseFromSx(v sx.V) *reloadCase {
	c := &reloadCase{}
	for _, p := range v.N(6).List() {
		c.Docs = append(c.Docs, RlDoc{Ver: int(p.N(0).Int()), Caches: p.N(1).StrList(), Damage: p.N(2).Str()})
	}
	return c
}

func freePort() (int, error) {
	l, err := net.Listen("tcp", "127.0.0.1:0")
	if err != nil {
		return 0, err
	}
	defer l.Close()
	return l.Addr().(*net.TCPAddr).Port, nil
}

type originStub struct {
	mu  sync.Mutex
	log []string
}

func (o *originStub) ServeHTTP(w http.ResponseWriter, r *http.Request) {
	o.mu.Lock()
	o.log = append(o.log, r.URL.Path)
	o.mu.Unlock()
	w.Header().Set("Cache-Control", "max-age=3600")
	w.Header().Set("Content-Type", "text/plain")
	if strings.Contains(r.URL.Path, "/big-") {
		w.Header().Set("Content-Length", "16384")
		w.Write(make([]byte, 16384))
		return
	}
	// whole KiB everywhere: the limiter's accounting is exact then (finding F14 otherwise)
	w.Header().Set("Content-Length", "1024")
	w.Write(make([]byte, 1024))
}

func (c *reloadCase) Run() (sx.V, error) {
	bin := os.Getenv("HX_RRROUTER")
	if bin == "" {
		return sx.L(), fmt.Errorf("HX_RRROUTER is not set")
	}
	dir, err := ioutil.TempDir(tmpRoot(), "hxreload")
	if err != nil {
		return sx.L(), err
	}
	stub := &originStub{}
	origin := httptest.NewServer(stub)
	defer origin.Close()
	c.origin = strings.TrimPrefix(origin.URL, "http://")
	c.texts = nil
	prev := ""
	for _, d := range c.Docs {
		t := d.text(origin.URL, dir, prev)
		c.texts = append(c.texts, t)
		if d.Damage != "missing" {
			prev = t
		}
	}
	mapping := filepath.Join(dir, "mapping.json")
	if err := ioutil.WriteFile(mapping, []byte(c.texts[0]), 0644); err != nil {
		return sx.L(), err
	}
	port, err := freePort()
	if err != nil {
		return sx.L(), err
	}
	cmd := exec.Command(bin, "start", "--mapping-file", mapping, "--port", fmt.Sprint(port))
	cmd.Env = append(os.Environ(), "ATIME_DISABLE=true")
	logf, _ := os.Create(filepath.Join(dir, "rrrouter.log"))
	cmd.Stdout, cmd.Stderr = logf, logf
	if err := cmd.Start(); err != nil {
		return sx.L(), err
	}
	exited := make(chan struct{})
	go func() { cmd.Wait(); close(exited) }()
	defer func() {
		cmd.Process.Kill()
		<-exited
		logf.Close()
	}()
	addr := fmt.Sprintf("127.0.0.1:%d", port)
	up := false
	for k := 0; k < 100; k++ {
		if conn, err := net.DialTimeout("tcp", addr, 200*time.Millisecond); err == nil {
			conn.Close()
			up = true
			break
		}
		select {
		case <-exited:
			return sx.L(), fmt.Errorf("rrrouter exited at start-up on a valid configuration")
		case <-time.After(50 * time.Millisecond):
		}
	}
	if !up {
		return sx.L(), fmt.Errorf("rrrouter did not start listening")
	}
	alive := func() bool {
		select {
		case <-exited:
			return false
		default:
			return true
		}
	}
	c.probe = []Req{{Method: "GET", Host: addr, Target: "/v/p"}}
	serial := 0
	observe := func() sx.V {
		if !alive() {
			return sx.L(sx.S("dead"))
		}
		// the version in force
		stub.mu.Lock()
		stub.log = nil
		stub.mu.Unlock()
		o, err := rawRequest(addr, c.probe[0])
		ver := "?"
		status := 0
		if err == nil {
			status = o.Status
		}
		stub.mu.Lock()
		if len(stub.log) > 0 {
			ver = stub.log[0]
		}
		stub.mu.Unlock()
		// the caches in force
		have := []string{}
		for _, id := range rlCacheIds {
			serial++
			rq := Req{Method: "GET", Host: addr, Target: fmt.Sprintf("/cache-%s/%d", id, serial)}
			rawRequest(addr, rq)
			time.Sleep(30 * time.Millisecond)
			o2, err := rawRequest(addr, rq)
			if err == nil && strings.EqualFold(o2.Hdrs.Get("Richie-Edge-Cache"), "hit") {
				have = append(have, id)
			}
		}
		sort.Strings(have)
		if !alive() {
			return sx.L(sx.S("dead"))
		}
		return sx.L(sx.S("alive"), sx.I(int64(status)), sx.S(ver), sx.Strs(have))
	}
	outs := []sx.V{observe()}
	for i := 1; i < len(c.Docs); i++ {
		if c.Docs[i].Damage == "missing" {
			os.Remove(mapping)
		} else {
			tmp := mapping + ".new"
			if err := ioutil.WriteFile(tmp, []byte(c.texts[i]), 0644); err != nil {
				return sx.L(), err
			}
			os.Rename(tmp, mapping)
		}
		if alive() {
			cmd.Process.Signal(syscall.SIGHUP)
		}
		time.Sleep(400 * time.Millisecond)
		a := observe()
		// settle: a reload still in progress shows as a change between two looks
		for k := 0; k < 5; k++ {
			time.Sleep(200 * time.Millisecond)
			b := observe()
			if b.String() == a.String() {
				break
			}
			a = b
		}
		outs = append(outs, a)
	}
	// the caches in force are limited like after a restart: fill each past its 64 KB, keep it in use
	// for more than one limiter period, and look at the directory
	last := outs[len(outs)-1]
	limits := []sx.V{}
	if last.N(0).Str() == "alive" {
		have := last.N(3).StrList()
		for _, id := range have {
			for k := 0; k < 8; k++ {
				rawRequest(addr, Req{Method: "GET", Host: addr, Target: fmt.Sprintf("/cache-%s/big-%d", id, k)})
			}
		}
		for k := 0; k < 8 && len(have) > 0; k++ {
			time.Sleep(time.Second)
			for _, id := range have {
				rawRequest(addr, Req{Method: "GET", Host: addr, Target: fmt.Sprintf("/cache-%s/big-0", id)})
			}
		}
		for _, id := range have {
			var total int64
			for _, e := range listFiles(filepath.Join(dir, "cache-"+id)).L {
				total += e.N(1).Int()
			}
			limits = append(limits, sx.L(sx.S(id), sx.I(total)))
		}
	}
	outs = append(outs, sx.L(sx.S("limits"), sx.L(limits...)))
	return sx.L(outs...), nil
}

func genReload(tier string, rng *Rng) []Case {
	n := 24
	if tier == "thorough" {
		n = 160
	}
	damages := []string{"rules-type", "rules-badpath", "caches-type", "caches-dup", "junk", "missing", "baddest", "same"}
	subset := func() []string {
		out := []string{}
		for _, id := range rlCacheIds {
			if rng.Chance(55, 100) {
				out = append(out, id)
			}
		}
		return out
	}
	var out []Case
	for i := 0; i < n; i++ {
		c := &reloadCase{Docs: []RlDoc{{Ver: 0, Caches: subset()}}}
		steps := 2 + rng.Intn(4)
		for s := 1; s <= steps; s++ {
			d := RlDoc{Ver: s, Caches: subset()}
			if rng.Chance(45, 100) {
				d.Damage = damages[(i+s)%len(damages)]
			}
			c.Docs = append(c.Docs, d)
		}
		// every sequence ends with a good document: the last good one must be in force
		c.Docs = append(c.Docs, RlDoc{Ver: steps + 1, Caches: subset()})
		out = append(out, c)
	}
	return out
}
