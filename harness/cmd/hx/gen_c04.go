package main

// C04 generator: every combination of the three headers (values, casings,
// multiplicities) x internal/external x secret lists x copy destination.

func c04Rules(mainInternal bool, copyMode int) []Rule {
	rs := []Rule{}
	if copyMode > 0 {
		rs = append(rs, Rule{Enabled: true, Path: "/*", Dest: "http://copy.test/c/$1", Internal: copyMode == 2, Type: 2})
	}
	rs = append(rs, Rule{Enabled: true, Path: "/*", Dest: "http://main.test/m/$1", Internal: mainInternal, Type: 1})
	return rs
}

func genC04(tier string, rng *Rng) []Case {
	var out []Case
	ok := Behaviour{Status: 200, Hdrs: []KV{{"Content-Type", "text/plain"}}, Body: "ok"}
	script := []HostScript{{"main.test", []Behaviour{ok}}, {"copy.test", []Behaviour{ok}}}
	secretCfgs := []*[]string{nil, {"s1"}, {"s1", "s0"}}
	secretVals := [][]string{nil, {"s1"}, {"s0"}, {"bad"}, {""}, {"s1", "bad"}, {"bad", "s1"}, {"s1x"}, {"s"}}
	idVals := [][]string{nil, {"cid"}, {"123e4567-e89b-12d3-a456-426614174000"}, {"", "late"}}
	ipVals := [][]string{nil, {"9.9.9.9"}}
	casings := [][3]string{
		{"Richie-Routing-Secret", "Richie-Request-ID", "Richie-Originating-IP"},
		{"richie-routing-secret", "richie-request-id", "richie-originating-ip"},
		{"RICHIE-ROUTING-SECRET", "RICHIE-REQUEST-ID", "Richie-Originating-Ip"},
	}
	ipHdrs := [][]KV{nil, {{"X-Forwarded-For", "1.2.3.4, 5.6.7.8"}}, {{"X-Real-Ip", "7.7.7.7:99"}}, {{"Cf-Connecting-Ip", "8.8.8.8"}},
		{{"X-Real-Ip", " "}, {"X-Forwarded-For", "[2001:db8::1]:443"}}}
	methods := []string{"GET", "POST", "PUT"}
	for _, sc := range secretCfgs {
		for _, mi := range []bool{false, true} {
			for cm := 0; cm < 3; cm++ {
				for _, sv := range secretVals {
					for _, iv := range idVals {
						for _, pv := range ipVals {
							for _, cs := range casings {
								hdrs := []KV{{"Accept", "*/*"}}
								for _, v := range sv {
									hdrs = append(hdrs, KV{cs[0], v})
								}
								for _, v := range iv {
									hdrs = append(hdrs, KV{cs[1], v})
								}
								for _, v := range pv {
									hdrs = append(hdrs, KV{cs[2], v})
								}
								hdrs = append(hdrs, ipHdrs[rng.Intn(len(ipHdrs))]...)
								m := methods[rng.Intn(len(methods))]
								body := ""
								if m != "GET" {
									body = "payload"
								}
								out = append(out, routeCase{RouteCase{Secrets: sc, Retries: 1, Rules: c04Rules(mi, cm),
									Req: Req{Method: m, Host: "app.test", Target: "/x/y?q=1", Hdrs: hdrs, Body: body}, Script: script}})
							}
						}
					}
				}
			}
		}
	}
	// retry_rule fallbacks whose internal flag differs from their parent's: the firewall applies per destination
	fail := Behaviour{Status: 404, Hdrs: []KV{{"Content-Type", "text/plain"}}, Body: "no"}
	for _, sc := range secretCfgs {
		for _, mi := range []bool{false, true} {
			for _, ri := range []bool{false, true} {
				for _, sv := range secretVals {
					for _, iv := range idVals[:2] {
						for _, mainFails := range []int{0, 1, 2} { // 0: ok, 1: 4xx, 2: unreachable
							hdrs := []KV{{"Accept", "*/*"}}
							for _, v := range sv {
								hdrs = append(hdrs, KV{"Richie-Routing-Secret", v})
							}
							for _, v := range iv {
								hdrs = append(hdrs, KV{"Richie-Request-ID", v})
							}
							rr := Rule{Enabled: true, Path: "/*", Dest: "http://retry.test/r/$1", Internal: ri, Type: 1}
							main := Rule{Enabled: true, Path: "/*", Dest: "http://main.test/m/$1", Internal: mi, Type: 1, Retry: &rr}
							mb := ok
							if mainFails == 1 {
								mb = fail
							} else if mainFails == 2 {
								mb = Behaviour{Err: true}
							}
							script2 := []HostScript{{"main.test", []Behaviour{mb}}, {"retry.test", []Behaviour{ok}}}
							out = append(out, routeCase{RouteCase{Secrets: sc, Retries: 0, Rules: []Rule{main},
								Req: Req{Method: "GET", Host: "app.test", Target: "/x", Hdrs: hdrs}, Script: script2}})
						}
					}
				}
			}
		}
	}
	return out
}
