module verif/harness

go 1.15

require (
	github.com/apex/log v1.9.0
	github.com/c2h5oh/datasize v0.0.0-20200825124411-48ed595a09d2
	github.com/itchio/go-brotli v0.0.0-20190702114328-3f28d645a45c
	github.com/richiefi/rrrouter v0.0.0
	gopkg.in/yaml.v2 v2.3.0
)

replace github.com/richiefi/rrrouter => /repo
