module verif/harness

go 1.15

require (
	github.com/apex/log v1.9.0
	github.com/richiefi/rrrouter v0.0.0
)

replace github.com/richiefi/rrrouter => /repo
