// Package sx is the tiny tree language shared with the Coq model:
// atoms are byte strings (s<hex>) or integers (i<dec>), nodes are lists.
package sx

import (
	"encoding/hex"
	"fmt"
	"strconv"
	"strings"
)

type V struct {
	Kind byte // 's', 'i', 'l'
	S    string
	I    int64
	L    []V
}

func S(s string) V   { return V{Kind: 's', S: s} }
func I(i int64) V    { return V{Kind: 'i', I: i} }
func L(vs ...V) V    { return V{Kind: 'l', L: append([]V{}, vs...)} }
func B(b bool) V {
	if b {
		return I(1)
	}
	return I(0)
}
func Strs(ss []string) V {
	out := make([]V, len(ss))
	for i, s := range ss {
		out[i] = S(s)
	}
	return L(out...)
}
func OptS(s *string) V {
	if s == nil {
		return L()
	}
	return L(S(*s))
}

func (v V) write(b *strings.Builder) {
	switch v.Kind {
	case 's':
		b.WriteByte('s')
		b.WriteString(hex.EncodeToString([]byte(v.S)))
	case 'i':
		b.WriteByte('i')
		b.WriteString(strconv.FormatInt(v.I, 10))
	default:
		b.WriteByte('(')
		for _, x := range v.L {
			b.WriteByte(' ')
			x.write(b)
		}
		b.WriteString(" )")
	}
}

func (v V) String() string {
	var b strings.Builder
	v.write(&b)
	return b.String()
}

func Parse(line string) (V, error) {
	toks := strings.Fields(line)
	pos := 0
	var items func() ([]V, error)
	items = func() ([]V, error) {
		var out []V
		for pos < len(toks) {
			t := toks[pos]
			pos++
			switch {
			case t == ")":
				return out, nil
			case t == "(":
				l, err := items()
				if err != nil {
					return nil, err
				}
				out = append(out, V{Kind: 'l', L: l})
			case t[0] == 's':
				bs, err := hex.DecodeString(t[1:])
				if err != nil {
					return nil, err
				}
				out = append(out, S(string(bs)))
			case t[0] == 'i':
				i, err := strconv.ParseInt(t[1:], 10, 64)
				if err != nil {
					return nil, err
				}
				out = append(out, I(i))
			default:
				return nil, fmt.Errorf("bad token %q", t)
			}
		}
		return out, nil
	}
	vs, err := items()
	if err != nil {
		return V{}, err
	}
	if len(vs) != 1 {
		return V{}, fmt.Errorf("expected one tree, got %d", len(vs))
	}
	return vs[0], nil
}

func (v V) N(i int) V {
	if v.Kind == 'l' && i < len(v.L) {
		return v.L[i]
	}
	return L()
}
func (v V) Str() string { return v.S }
func (v V) Int() int64  { return v.I }
func (v V) Bool() bool  { return v.Kind == 'i' && v.I != 0 }
func (v V) List() []V   { return v.L }
func (v V) StrList() []string {
	out := []string{}
	for _, x := range v.L {
		out = append(out, x.S)
	}
	return out
}
